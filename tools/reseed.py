#!/usr/bin/env python3
"""Regression of every kept seeded change against the CURRENT checks.

usage: tools/reseed.py [-j N] [name ...]      (default: every directory of /verif/seeded)

For each seed: scratch worktree of /repo HEAD under /tmp, apply patch.diff, run the checks named in its
meta.json with VERIF_REPO pointing at the patched tree, remove the worktree. Nothing is applied to /repo.
Writes /verif/seeded/REGRESSION.json (name -> exit code, violations, first signature per check).
Exit 1 if a seed is no longer caught by any of its checks.
"""
import json, os, shutil, subprocess, sys, time
from concurrent.futures import ThreadPoolExecutor

ENV = dict(os.environ, GOFLAGS="-mod=mod", GOPROXY="off", GOSUMDB="off", GOTOOLCHAIN="local")
ENV.pop("VERIF_SEED", None)

def sh(cmd, **kw):
    r = subprocess.run(cmd, shell=isinstance(cmd, str), capture_output=True, text=True, errors="replace", **kw)
    return r.returncode, r.stdout + r.stderr

def one(name):
    d = f"/verif/seeded/{name}"
    meta = json.load(open(f"{d}/meta.json"))
    checks = list(meta.get("checks", {}).keys()) or [meta["property"]]
    wt = f"/tmp/rs-{name}"
    sh(f"git -C /repo worktree remove --force {wt}"); shutil.rmtree(wt, ignore_errors=True)
    sh(f"git -C /repo worktree add -q --detach {wt} HEAD")
    res = dict(property=meta["property"], checks={})
    try:
        rc, out = sh(f"git apply {d}/patch.diff", cwd=wt)
        if rc != 0:
            res["error"] = "patch does not apply: " + out[-300:]
            return name, res
        env = dict(ENV, VERIF_REPO=wt, VERIF_ROOT=f"{wt}/_vroot")
        env.update(meta.get("check_env", {}))  # e.g. VERIF_C15_IDLE=1: a part of the check that otherwise runs in the thorough tier only
        res["expected_uncaught"] = meta.get("expected_uncaught", "")
        for ck in checks:
            t0 = time.time()
            rc, out = sh(["/verif/check", ck, "quick"], cwd="/verif", env=env, timeout=7200)
            sigs = [l.strip()[:200] for l in out.splitlines() if l.strip().startswith("sig=")]
            res["checks"][ck] = dict(exit=rc, violations=sum(l.startswith("VIOLATION") for l in out.splitlines()), first_sig=(sigs or [""])[0], wall_s=round(time.time() - t0, 1))
        res["caught_by"] = [k for k, v in res["checks"].items() if v["exit"] == 1 and v["violations"] > 0]
    finally:
        sh(f"git -C /repo worktree remove --force {wt}"); shutil.rmtree(wt, ignore_errors=True)
    print(name, "caught by", res.get("caught_by"), {k: v["first_sig"][:110] for k, v in res["checks"].items()}, flush=True)
    return name, res

def main():
    a = sys.argv[1:]
    j = 2
    if a[:1] == ["-j"]:
        j = int(a[1]); a = a[2:]
    names = a or sorted(n for n in os.listdir("/verif/seeded") if os.path.isfile(f"/verif/seeded/{n}/meta.json"))
    with ThreadPoolExecutor(j) as ex:
        results = dict(ex.map(one, names))
    out = dict(at=time.strftime("%Y-%m-%dT%H:%M:%S"), repo_head=sh("git -C /repo rev-parse --short HEAD")[1].strip(),
               verif_commit=sh("git -C /verif rev-parse --short HEAD")[1].strip(), seeds=results)
    if a:
        # a partial run is merged into the recorded outcome (each new entry names the commit it was obtained at)
        try:
            old = json.load(open("/verif/seeded/REGRESSION.json"))
        except Exception:
            old = dict(seeds={})
        for n, r in results.items():
            r["verif_commit"] = out["verif_commit"]
        merged = dict(old.get("seeds", {}))
        merged.update(results)
        out["seeds"] = merged
        out["note"] = "merged: entries without verif_commit date from the last full run (%s at %s)" % (old.get("verif_commit"), old.get("at"))
    json.dump(out, open("/verif/seeded/REGRESSION.json", "w"), indent=1, sort_keys=True)
    missed = [n for n, r in results.items() if not r.get("caught_by") and not r.get("expected_uncaught")]
    print("seeds:", len(results), "missed:", missed, "deliberately uncaught:", [n for n, r in results.items() if r.get("expected_uncaught")])
    sys.exit(1 if missed else 0)

main()
