#!/usr/bin/env python3
"""Generates /verif/MANIFEST.json from the table below (kept here so the file stays valid and consistent)."""
import json, subprocess, sys

def hook_commits():
    out = subprocess.run(["git","-C","/repo","log","--format=%H %s"],capture_output=True,text=True).stdout
    return [l.split()[0] for l in out.splitlines() if "verif hook" in l.lower()]

REASM_NOTE = ("Trusted base: the harness's recording Stream and trace oracle (self-tested on hand-made good and bad traces), "
              "the Go runtime. Holds only for the histories generated; single goroutine; sequence numbers within one 2^24 window.")

CHECKS = {
 "C01": dict(engine="reasm", cat="exploration", ref="§5 C01",
   technique="trace oracle over recorded Stream callbacks (exactly-once / grouping / no-split), random + exhaustive small-scope histories on the real Reassembler",
   text="Every callback's message list must equal the full list of records pushed for that sequence since its previous delivery, nothing fabricated/nil/EOE, single sequence, push order, nothing left after Close; decided for tens of thousands of random histories and every history up to length 4 (quick) / 6 (thorough) over 3 sequences x 3 record classes + Maintain. Exploration is the right level: the property quantifies over call histories, which a monitor can sample densely and enumerate for small scopes but not exhaust.",
   note=REASM_NOTE),
 "C02": dict(engine="reasm", cat="exploration", ref="§5 C02",
   technique="order oracle with late-arrival exception over recorded callbacks (roll-over aware linear offsets), random + exhaustive small-scope histories",
   text="For every delivered event E and every earlier-delivered higher event H, E's first record must have been pushed in a call strictly after the call that delivered H; no event is delivered while a lower one is buffered. Same histories as C01.",
   note=REASM_NOTE),
 "C03": dict(engine="reasm", cat="exploration", ref="§5 C03",
   technique="per-call loss-accounting oracle over recorded EventsLost/ReassemblyComplete callbacks, random + exhaustive small-scope histories",
   text="After every call the sum of EventsLost arguments made during that call must equal the number of sequence numbers skipped before the in-order events that call delivered (late/duplicate events count 0 and do not move the reference), every argument positive. Found and now guards the D1 defect (fixed in /repo).",
   note=REASM_NOTE),
 "C10": dict(engine="reasm", cat="exploration", ref="§5 C10",
   technique="buffer-bound and eviction-cause oracle on a boundary-reconstructed buffer, cross-checked against a VerifSnapshot state hook after every call",
   text="After each push at most maxInFlight events are buffered and the oldest is not complete; every delivery outside Close is of a complete event or happened with more than maxInFlight buffered (timeout 1h excludes expiry). The hook snapshot (list order, table keys, complete flags, message counts) must agree with the reconstruction.",
   note=REASM_NOTE),
 "C19": dict(engine="reasm", cat="exploration", ref="§5 C19",
   technique="interval-bracketed expiry oracle over recorded callbacks with real sleeps and monotonic call brackets; Close/Maintain-after-Close/nil-stream return-value checks",
   text="Each eviction decision is classified from the monotonic brackets of the creating call and the deciding call: certainly expired (must be delivered by this Maintain/PushMessage once it is the oldest), certainly fresh (must not be delivered on account of time), or uncertain (either accepted, counted separately). Close must flush everything once, in order, with loss accounting; later Maintain/Close must fail and deliver nothing; a nil Stream must be refused. The oracle is sound under arbitrary scheduling delay, so load cannot cause a false alarm.",
   note="Trusted base: harness oracle, process-wide monotonic clock shared by harness and library. Decisions inside the uncertainty interval are not decided. Timeouts -2^63 ns, -1s, 0, 2/5/20 ms, 1h, 250 years, 2^63-1 ns. Maintain/Close made from inside the callbacks of the flushing Close count as made afterwards."),
 "C11": dict(engine="sched", cat="exploration", ref="§5 C11",
   technique="systematic schedule enumeration with a controlled scheduler on verif yield hooks (stateless DFS, exactly-once / one-Close / deadlock oracle per schedule) + randomised multi-goroutine stress under the Go race detector",
   text="Every interleaving (at the granularity of the Reassembler's atomic steps) of all 625 two-goroutine x two-op programs, of re-entrant-callback variants, and preemption-bounded 3-goroutine programs is executed and checked: no message twice, single-sequence groups, exactly one Close succeeds, every message whose push returned before Close was invoked delivered exactly once, no deadlock (the scheduled worker's own stack is polled: a wait for a go-libaudit mutex while every other worker is finished or between operations is a deadlock; a wait for a lock held by a worker parked inside an operation makes that choice infeasible and the schedule is dropped, counted). Callbacks re-enter Maintain / PushMessage, also from the Close flush. Data races are decided separately by the race detector over stress runs whose hook only injects Gosched/spins (no synchronisation that could hide a race).",
   note="Trusted base: scheduler + oracle in /verif/harness/internal/sched, Go race detector. Interleavings inside a locked region are reached only by the stress phase; larger programs are sampled, not enumerated."),
 "C04": dict(engine="logenc", cat="exploration", ref="§5 C04",
   technique="header round-trip oracle + closed must-error corruption list over generated log lines for all 65536 type codes",
   text="For generated lines covering every type code, boundary and random seconds/milliseconds/sequence numbers and hostile bodies, RecordType/Timestamp(UTC)/Sequence/RawData must equal what was written, ParseLogLine and Parse must agree (fields and Data()), ToMapStr's well-known keys must come from the header; each single corruption from a closed list must yield (nil, error).",
   note="Trusted base: the harness's line writer and comparison code; type names come from the library's own String() (consistency of that table is C20)."),
 "C05": dict(engine="logenc", cat="exploration", ref="§5 C05",
   technique="panic / hang / idempotence monitors over mutation-based and random inputs through every enrichment path",
   text="Hundreds of thousands (quick) to tens of millions (thorough) of mutated real records and random byte strings are parsed as log lines and as raw messages under every record type with its own enrichment path; any panic (recovered and attributed to the input), any call exceeding the hang bound, any difference between two Data/Tags/ToMapStr calls or between Data()'s error and ToMapStr()[\"error\"] is a violation. Fatal runtime errors are attributed through in-flight slots.",
   note="Trusted base: harness mutators and monitors. Totality over all strings cannot be exhausted; the evidence reports how many inputs reached the enrichment code."),
 "C12": dict(engine="logenc", cat="exploration", ref="§5 C12",
   technique="round-trip oracle against an independent kernel-style record writer (untrusted-string/hex/sockaddr encoders) + exhaustive errno and (arch, syscall) table sweep",
   text="Byte-string values are written the way the kernel writes them into 12 record positions and Data() must return the original bytes (NULs as spaces where the statement says so), drop only the four placeholders, and keep neighbours; generated IPv4/IPv6/unix socket addresses must decode to the same family/address/port/path; every errno and every (arch, syscall number) of the published tables, the result and unset rules are checked exhaustively.",
   note="Trusted base: the harness's re-implementation of audit_log_untrustedstring/audit_log_n_hex and struct sockaddr layouts (little-endian host). One known finding (single quote inside a nested msg='...' value)."),
 "C06": dict(engine="rulegen", cat="exploration", ref="§5 C06",
   technique="independent little-endian decoder at the UAPI offsets + hand-written UAPI constant tables (self-tested against linux/audit.h) over a field x operator x value grid and random rules",
   text="Every generated request is built from a Rule struct and from text; the bytes are decoded at fixed audit_rule_data offsets by code that shares nothing with the library and compared with the request: list/action codes, one triple per filter in order then the joined keys, string lengths/back-to-back buffer/buflen, zero unused slots, 4-byte padding, exact syscall mask bits (every bit 0..2047 individually). A must-accept core keeps 'reject everything' from passing; 65 slots must be refused.",
   note="Trusted base: internal/uapi (187 constants/offsets agree with /usr/include/linux/audit.h), the harness's value parsers, x/sys/unix syscall and errno numbers. amd64 little-endian only."),
 "C07": dict(engine="rulegen", cat="exploration", ref="§5 C07",
   technique="encode -> decode-to-text -> re-parse -> re-encode byte-equality monitor with first-differing-word witness, over the C06 generator restricted to the statement's domain",
   text="For every rule Build accepts, ToCommandLine must succeed, the printed text must be accepted by flags.Parse and Build and give byte-identical wire data, and decoding again must give the same text. Found six genuine defects (all repaired in /repo) and one recorded finding (arch filter not first is printed first; classified only when the images are equal up to exactly that move).",
   note="Trusted base: byte comparison and the independent decoder used to classify the one known permutation. Domain: shell-safe strings, watches that agree with the filesystem, amd64, resolveIds=false."),
 "C13": dict(engine="rulegen", cat="exploration", ref="§5 C13",
   technique="panic / hang / guard-page / per-call allocation monitors + structural post-condition over hostile Rule values, header-word boundary sweeps of wire images and mutated rule lines (ASan pass in thorough)",
   text="Build, ToCommandLine and flags.Parse are driven with hostile inputs (each of the 260 header words of valid rules replaced by boundary values, truncations, wrap-around string lengths, syscall numbers across every mask-word boundary, nil/typed-nil/foreign rules, mutated lines). Monitors: recovered panics attributed to the input, a 30 s hang bound, inputs ending at a PROT_NONE page, TotalAlloc delta per call <= 64*len+1MiB in single-worker children under ulimit -v (a refused allocation is a fatal error attributed through in-flight slots), and 'ToCommandLine succeeded => field_count <= 64 and string lengths within buflen within the input'. Found and guards three repaired defects.",
   note="Trusted base: Go runtime fault/alloc accounting, the independent decoder for the post-condition. Over-reads inside the slice's own capacity are visible only to the ASan pass."),
 "C14": dict(engine="rulegen", cat="exploration", ref="§5 C14",
   technique="argv-accounting oracle: grammar-generated argument vectors joined with the harness's own POSIX quoting, interpreted independently, compared with flags.Parse's result",
   text="For each generated argv the harness itself decides 'must be rejected' (mixed delete/watch/syscall flags, both or neither of -a/-A, positional words, repeated -w/-a/-A, malformed -a/-p/-F/-C arguments, unknown flags, missing arguments) or computes the exact rule a faithful parse returns (a filter's operator is the longest one at the first operator position that leaves a value). A returned rule must equal it; an error is always acceptable. The repo's 112 real rule lines must be accepted faithfully.",
   note="Trusted base: the harness's argv interpreter and quoting. Blanks around list items/filter parts are compared trimmed."),
 "C20": dict(engine="tables", cat="exploration", ref="§5 C20",
   technique="exhaustive run-time enumeration of every table entry with inverse / uniqueness / cross-table consistency assertions (verif export hook for the rule tables, independent YAML node walk, UAPI and x/sys spot tables)",
   text="All 65536 record type codes, both errno maps, every arch name/code, every (arch, syscall) entry (also through a built rule), every rule field/operator/comparison entry against linux/audit.h, and every entry of normalizations.yaml are enumerated completely and asserted mutually inverse and consistent; categorisation and normalisation selection are re-evaluated repeatedly and concurrently. The space is finite, so the run is exhaustive (exhaustive: true). Found two misspelt record types and four non-syscall names in the YAML (repaired in /repo).",
   note="Trusted base: the exported maps/functions and the export hook show what the build contains; internal/uapi and x/sys/unix as independent references."),
 "C08": dict(engine="simkernel", cat="fault_enumeration", ref="§5 C08",
   technique="verdict oracle against enumerated fault plans of a simulated kernel behind the exported Netlink interface (errno x fault position x unsolicited events x transient-failure bursts x adversarial reply streams); second pass under the race detector/checkptr",
   text="For every command method the plan fixes which errno the kernel puts on which ACK, where unsolicited sequence-0 events and EINTR/EAGAIN bursts (up to 9) occur, and whether the reply stream is malformed or foreign; the oracle demands nil exactly for errno 0 with a well-formed stream, errors.Is(err, errno) otherwise, the planned payloads for GetStatus/GetRules (compared after the single reused receive buffer was overwritten), never success or data from a foreign-sequence / wrong-type / short / truncated stream, and that a following GetStatus is still in step. Fault positions are enumerated one at a time over every datagram; combinations are sampled.",
   note="Trusted base: the simulated kernel's script (ACK first, then data; nothing after a refusal) and the oracle. Request sequence 0 is skipped by the simulated transport."),
 "C16": dict(engine="simkernel", cat="exploration", ref="§5 C16",
   technique="fixed-offset decoding of every AUDIT_SET request captured at a simulated kernel + exported-constant comparison + FromWireFormat length sweep with guard-page inputs; race/checkptr pass (ASan in thorough)",
   text="Every setter x boundary/random value x wait mode must produce exactly one AUDIT_SET with REQUEST|ACK, a 44-byte payload, exactly the UAPI mask bit and the value at the UAPI offset, all other words zero; 21 exported numbers must equal the kernel's; FromWireFormat must reject < 32 bytes with io.ErrUnexpectedEOF, otherwise decode reached fields, zero unreached ones, ignore trailing bytes and never touch memory past the buffer (input ends at a PROT_NONE page). Two exported failure-mode constants are wrong (known finding, unsafe to repair here).",
   note="Trusted base: internal/uapi offsets and numbers (self-tested against the system header)."),
 "C17": dict(engine="simkernel", cat="exploration", ref="§5 C17",
   technique="reference pending-ACK list + socket close counter + returned-data snapshots over seeded operation histories against a simulated kernel, executed under the race detector with concurrent Close",
   text="A reference list of outstanding NoWait requests decides, for each WaitForPendingACKs call, how many ACK datagrams it must consume (up to and including the first failing one), what it returns, and that it never waits on an empty socket; Close from 1-8 goroutines plus later calls must close the socket exactly once and send exactly one PID-clearing AUDIT_SET iff SetPID was used, without waiting; rule slices from GetRules are compared with snapshots after all later traffic; a request the transport refuses to send must be reported and leaves nothing pending. Found and guards the pendingAcks defect (repaired); one known finding (WaitForReply command with NoWait ACKs outstanding).",
   note="Trusted base: simulated kernel (in-order ACKs, one reused receive buffer), the reference list, Go race detector."),
 "C18": dict(engine="nlreal", cat="exploration", ref="§5 C18",
   technique="the live kernel's verbatim echo of rejected NETLINK_ROUTE requests as framing oracle; porcupine linearizability check of the recorded Send history against a strictly-increasing-counter model (plus an exact interval check for the largest history); spoofed datagrams from a second netlink socket; guard-page inputs for the audit message parser; all under the race detector (ASan in thorough)",
   text="What Send really put on the wire is read back from the kernel's NLMSG_ERROR echo (length, type, flags, port id, sequence, payload) for payload lengths 0..8970 and arbitrary flags/types outside the live rtnetlink range, also through caller-supplied read buffers that the reply fills exactly; concurrent Send histories {call, return, value} must be linearizable as a strictly increasing counter (numbers taken by refused sends leave gaps), also while another goroutine's sends are refused by the kernel; datagrams of every length 0..64 (and longer, ACK-shaped) from a non-kernel sender must yield an error and no message while a later kernel reply is still received; AuditClient.Receive must reject < 16 bytes and otherwise return the header type and everything after 16 bytes, never reading past the input.",
   note="Trusted base: the running kernel's netlink_ack/echo behaviour and user-to-user delivery for root (verified on this image; inconclusive if sockets cannot be opened), porcupine v1.3.0."),
 "C09": dict(engine="logenc", cat="exploration", ref="§5 C09",
   technique="unique-value retention oracle over the JSON-flattened event + file-summary mirror oracle, generated events and an exhaustive st_mode sweep",
   text="Events are generated with a unique value in every field, so 'is this record's key/value somewhere in the event' is decided by equality against the leaves of the JSON-flattened event; a missing value is excused only by a warning that names that key or record type. Identity must be the first record's; groups without records or without SYSCALL must give (nil, error). For all 65536 st_mode values the file summary must mirror the selected PATH (name, inode, device, owner ids, mode & 07777) and the object type must agree with the S_IFMT bits - the latter is a known finding (every non-regular type is reported as 'file'; golden files pin it).",
   note="Trusted base: the event generator and kernel-style writer; Data() of a fresh parse as the per-record reference (its own correctness is C12)."),
 "C15": dict(engine="logenc", cat="exploration", ref="§5 C15",
   technique="before/after snapshot monitors over operation histories on a pool of events (inputs intact, repeatable, isolated) + concurrent coalesce/resolve under the race detector compared with a sequential reference",
   text="Deep copies of Data/Tags/ToMapStr of every input message taken before first use are compared after every CoalesceMessages/ResolveIDs; a repeated coalesce must give an equal event; every event returned so far is compared with its own snapshot after every later operation; 16 goroutines coalesce and resolve different groups under -race and must match the sequential reference. Found and guards the input-mutation defect (repaired).",
   note="Trusted base: snapshot/compare code; warning order is deliberately not asserted (map iteration)."),
}

NOT_YET = {
}

ALL = ["C%02d" % i for i in range(1, 21)]

def main():
    checks = []
    for pid in ALL:
        c = CHECKS.get(pid)
        if not c: continue
        checks.append({
            "property_id": pid,
            "quick_cmd": f"./check {pid} quick",
            "thorough_cmd": f"./check {pid} thorough",
            "evidence_file": f"/verif/evidence/{pid}.json",
            "replay_cmd_template": f"./check {pid} --replay {{path}}",
            "engine": c["engine"],
            "level_claimed": {"category": c["cat"], "text": c["text"], "design_ref": c["ref"]},
            "level_note": c["note"],
            "technique": c["technique"],
        })
    na = [{"property_id": p, "reason": NOT_YET.get(p, "check not built yet in this round (runtime monitor planned in DESIGN.md §5; will be claimed once it runs silent on the unchanged tree)")}
          for p in ALL if p not in CHECKS]
    m = {
        "version": 1,
        "setup_cmd": "./check setup",
        "hooks": {
            "guard": "verif (Go build tag)",
            "enable": "go build -tags verif (the harness module replaces github.com/elastic/go-libaudit/v2 with /repo, so every check rebuilds from /repo's working tree)",
            "baseline_off_cmd": "/verif/baseline_off.sh",
            "source_commits": hook_commits(),
            "add_only": True,
        },
        "engines": [
            {"name": "sched", "path": "/verif/harness/internal/sched", "serves_properties": ["C11"],
             "kind_free_text": "controlled scheduler over the verif yield hook (stateless DFS) + race-detector stress workload"},
            {"name": "logenc", "path": "/verif/harness/internal/logenc", "serves_properties": ["C04","C05","C12","C09","C15"],
             "kind_free_text": "real-record corpus, hostile mutators, kernel-style record writer"},
            {"name": "rulegen", "path": "/verif/harness/internal/rulegen", "serves_properties": ["C06","C07","C13","C14","C20"],
             "kind_free_text": "rule request generator (text + Rule structs), independent UAPI wire decoder; constants in internal/uapi"},
            {"name": "tables", "path": "/verif/harness/internal/checks/c20.go", "serves_properties": ["C20"],
             "kind_free_text": "exhaustive table enumerator"},
            {"name": "simkernel", "path": "/verif/harness/internal/simkernel", "serves_properties": ["C08","C16","C17","C18"],
             "kind_free_text": "scriptable simulated kernel + transport behind libaudit.NetlinkSendReceiver with one reused receive buffer and full call log"},
            {"name": "nlreal", "path": "/verif/harness/internal/checks/c18.go", "serves_properties": ["C18"],
             "kind_free_text": "real AF_NETLINK experiments against the running kernel (echo, spoofing, concurrent senders)"},
            {"name": "reasm", "path": "/verif/harness/internal/reasm", "serves_properties": ["C01","C02","C03","C10","C19"],
             "kind_free_text": "history generator + recording Stream + trace oracles over the real Reassembler"},
        ],
        "checks": checks,
        "not_applicable": na,
        "notes": "Technique family: runtime monitoring and sanitizers. Exit codes: 0 held, 1 violated (VIOLATION line), 2 inconclusive (INCONCLUSIVE line, never a violation). Known findings: /verif/KNOWN_FINDINGS.txt.",
    }
    json.dump(m, open("/verif/MANIFEST.json","w"), indent=1)
    print("checks:", [c["property_id"] for c in checks], "not_applicable:", len(na))

main()
