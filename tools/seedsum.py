import sys,json
t=sys.stdin.read()
try:
    m=json.loads(t)
    print(m['name'], m['status'], 'suite', m.get('suite_passes_with_patch'), 'demoFail', m.get('demo_fails_with_patch'), 'demoPass', m.get('demo_passes_without_patch'), {k:(v['exit'],v['violations'],[s[:160] for s in v['first_sigs'][:1]]) for k,v in m.get('checks',{}).items()}, m.get('detail','')[-300:])
except Exception as e:
    print('ERR', e, t[-1500:])
