import sys,json
for l in sys.stdin:
    try: r=json.loads(l)
    except Exception: print(l.rstrip()); continue
    print(r['id'], r['status'], {k:(v['rc'],v['violations'],v['sigs'][:1]) for k,v in r.get('results',{}).items()}, r.get('detail','')[:300])
