#!/usr/bin/env python3
"""Confirm a sub-agent's seeded change and run the checks against it.

usage: tools/seed.py <PROP> [--from /tmp/wt-<PROP>/_seed] [--name <suffix>] [--checks C01,C02] [--tier quick]

Steps (all in a scratch worktree of /repo HEAD, removed afterwards):
  1. apply patch.diff; go build + go vet; the pinned suite must pass unedited
  2. the demonstration test must FAIL with the patch and PASS without it
  3. run the property's check (and any extra ones) against the patched tree (VERIF_REPO/VERIF_ROOT)
  4. keep it as /verif/seeded/<PROP>[-suffix]/{patch.diff, demo file, meta.json}
"""
import json, os, re, shutil, subprocess, sys, time

ENV = dict(os.environ, GOFLAGS="-mod=mod", GOPROXY="off", GOSUMDB="off", GOTOOLCHAIN="local")

def run(cmd, cwd=None, env=ENV, timeout=3600):
    r = subprocess.run(cmd, shell=isinstance(cmd, str), cwd=cwd, env=env, capture_output=True, text=True, errors="replace", timeout=timeout)
    return r.returncode, r.stdout + r.stderr

def suite(cwd):
    """Runs the pinned suite. The root package talks to the LIVE kernel audit subsystem, so concurrent
    suite runs (sub-agents, other probes) collide on the audit PID ('file exists'): serialise with a
    lock file and retry when the only failures are of that kind."""
    import fcntl
    out = ""
    for attempt in range(4):
        with open("/tmp/.libaudit-suite.lock", "w") as lk:
            fcntl.flock(lk, fcntl.LOCK_EX)
            r = subprocess.run("go test -vet=off -count=1 ./... 2>&1 | grep -v 'no test files'", shell=True, cwd=cwd, env=ENV, capture_output=True, text=True)
        out = r.stdout + r.stderr
        ok = "FAIL" not in out and "panic:" not in out and out.count("ok ") >= 5
        if ok:
            return True, out
        fails = [l for l in out.splitlines() if l.startswith("--- FAIL")]
        collide = "file exists" in out or "Did you stop auditd" in out
        if not (collide and all(("SetPID" in l or "ClientClose" in l or "PendingACKs" in l or "Multicast" in l) for l in fails)):
            return False, out
        time.sleep(1 + attempt)
    return False, out

def main():
    a = sys.argv[1:]
    prop = a[0]
    wtdir = f"/tmp/wt-{prop}"
    src = None
    name = prop
    checks = [prop]
    tier = "quick"
    i = 1
    while i < len(a):
        if a[i] == "--from": src = a[i+1]; i += 2
        elif a[i] == "--wt": wtdir = a[i+1]; i += 2
        elif a[i] == "--name": name = f"{prop}-{a[i+1]}"; i += 2
        elif a[i] == "--checks": checks = a[i+1].split(","); i += 2
        elif a[i] == "--tier": tier = a[i+1]; i += 2
        else: i += 1
    if src is None:
        src = os.path.join(wtdir, "_seed")
    patch = os.path.join(src, "patch.diff")
    demo_src = os.path.join(src, "verif_seed_demo_test.go")
    notes = open(os.path.join(src, "NOTES.md")).read() if os.path.exists(os.path.join(src, "NOTES.md")) else ""
    wt = f"/tmp/cf-{name}"
    run(f"git -C /repo worktree remove --force {wt}")
    shutil.rmtree(wt, ignore_errors=True)
    rc, out = run(f"git -C /repo worktree add -q --detach {wt} HEAD")
    meta = dict(property=prop, name=name, at=time.strftime("%Y-%m-%dT%H:%M:%S"), repo_head=run("git -C /repo rev-parse --short HEAD")[1].strip(),
                verif_commit=run("git -C /verif rev-parse --short HEAD")[1].strip())
    try:
        rc, out = run(f"git apply {patch}", cwd=wt)
        if rc != 0:
            meta["status"] = "patch-does-not-apply"; meta["detail"] = out[-500:]; return finish(meta, None, None, None, wt)
        rc, out = run("git diff --stat", cwd=wt); meta["files_changed"] = out.strip().splitlines()
        rc, out = run("go build ./... && go vet ./... && go build -tags verif ./...", cwd=wt)
        meta["builds"] = rc == 0
        if rc != 0:
            meta["status"] = "does-not-build"; meta["detail"] = out[-800:]; return finish(meta, patch, None, None, wt)
        suite_ok, out = suite(wt)
        meta["suite_passes_with_patch"] = suite_ok
        if not suite_ok:
            meta["status"] = "suite-fails"; meta["detail"] = out[-800:]; return finish(meta, patch, None, None, wt)
        # where does the demo go?
        demo_dst = None
        if os.path.exists(demo_src):
            pkg = re.search(r"^package\s+(\w+)", open(demo_src).read(), re.M).group(1)
            m = re.search(r"(?:intended path|path)[^\n`]*`([^`]*verif_seed_demo_test\.go)`", notes, re.I)
            cands = []
            if os.path.exists(os.path.join(src, "meta.json")):
                try: cands.append(json.load(open(os.path.join(src, "meta.json"))).get("demo_package_dir", "").replace(".", "", 1) if json.load(open(os.path.join(src, "meta.json"))).get("demo_package_dir") == "." else json.load(open(os.path.join(src, "meta.json"))).get("demo_package_dir", ""))
                except Exception: pass
            if m: cands.append(os.path.dirname(m.group(1).replace(wtdir + "/", "")))
            # the agent left the file in place in its own worktree
            rc2, found = run(f"find {wtdir} -name verif_seed_demo_test.go -not -path '*/_seed/*' 2>/dev/null")
            for f in found.split():
                cands.append(os.path.dirname(os.path.relpath(f, wtdir)))
            cands += {"libaudit": [""], "auparse": ["auparse"], "aucoalesce": ["aucoalesce"], "rule": ["rule"], "flags": ["rule/flags"], "rule_test": ["rule"], "libaudit_test": [""], "flags_test": ["rule/flags"], "auparse_test": ["auparse"], "aucoalesce_test": ["aucoalesce"]}.get(pkg, [])
            for cnd in cands:
                if os.path.isdir(os.path.join(wt, cnd)):
                    demo_dst = os.path.join(wt, cnd, "verif_seed_demo_test.go"); meta["demo_package_dir"] = cnd or "."; break
        if demo_dst:
            shutil.copy(demo_src, demo_dst)
            pkgdir = os.path.dirname(demo_dst)
            rc, out = run("go test -vet=off -count=1 -run '(?i)seed|demo' . 2>&1 | tail -25", cwd=pkgdir, timeout=600)
            meta["demo_fails_with_patch"] = ("FAIL" in out) or ("panic:" in out)
            meta["demo_output_with_patch"] = out[-700:]
            run(f"git apply -R {patch}", cwd=wt)
            rc, out = run("go test -vet=off -count=1 -run '(?i)seed|demo' . 2>&1 | tail -8", cwd=pkgdir, timeout=600)
            meta["demo_passes_without_patch"] = ("FAIL" not in out) and ("ok" in out)
            run(f"git apply {patch}", cwd=wt)
            os.remove(demo_dst)
        else:
            meta["demo_fails_with_patch"] = None
        # run the checks against the patched tree
        env = dict(ENV, VERIF_REPO=wt, VERIF_ROOT=f"{wt}/_vroot")
        meta["checks"] = {}
        for ck in checks:
            t0 = time.time()
            rc, out = run(["/verif/check", ck, tier], cwd="/verif", env=env, timeout=7200)
            viol = [l for l in out.splitlines() if l.startswith("VIOLATION")]
            sigs = [l.strip()[:300] for l in out.splitlines() if l.strip().startswith("sig=")]
            meta["checks"][ck] = dict(tier=tier, exit=rc, violations=len(viol), first_sigs=sigs[:4], wall_s=round(time.time()-t0, 1),
                                      tail=out[-400:] if rc not in (0, 1) else "")
        caught = [k for k, v in meta["checks"].items() if v["exit"] == 1 and v["violations"] > 0]
        meta["caught_by"] = caught
        ok = meta.get("demo_fails_with_patch") and meta.get("demo_passes_without_patch")
        meta["status"] = ("confirmed" if ok else "demo-unconfirmed") + ("+caught" if caught else "+MISSED")
        return finish(meta, patch, demo_src if os.path.exists(demo_src) else None, notes, wt)
    finally:
        run(f"git -C /repo worktree remove --force {wt}")
        shutil.rmtree(wt, ignore_errors=True)

def finish(meta, patch, demo, notes, wt):
    print(json.dumps(meta, indent=1)[:3000])
    if patch and meta.get("status", "").startswith(("confirmed", "demo-unconfirmed")):
        d = f"/verif/seeded/{meta['name']}"
        os.makedirs(d, exist_ok=True)
        def cp(a, b):
            if os.path.abspath(a) != os.path.abspath(b): shutil.copy(a, b)
        cp(patch, os.path.join(d, "patch.diff"))
        if demo: cp(demo, os.path.join(d, "verif_seed_demo_test.go"))
        if notes: open(os.path.join(d, "NOTES.md"), "w").write(notes)
        m = dict(meta)
        m["breaks_property"] = meta["property"]
        m["needs_to_manifest"] = first_para(notes, ("manifest", "trigger", "needed"))
        m["what_i_ran"] = ["git apply patch.diff in a scratch worktree of /repo HEAD", "go build ./... && go vet ./... && go build -tags verif ./...",
                           "go test -vet=off -count=1 ./...  (pinned suite, unedited)", "go test -run . in the demo's package with and without the patch",
                           "VERIF_REPO=<patched tree> ./check <ID> quick for: " + ",".join(meta.get("checks", {}).keys())]
        json.dump(m, open(os.path.join(d, "meta.json"), "w"), indent=1)
    return meta

def first_para(notes, words):
    if not notes: return ""
    paras = [p.strip() for p in notes.split("\n\n") if p.strip()]
    for p in paras:
        if any(w in p.lower() for w in words): return p[:900]
    return paras[0][:600] if paras else ""

main()
