#!/usr/bin/env python3
"""Builds the prompt for a seeding sub-agent: ONLY the property text, its own scratch worktree and
one-line summaries of the ideas earlier agents used for that property (so the next one picks another
clause or mechanism). Nothing from /verif's checks goes in.   usage: seedprompt.py <PROP> <worktree>"""
import json, sys
pid, d = sys.argv[1], sys.argv[2]
ideas = json.load(open("/verif/seeded/IDEAS.json")).get(pid, [])
p = next(json.loads(l) for l in open("/verif/properties.jsonl") if json.loads(l)["id"] == pid)
prop = f"{p['id']}: {p['title']}\n\nStatement: {p['statement']}\n\nQuantified over: {p['quantifier']['text']}\n\nRelevant files: {', '.join(p['anchors']['files'])}\n"
earlier = ""
if ideas:
    earlier = "Other engineers have already explored breaking this property in these ways:\n" + "".join(f"  - {i}\n" for i in ideas) + \
        "Do NOT repeat any of these ideas or a close variant: pick a DIFFERENT function, mechanism or part of the property statement (the statement has several clauses - prefer one the earlier changes did not touch; look also at less obvious code paths that the statement covers).\n\n"
print(f"""You are working in a scratch git worktree of the Go library elastic/go-libaudit at {d} (Go module github.com/elastic/go-libaudit/v2: Linux audit netlink client, audit log parser, auditctl-style rule encoder/decoder, event reassembler and coalescer). There is no network. Before any go command run: export GOFLAGS=-mod=mod GOPROXY=off GOSUMDB=off GOTOOLCHAIN=local . Work ONLY inside {d}; do not read or touch /verif or /repo or any other /tmp/wt* directory.

Here is a semantic property of this library that its users rely on:

{prop}
{earlier}Your task: make ONE small, realistic source change to the library (the kind of regression a refactoring, a 'simplification' or an 'optimisation' could plausibly introduce - not a comment, not test code, not the build-tag files verif_on.go / verif_off.go / rule/verif_export.go) that BREAKS this property while
 (1) everything still compiles: `go build ./... && go vet ./...`
 (2) the entire existing test suite still passes, unedited: `go test -vet=off -count=1 ./...`
The breakage must need something specific to manifest - a particular interleaving of goroutines, a fault or error at a particular point, a multi-step sequence of operations, an unusual input or boundary value, or two cooperating sites that each look fine alone - NOT something that ordinary use would expose at once. Do not modify or delete existing tests. Keep the change minimal (a few lines, at most two sites).

Deliver, inside {d}/_seed/ :
 - patch.diff : the output of `git diff` containing ONLY your library change (create it before adding any demo file),
 - a demonstration: a NEW Go test file named verif_seed_demo_test.go placed in the package directory it tests (also copy it to _seed/verif_seed_demo_test.go and state its intended path in NOTES.md). It must FAIL with your change applied and PASS on the original code. Verify both yourself (e.g. `git apply -R _seed/patch.diff` and re-apply). The demo may use only the standard library, the packages of this module and modules already used by it (testify is available). It must not need root privileges beyond what the existing tests use, must not talk to the live kernel audit subsystem, and must finish within a minute.
 - NOTES.md : what the change is, why the existing tests do not notice it, what exactly is needed for it to manifest, and the exact commands you ran with their results (suite green with the change, demo red with the change, demo green without it).
Leave the working tree with your change applied and the demo test file in place. When done, reply with a 5-line summary (files changed, how it manifests).

Note: the existing tests of the root package talk to the live kernel audit subsystem and can collide with other concurrent test runs on this machine ('file exists' / 'Did you stop auditd?' failures in TestAuditClientSetPID, TestAuditClientClose, TestAuditWaitForPendingACKs are such collisions, not caused by your change): simply re-run the suite when you see exactly those. SAFETY: never change the values of the exported constants LogOnFailure / PanicOnFailure, and never send NETLINK_ROUTE message types 16..255.""")
