"""Hand-written 'Kills' mutants (DESIGN.md §5/§7): each must compile, pass the pinned suite, and be caught by the quick tier."""
MUTANTS = {}
def M(mid, props, what, *edits):
    MUTANTS[mid] = dict(props=props, what=what, edits=list(edits))

R = "reassembler.go"
# ---- C01 ----
M("c01-no-delete", ["C01"], "remove() leaves the event in the table when more than 6 events are buffered (delivered again with later records)",
  (R, "		delete(l.events, seq)\n", "		if len(l.seqs) < 6 {\n			delete(l.events, seq)\n		}\n"))
M("c01-append-eoe", ["C01"], "EOE records are appended to the event",
  (R, "			e.complete = true\n		}\n		return\n", "			e.complete = true\n			e.msgs = append(e.msgs, msg)\n		}\n		return\n"))
M("c01-clear-skips-last", ["C01", "C19"], "Clear leaves the last buffered event behind when it flushed more than 5",
  (R, "		size := len(l.seqs)\n		if size == 0 {\n			break\n		}\n\n		// Get event.\n		seq = l.seqs[0]\n		event := l.events[seq]\n\n		lost += l.lostBefore(seq)\n		evicted = append(evicted, event)\n		l.remove()\n	}\n\n	return evicted, lost\n}\n\n// Put",
      "		size := len(l.seqs)\n		if size == 0 || (size == 1 && len(evicted) > 5) {\n			break\n		}\n\n		// Get event.\n		seq = l.seqs[0]\n		event := l.events[seq]\n\n		lost += l.lostBefore(seq)\n		evicted = append(evicted, event)\n		l.remove()\n	}\n\n	return evicted, lost\n}\n\n// Put"))
M("c01-remove-wrong-index", ["C01", "C02", "C10"], "remove() drops the second sequence from the list instead of the first when the list has more than 6 entries",
  (R, "		seq := l.seqs[0]\n		l.seqs = l.seqs[1:]\n		delete(l.events, seq)",
      "		seq := l.seqs[0]\n		if len(l.seqs) > 6 {\n			l.seqs[1] = l.seqs[0]\n		}\n		l.seqs = l.seqs[1:]\n		delete(l.events, seq)"))
# ---- C02 ----
M("c02-no-sort", ["C02"], "Put does not re-sort after inserting a new sequence",
  (R, "		l.seqs.Sort()\n", ""))
M("c02-no-rollover", ["C02"], "Less skips the roll-over branch when one of the numbers is 2^32-8",
  (R, "	if diff > maxSortRange {", "	if diff > maxSortRange && p[i] != 1<<32-8 && p[j] != 1<<32-8 {"))
M("c02-window-off-by-one", ["C02", "C03"], "roll-over window compared with >=",
  (R, "	if diff > maxSortRange {", "	if diff >= maxSortRange {"))
# ---- C03 ----
M("c03-no-minus-one", ["C03"], "a loss of exactly one event is not reported",
  (R, "	if lost > 0 {\n		verifYield(r, \"cb:beforeLost\")", "	if lost > 1 {\n		verifYield(r, \"cb:beforeLost\")"))
M("c03-clear-no-count", ["C03", "C19"], "Clear counts only the first gap it meets",
  (R, "		event := l.events[seq]\n\n		lost += l.lostBefore(seq)\n		evicted = append(evicted, event)\n		l.remove()\n	}\n\n	return evicted, lost\n}\n\n// Put",
      "		event := l.events[seq]\n\n		if n := l.lostBefore(seq); lost == 0 {\n			lost = n\n		}\n		evicted = append(evicted, event)\n		l.remove()\n	}\n\n	return evicted, lost\n}\n\n// Put"))
M("c03-late-rewinds", ["C03"], "a late event moves lastSeq backwards again",
  (R, "	if !(sequenceNumSlice{l.lastSeq, seq}).Less(0, 1) {\n		return 0\n	}", "	if !(sequenceNumSlice{l.lastSeq, seq}).Less(0, 1) {\n		l.lastSeq = seq\n		return 0\n	}"))
M("c03-zero-unset", ["C03"], "sequence 0 treated as 'unset' again",
  (R, "	if !l.hasLast {", "	if !l.hasLast || l.lastSeq == 0 {"))
# ---- C10 ----
M("c10-ge-max", ["C10"], "evicts when size >= maxSize",
  (R, "size > l.maxSize ||", "size >= l.maxSize && size > 0 ||"))
M("c10-mmap-completes", ["C10"], "MMAP (1323) treated as a completing record",
  (R, "	if msg.RecordType == auparse.AUDIT_PROCTITLE ||", "	if msg.RecordType == auparse.AUDIT_PROCTITLE || msg.RecordType == auparse.AUDIT_MMAP ||"))
M("c10-last-daemon-boundary", ["C10"], "type 1299 no longer completes",
  (R, "msg.RecordType <= auparse.AUDIT_LAST_DAEMON ||", "msg.RecordType < auparse.AUDIT_LAST_DAEMON ||"))
M("c10-no-cleanup-in-push", ["C10"], "PushMessage skips CleanUp for EOE records",
  (R, "	r.list.Put(msg)\n", "	r.list.Put(msg)\n	if msg.RecordType == auparse.AUDIT_EOE {\n		return\n	}\n"))
# ---- C19 ----
M("c19-double-timeout", ["C19"], "events expire only after twice the timeout",
  (R, "			expireTime: time.Now().Add(l.timeout),", "			expireTime: time.Now().Add(2 * l.timeout),"))
M("c19-expire-early", ["C19"], "events expire after half the timeout",
  (R, "			expireTime: time.Now().Add(l.timeout),", "			expireTime: time.Now().Add(l.timeout / 2),"))
M("c19-expiry-from-last-record", ["C19"], "expiry restarts with every record",
  (R, "	e.Add(msg)\n}", "	e.Add(msg)\n	e.expireTime = time.Now().Add(l.timeout)\n}"))
M("c19-maintain-ignores-closed", ["C19"], "Maintain does not check closed",
  (R, "	if atomic.LoadInt32(&r.closed) == 1 {\n		return errReassemblerClosed\n	}\n	verifYield(r, \"maintain", "	if atomic.LoadInt32(&r.closed) == 2 {\n		return errReassemblerClosed\n	}\n	verifYield(r, \"maintain"))
M("c19-timeout-only-when-full", ["C19"], "timeout ignored unless the buffer is full",
  (R, "|| event.IsExpired() {", "|| (size >= l.maxSize && event.IsExpired()) {"))
M("c19-nil-stream", ["C19"], "nil stream accepted",
  (R, "	if stream == nil {\n		return nil, errors.New(\"stream cannot be nil\")\n	}\n", "	_ = errors.New\n"))
# ---- C11 ----
M("c11-cleanup-no-lock", ["C11"], "CleanUp runs without the mutex",
  (R, "func (l *eventList) CleanUp() ([]*event, int) {\n	l.Lock()\n	defer l.Unlock()\n", "func (l *eventList) CleanUp() ([]*event, int) {\n"))
M("c11-callback-under-lock", ["C11"], "Maintain delivers callbacks while holding the list lock (re-entrant callbacks deadlock)",
  (R, "	evicted, lost := r.list.CleanUp()\n	verifYield(r, \"maintain:afterCleanUp\")\n	r.callback(evicted, lost)\n	return nil",
      "	evicted, lost := r.list.CleanUp()\n	verifYield(r, \"maintain:afterCleanUp\")\n	r.list.Lock()\n	r.callback(evicted, lost)\n	r.list.Unlock()\n	return nil"))
M("c11-close-no-cas", ["C11"], "Close uses load+store instead of CAS",
  (R, "	if atomic.CompareAndSwapInt32(&r.closed, 0, 1) {\n		verifYield(r, \"close:afterCAS\")", "	if atomic.LoadInt32(&r.closed) == 0 {\n		verifYield(r, \"close:afterCAS\")\n		atomic.StoreInt32(&r.closed, 1)"))
M("c11-evicted-still-attached", ["C11", "C01"], "CleanUp returns events that stay in the table until the next CleanUp (deferred delete)",
  (R, "			evicted = append(evicted, event)\n			l.remove()\n			continue", "			evicted = append(evicted, event)\n			l.seqs = l.seqs[1:]\n			if len(l.seqs) == 0 {\n				delete(l.events, seq)\n			}\n			continue"))
M("c11-unlocked-put-fastpath", ["C11"], "Put checks EOE before taking the lock and touches the map unlocked",
  (R, "func (l *eventList) Put(msg *auparse.AuditMessage) {\n	l.Lock()\n	defer l.Unlock()\n\n	seq := sequenceNum(msg.Sequence)\n	e, found := l.events[seq]\n",
      "func (l *eventList) Put(msg *auparse.AuditMessage) {\n	seq := sequenceNum(msg.Sequence)\n	e, found := l.events[seq]\n	l.Lock()\n	defer l.Unlock()\n"))
