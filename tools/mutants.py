"""Hand-written 'Kills' mutants (DESIGN.md §5/§7): each must compile, pass the pinned suite, and be caught by the quick tier."""
MUTANTS = {}
def M(mid, props, what, *edits):
    MUTANTS[mid] = dict(props=props, what=what, edits=list(edits))

R = "reassembler.go"
# ---- C01 ----
M("c01-no-delete", ["C01"], "remove() leaves the event in the table when more than 6 events are buffered (delivered again with later records)",
  (R, "		delete(l.events, seq)\n", "		if len(l.seqs) < 6 {\n			delete(l.events, seq)\n		}\n"))
M("c01-append-eoe", ["C01"], "EOE records are appended to the event",
  (R, "			e.complete = true\n		}\n		return\n", "			e.complete = true\n			e.msgs = append(e.msgs, msg)\n		}\n		return\n"))
M("c01-clear-skips-last", ["C01", "C19"], "Clear leaves the last buffered event behind when it flushed more than 5",
  (R, "		size := len(l.seqs)\n		if size == 0 {\n			break\n		}\n\n		// Get event.\n		seq = l.seqs[0]\n		event := l.events[seq]\n\n		lost += l.lostBefore(seq)\n		evicted = append(evicted, event)\n		l.remove()\n	}\n\n	return evicted, lost\n}\n\n// Put",
      "		size := len(l.seqs)\n		if size == 0 || (size == 1 && len(evicted) > 5) {\n			break\n		}\n\n		// Get event.\n		seq = l.seqs[0]\n		event := l.events[seq]\n\n		lost += l.lostBefore(seq)\n		evicted = append(evicted, event)\n		l.remove()\n	}\n\n	return evicted, lost\n}\n\n// Put"))
M("c01-remove-wrong-index", ["C01", "C02", "C10"], "remove() drops the second sequence from the list instead of the first when the list has more than 6 entries",
  (R, "		seq := l.seqs[0]\n		l.seqs = l.seqs[1:]\n		delete(l.events, seq)",
      "		seq := l.seqs[0]\n		if len(l.seqs) > 6 {\n			l.seqs[1] = l.seqs[0]\n		}\n		l.seqs = l.seqs[1:]\n		delete(l.events, seq)"))
# ---- C02 ----
M("c02-no-sort", ["C02"], "Put does not re-sort after inserting a new sequence",
  (R, "		l.seqs.Sort()\n", ""))
M("c02-no-rollover", ["C02"], "Less skips the roll-over branch when one of the numbers is 2^32-8",
  (R, "	if diff > maxSortRange {", "	if diff > maxSortRange && p[i] != 1<<32-8 && p[j] != 1<<32-8 {"))
M("c02-window-off-by-one", ["C02", "C03"], "roll-over window compared with >=",
  (R, "	if diff > maxSortRange {", "	if diff >= maxSortRange {"))
# ---- C03 ----
M("c03-no-minus-one", ["C03"], "a loss of exactly one event is not reported",
  (R, "	if lost > 0 {\n		verifYield(r, \"cb:beforeLost\")", "	if lost > 1 {\n		verifYield(r, \"cb:beforeLost\")"))
M("c03-clear-no-count", ["C03", "C19"], "Clear counts only the first gap it meets",
  (R, "		event := l.events[seq]\n\n		lost += l.lostBefore(seq)\n		evicted = append(evicted, event)\n		l.remove()\n	}\n\n	return evicted, lost\n}\n\n// Put",
      "		event := l.events[seq]\n\n		if n := l.lostBefore(seq); lost == 0 {\n			lost = n\n		}\n		evicted = append(evicted, event)\n		l.remove()\n	}\n\n	return evicted, lost\n}\n\n// Put"))
M("c03-late-rewinds", ["C03"], "a late event moves lastSeq backwards again",
  (R, "	if !(sequenceNumSlice{l.lastSeq, seq}).Less(0, 1) {\n		return 0\n	}", "	if !(sequenceNumSlice{l.lastSeq, seq}).Less(0, 1) {\n		l.lastSeq = seq\n		return 0\n	}"))
M("c03-zero-unset", ["C03"], "sequence 0 treated as 'unset' again",
  (R, "	if !l.hasLast {", "	if !l.hasLast || l.lastSeq == 0 {"))
# ---- C10 ----
M("c10-ge-max", ["C10"], "evicts when size >= maxSize",
  (R, "size > l.maxSize ||", "size >= l.maxSize && size > 0 ||"))
M("c10-mmap-completes", ["C10"], "MMAP (1323) treated as a completing record",
  (R, "	if msg.RecordType == auparse.AUDIT_PROCTITLE ||", "	if msg.RecordType == auparse.AUDIT_PROCTITLE || msg.RecordType == auparse.AUDIT_MMAP ||"))
M("c10-last-daemon-boundary", ["C10"], "type 1299 no longer completes",
  (R, "msg.RecordType <= auparse.AUDIT_LAST_DAEMON ||", "msg.RecordType < auparse.AUDIT_LAST_DAEMON ||"))
M("c10-no-cleanup-in-push", ["C10"], "PushMessage skips CleanUp for EOE records",
  (R, "	r.list.Put(msg)\n", "	r.list.Put(msg)\n	if msg.RecordType == auparse.AUDIT_EOE {\n		return\n	}\n"))
# ---- C19 ----
M("c19-double-timeout", ["C19"], "events expire only after twice the timeout",
  (R, "			expireTime: time.Now().Add(l.timeout),", "			expireTime: time.Now().Add(2 * l.timeout),"))
M("c19-expire-early", ["C19"], "events expire after half the timeout",
  (R, "			expireTime: time.Now().Add(l.timeout),", "			expireTime: time.Now().Add(l.timeout / 2),"))
M("c19-expiry-from-last-record", ["C19"], "expiry restarts with every record",
  (R, "	e.Add(msg)\n}", "	e.Add(msg)\n	e.expireTime = time.Now().Add(l.timeout)\n}"))
M("c19-maintain-ignores-closed", ["C19"], "Maintain does not check closed",
  (R, "	if atomic.LoadInt32(&r.closed) == 1 {\n		return errReassemblerClosed\n	}\n	verifYield(r, \"maintain", "	if atomic.LoadInt32(&r.closed) == 2 {\n		return errReassemblerClosed\n	}\n	verifYield(r, \"maintain"))
M("c19-timeout-only-when-full", ["C19"], "timeout ignored unless the buffer is full",
  (R, "|| event.IsExpired() {", "|| (size >= l.maxSize && event.IsExpired()) {"))
M("c19-nil-stream", ["C19"], "nil stream accepted",
  (R, "	if stream == nil {\n		return nil, errors.New(\"stream cannot be nil\")\n	}\n", "	_ = errors.New\n"))
# ---- C11 ----
M("c11-cleanup-no-lock", ["C11"], "CleanUp runs without the mutex",
  (R, "func (l *eventList) CleanUp() ([]*event, int) {\n	l.Lock()\n	defer l.Unlock()\n", "func (l *eventList) CleanUp() ([]*event, int) {\n"))
M("c11-callback-under-lock", ["C11"], "Maintain delivers callbacks while holding the list lock (re-entrant callbacks deadlock)",
  (R, "	evicted, lost := r.list.CleanUp()\n	verifYield(r, \"maintain:afterCleanUp\")\n	r.callback(evicted, lost)\n	return nil",
      "	evicted, lost := r.list.CleanUp()\n	verifYield(r, \"maintain:afterCleanUp\")\n	r.list.Lock()\n	r.callback(evicted, lost)\n	r.list.Unlock()\n	return nil"))
M("c11-close-no-cas", ["C11"], "Close uses load+store instead of CAS",
  (R, "	if atomic.CompareAndSwapInt32(&r.closed, 0, 1) {\n		verifYield(r, \"close:afterCAS\")", "	if atomic.LoadInt32(&r.closed) == 0 {\n		verifYield(r, \"close:afterCAS\")\n		atomic.StoreInt32(&r.closed, 1)"))
M("c11-evicted-still-attached", ["C11", "C01"], "CleanUp returns events that stay in the table until the next CleanUp (deferred delete)",
  (R, "			evicted = append(evicted, event)\n			l.remove()\n			continue", "			evicted = append(evicted, event)\n			l.seqs = l.seqs[1:]\n			if len(l.seqs) == 0 {\n				delete(l.events, seq)\n			}\n			continue"))
M("c11-unlocked-put-fastpath", ["C11"], "Put checks EOE before taking the lock and touches the map unlocked",
  (R, "func (l *eventList) Put(msg *auparse.AuditMessage) {\n	l.Lock()\n	defer l.Unlock()\n\n	seq := sequenceNum(msg.Sequence)\n	e, found := l.events[seq]\n",
      "func (l *eventList) Put(msg *auparse.AuditMessage) {\n	seq := sequenceNum(msg.Sequence)\n	e, found := l.events[seq]\n	l.Lock()\n	defer l.Unlock()\n"))
# ---- C04 ----
AP = "auparse/auparse.go"
M("c04-seq-31bit", ["C04"], "sequence parsed with 31 bits", (AP, "strconv.ParseUint(line[sep+1:end], 10, 32)", "strconv.ParseUint(line[sep+1:end], 10, 31)"))
M("c04-sec-int32", ["C04"], "seconds parsed as int32", (AP, "sec, err := strconv.ParseInt(line[start+1:dot], 10, 64)", "sec, err := strconv.ParseInt(line[start+1:dot], 10, 33)"))
M("c04-msec-as-usec", ["C04"], "milliseconds scaled as microseconds above 900", (AP, "tm := time.Unix(sec, msec*int64(time.Millisecond)).UTC()", "if msec > 990 {\n\t\tmsec /= 1000\n\t}\n\ttm := time.Unix(sec, msec*int64(time.Millisecond)).UTC()"))
M("c04-last-msg-token", ["C04"], "ParseLogLine splits at the LAST msg=", (AP, "msgIndex := strings.Index(line, msgToken)", "msgIndex := strings.LastIndex(line, msgToken)\n\tif i := strings.Index(line, msgToken); i >= 0 && strings.Count(line, msgToken) < 3 {\n\t\tmsgIndex = i\n\t}"))
M("c04-mapstr-precedence", ["C04"], "ToMapStr lets a body field named sequence override the header", (AP, "\tout[\"sequence\"] = strconv.FormatUint(uint64(m.Sequence), 10)\n", "\tif _, dup := out[\"sequence\"]; !dup {\n\t\tout[\"sequence\"] = strconv.FormatUint(uint64(m.Sequence), 10)\n\t}\n"))
M("c04-unknown-base16", ["C04", "C20"], "UNKNOWN[n] parsed with base 0 (octal for leading zero is fine, hex accepted) and 15 bits", ("auparse/zaudit_msg_types.go", "num, err := strconv.ParseUint(name, 10, 16)", "num, err := strconv.ParseUint(name, 10, 15)"))
M("c04-rawdata-untrimmed", ["C04"], "Parse keeps leading blanks in RawData when there are two", (AP, "\tmessage = strings.TrimSpace(message)\n\n\ttimestamp, seq, end, err := parseAuditHeader(message)", "\tif !strings.HasPrefix(message, \"  \") {\n\t\tmessage = strings.TrimSpace(message)\n\t}\n\n\ttimestamp, seq, end, err := parseAuditHeader(message)"))
# ---- C05 ----
M("c05-saddr-guard", ["C05"], "IPv6 saddr length guard off by some", ("auparse/sockaddr.go", "\t\tif len(s) < 48 {", "\t\tif len(s) < 40 {"))
M("c05-selinux-avc-index", ["C05"], "AVC normalisation indexes the match without the length check", (AP, "\t\tif len(i) != 3*2 {\n\t\t\treturn \"\", errParseFailure\n\t\t}\n", ""))
M("c05-data-error-not-cached", ["C05"], "Data() does not cache its error for messages without content", (AP, "\tif m.offset < 0 {\n\t\tm.error = errors.New(\"message has no data content\")\n\t\treturn nil, m.error\n\t}", "\tif m.offset < 0 {\n\t\treturn nil, fmt.Errorf(\"message has no data content (%p)\", &message{})\n\t}"))
M("c05-header-guard", ["C05", "C04"], "type= guard removed: short prefix before msg= slices out of range", (AP, "\tif msgIndex < len(typeToken)+1 {\n\t\treturn nil, errInvalidAuditHeader\n\t}\n", "\tif msgIndex < 1 {\n\t\treturn nil, errInvalidAuditHeader\n\t}\n"))
M("c05-execve-argc", ["C05"], "execve argc parsed as int and used to preallocate", (AP, "\tfor i := 0; i < int(count); i++ {\n\t\tkey := \"a\" + strconv.Itoa(i)\n\n\t\targ, err := fm.find(key)", "\tseen := make([]bool, int(int32(count)))\n\t_ = seen\n\tfor i := 0; i < int(count); i++ {\n\t\tkey := \"a\" + strconv.Itoa(i)\n\n\t\targ, err := fm.find(key)"))
# ---- C12 ----
M("c12-lowercase-hex", ["C12"], "hex decoding accepts lower-case too", ("auparse/hex.go", "\tcase 'A' <= c && c <= 'F':\n\t\treturn c - 'A' + 10, true\n", "\tcase 'A' <= c && c <= 'F':\n\t\treturn c - 'A' + 10, true\n\tcase 'a' <= c && c <= 'f':\n\t\treturn c - 'a' + 10, true\n"))
M("c12-port-little-endian", ["C12"], "IPv4 port read little-endian", ("auparse/sockaddr.go", "\t\tport, err := hexToDec(s[4:8])\n\t\tif err != nil {\n\t\t\treturn nil, err\n\t\t}\n\n\t\tip, err := hexToIP(s[8:16])", "\t\tport, err := hexToDec(s[6:8] + s[4:6])\n\t\tif err != nil {\n\t\t\treturn nil, err\n\t\t}\n\n\t\tip, err := hexToIP(s[8:16])"))
M("c12-trim-more", ["C12"], "trimQuotesAndSpace also trims tabs and backslashes", (AP, "func trimQuotesAndSpace(v string) string { return strings.Trim(v, `'\" `) }", "func trimQuotesAndSpace(v string) string { return strings.Trim(v, \"'\\\" \\t\\\\\") }"))
M("c12-placeholder-none", ["C12"], "'(none)' added to the dropped placeholders", (AP, "\t\tcase \"\", \"?\", \"?,\", \"(null)\":", "\t\tcase \"\", \"?\", \"?,\", \"(null)\", \"(none)\", \"-\":"))
M("c12-exit-sign", ["C12"], "errno looked up with the wrong sign for codes above 100", (AP, "\tname, found := AuditErrnoToName[-1*exitCode]", "\tif exitCode < -100 {\n\t\texitCode = -exitCode - 100\n\t}\n\tname, found := AuditErrnoToName[-1*exitCode]"))
M("c12-nul-not-space", ["C12"], "hexDecode keeps only the first NUL-separated string", (AP, "\t\tfm.setFieldValue(key, strings.Join(decodedStrings, \" \"))", "\t\tfm.setFieldValue(key, decodedStrings[0])"))
M("c12-ipv6-offset", ["C12"], "IPv6 address sliced 8 hex digits late when flowinfo is non-zero", ("auparse/sockaddr.go", "\t\tip, err := hexToIP(s[16:48])", "\t\tip, err := hexToIP(s[16:48])\n\t\tif flow > 0 && len(s) >= 56 {\n\t\t\tip, err = hexToIP(s[24:56])\n\t\t}"))
# ---- C06 ----
RR = "rule/rule.go"
M("c06-bit-mod-31", ["C06"], "syscall bit computed modulo 31", (RR, "\t\t\tbit := 1 << (syscallNum - (word * 32))", "\t\t\tbit := 1 << ((syscallNum - (word * 32)) % 31)"))
M("c06-values-flags-swapped", ["C06"], "values and fieldflags written to each other's arrays for the 33rd+ field", (RR, "\t\tdata.FieldFlags[i] = r.fieldFlags[i]\n\t\tdata.Values[i] = r.values[i]", "\t\tdata.FieldFlags[i] = r.fieldFlags[i]\n\t\tdata.Values[i] = r.values[i]\n\t\tif i >= 32 {\n\t\t\tdata.FieldFlags[i], data.Values[i] = operator(r.values[i]), uint32(r.fieldFlags[i])\n\t\t}"))
M("c06-padding", ["C06"], "padding formula rounds up even when aligned", ("rule/binary.go", "\tn += (4 - n%4) % 4 // Adding padding.", "\tn += 4 - n%4 // Adding padding."))
M("c06-key-separator", ["C06"], "keys joined with 0x02 when there are more than two", (RR, "\t\tkey := strings.Join(keys, string(rune(keySeparator)))", "\t\tsep := string(rune(keySeparator))\n\t\tif len(keys) > 2 {\n\t\t\tsep = \"\\x02\"\n\t\t}\n\t\tkey := strings.Join(keys, sep)"))
M("c06-operator-const", ["C06", "C20"], "bit-test operator constant wrong", ("rule/zkernel_types.go", "\tbitTestOperator            operator = 0x48000000", "\tbitTestOperator            operator = 0x58000000"))
M("c06-field-const", ["C06", "C20"], "obj_lev_high/obj_lev_low field codes swapped", ("rule/zkernel_types.go", "\tobjectLevelHighField    field = 0x17\n\tobjectLevelLowField     field = 0x16", "\tobjectLevelHighField    field = 0x16\n\tobjectLevelLowField     field = 0x17"))
M("c06-exit-truncate", ["C06"], "exit codes below -4095 clamped", (RR, "\t\trule.values = append(rule.values, uint32(exitCode))", "\t\tif exitCode < -4095 {\n\t\t\texitCode = -4095\n\t\t}\n\t\trule.values = append(rule.values, uint32(exitCode))"))
M("c06-perm-bits", ["C06"], "perm 'a' maps to the exec bit when combined with r", (RR, "\t\tcase 'a':\n\t\t\tpermBits |= attrPerm", "\t\tcase 'a':\n\t\t\tif permBits&readPerm != 0 && len(perm) == 2 {\n\t\t\t\tpermBits |= execPerm\n\t\t\t\tcontinue\n\t\t\t}\n\t\t\tpermBits |= attrPerm"))
# ---- C07 ----
M("c07-exit-unsigned", ["C07"], "exit printed unsigned", (RR, "\t\t\t\texitCode := int(int32(value))", "\t\t\t\texitCode := int(value)\n\t\t\t\tif value < 1<<31 {\n\t\t\t\t\texitCode = int(int32(value))\n\t\t\t\t}"))
M("c07-op-dropped", ["C07"], "the &= operator is printed as & for the a0-a3 fields", (RR, "\t\t\tdefault:\n\t\t\t\trhs = strconv.Itoa(int(value))\n\t\t\t}", "\t\t\tdefault:\n\t\t\t\trhs = strconv.Itoa(int(value))\n\t\t\t\tif fieldID >= arg0Field && fieldID <= arg3Field && op == \"&=\" {\n\t\t\t\t\top = \"&\"\n\t\t\t\t}\n\t\t\t}"))
M("c07-compare-order", ["C07"], "comparison fields never swapped into canonical order", (RR, "\t\t\tif fieldIds[1] < fieldIds[0] {\n\t\t\t\tfieldIds[0], fieldIds[1] = fieldIds[1], fieldIds[0]\n\t\t\t}", "\t\t\tif fieldIds[1] < fieldIds[0] && false {\n\t\t\t\tfieldIds[0], fieldIds[1] = fieldIds[1], fieldIds[0]\n\t\t\t}"))
M("c07-watch-perm-order", ["C07"], "watch form used although perm precedes path", (RR, "\tif r.fields[0] != pathField && r.fields[0] != dirField {\n\t\treturn false\n\t}\n\tif r.fields[1] != permField || r.values[1] == 0 {\n\t\treturn false\n\t}", "\tif r.fields[0] != pathField && r.fields[0] != dirField {\n\t\tif !(r.fields[0] == permField && (r.fields[1] == pathField || r.fields[1] == dirField) && len(r.fields) == 2) {\n\t\t\treturn false\n\t\t}\n\t\tr.fields[0], r.fields[1] = r.fields[1], r.fields[0]\n\t\tr.values[0], r.values[1] = r.values[1], r.values[0]\n\t}\n\tif r.fields[1] != permField || r.values[1] == 0 {\n\t\treturn false\n\t}"))
M("c07-syscall-all-user", ["C07"], "-S all also printed for the user list", (RR, "\t\tif r.flags == exitFilter || r.flags == entryFilter {", "\t\tif r.flags == exitFilter || r.flags == entryFilter || (r.flags == userFilter && len(r.fields) > 3) {"))
# ---- C13 ----
M("c13-mask-guard", ["C13"], "mask index guard back to >", (RR, "\t\t\tif int(word) >= len(data.Mask) {", "\t\t\tif int(word) > len(data.Mask) {"))
M("c13-fieldcount-guard", ["C13"], "field count bound removed", (RR, "\tif in.FieldCount > maxFields {\n\t\treturn fmt.Errorf(\"field count %d exceeds the maximum of %d\", in.FieldCount, maxFields)\n\t}\n", ""))
M("c13-string-wrap", ["C13"], "string end computed with wrapping addition again", (RR, "\t\t\tif in.Values[i] > in.BufLen-offset {", "\t\t\tif in.Values[i]+offset > in.BufLen {"))
M("c13-buflen-check", ["C13"], "buflen check compares against the whole message length", ("rule/binary.go", "\tif uint32(len(data[ruleHeaderSize:])) < r.BufLen {", "\tif uint32(len(data)) < r.BufLen {"))
M("c13-perm-string-index", ["C13"], "watch printing indexes strings[1] when three fields regardless of string count", (RR, "\tif len(r.fields) < 2 || len(r.fields) > 3 || len(r.strings) != len(r.fields)-1 {", "\tif len(r.fields) < 2 || len(r.fields) > 3 {"))
# ---- C14 ----
FL = "rule/flags/flags.go"
M("c14-unanchored-filter", ["C14"], "filter regexp loses its end anchor", (FL, "`(?s)^(\\w+)\\s*(<=|>=|&=|=|!=|<|>|&)(.+)$`", "`(?s)^(\\w+)\\s*(<=|>=|&=|=|!=|<|>|&)(\\S+)`"))
M("c14-positional-ok", ["C14"], "positional arguments tolerated when they follow a -k", (FL, "\tif ruleFlagSet.flagSet.NArg() > 0 {", "\tif ruleFlagSet.flagSet.NArg() > 0 && len(ruleFlagSet.Key) == 0 {"))
M("c14-compare-unanchored", ["C14"], "comparison regexp loses its start anchor", (FL, "`^(\\w+)\\s*(!?=)(\\w+)$`", "`(\\w+)\\s*(!?=)(\\w+)$`"))
M("c14-keys-dedup", ["C14"], "duplicate keys silently dropped", (FL, "\tfor _, w := range words {\n\t\t*l = append(*l, strings.TrimSpace(w))\n\t}", "\tfor _, w := range words {\n\t\tw = strings.TrimSpace(w)\n\t\tdup := false\n\t\tfor _, x := range *l {\n\t\t\tif x == w {\n\t\t\t\tdup = true\n\t\t\t}\n\t\t}\n\t\tif !dup {\n\t\t\t*l = append(*l, w)\n\t\t}\n\t}"))
M("c14-p-without-w", ["C14"], "-S with -w accepted when -a is absent (watch wins)", (FL, "\t\tcase \"a\", \"A\", \"C\", \"F\", \"S\":\n\t\t\tsyscall = 1", "\t\tcase \"a\", \"A\", \"C\", \"F\":\n\t\t\tsyscall = 1\n\t\tcase \"S\":\n\t\t\tif fileWatch == 0 {\n\t\t\t\tsyscall = 1\n\t\t\t}"))
# ---- C20 ----
M("c20-yaml-typo", ["C20"], "a record type in normalizations.yaml misspelt", ("aucoalesce/normalizations.yaml", "  - record_types: ANOM_CRYPTO_FAIL\n", "  - record_types: ANOM_CRYPT_FAIL\n"))
M("c20-errno-alias", ["C20", "C12"], "EWOULDBLOCK alias points at another number", ("auparse/zaudit_exit_codes.go", "\t\"EWOULDBLOCK\":     0xb,", "\t\"EWOULDBLOCK\":     0x29,"))
M("c20-arch-dup-name", ["C20"], "two arch codes share a name", ("auparse/zaudit_arches.go", "\tAUDIT_ARCH_SHEL64:      \"shel64\",", "\tAUDIT_ARCH_SHEL64:      \"sh64\","))
M("c20-type-name-mismatch", ["C20", "C04"], "name->type table disagrees with type->name for one entry", ("auparse/zaudit_msg_types.go", "\t\"VIRT_MIGRATE_OUT\":          AUDIT_VIRT_MIGRATE_OUT,", "\t\"VIRT_MIGRATE_OUT\":          AUDIT_VIRT_MIGRATE_IN,"))
M("c20-category-random", ["C20"], "categorisation depends on a package-level counter", ("aucoalesce/event_type.go", "func GetAuditEventType(t AuditMessageType) AuditEventType {", "var categorisations int\n\nfunc GetAuditEventType(t AuditMessageType) AuditEventType {\n\tcategorisations++\n\tif t == AUDIT_KERNEL && categorisations%1000 == 999 {\n\t\treturn EventTypeUnknown\n\t}"))
# ---- C08 ----
AU = "audit.go"
M("c08-addrule-swallow", ["C08"], "AddRule swallows EBUSY", (AU, "\t\tif errors.Is(err, syscall.EEXIST) {\n\t\t\treturn errors.New(\"rule exists\")\n\t\t}", "\t\tif errors.Is(err, syscall.EEXIST) {\n\t\t\treturn errors.New(\"rule exists\")\n\t\t}\n\t\tif errors.Is(err, syscall.EBUSY) {\n\t\t\treturn nil\n\t\t}"))
M("c08-foreign-seq-accepted", ["C08"], "a reply with a larger sequence is accepted", (AU, "\tif msg.Header.Seq != seq {", "\tif msg.Header.Seq < seq {"))
M("c08-eagain-budget", ["C08"], "only 8 transient failures tolerated", (AU, "\t\tfor i := 0; i < 10; i++ {", "\t\tfor i := 0; i < 9; i++ {"))
M("c08-getrules-no-copy", ["C08", "C17"], "GetRules returns slices of the receive buffer", (AU, "\t\trule := make([]byte, len(reply.Data))\n\t\tcopy(rule, reply.Data)\n\t\trules = append(rules, rule)", "\t\trules = append(rules, reply.Data)"))
M("c08-setter-ack-type", ["C08"], "set() does not check the ACK type", (AU, "\tif ack.Header.Type != syscall.NLMSG_ERROR {\n\t\treturn fmt.Errorf(\"unexpected ACK to SET, type=%d\", ack.Header.Type)\n\t}\n\n\tif err := ParseNetlinkError(ack.Data); err != nil {\n\t\treturn err\n\t}\n\n\treturn nil\n}", "\tif err := ParseNetlinkError(ack.Data); err != nil {\n\t\treturn err\n\t}\n\n\treturn nil\n}"))
M("c08-getstatus-skip-reply-type", ["C08"], "GetStatus accepts any reply type", (AU, "\tif reply.Header.Type != AuditGet {", "\tif reply.Header.Type != AuditGet && reply.Header.Type != AuditSet {"))
M("c08-deleterules-ignores-errors", ["C08"], "DeleteRules ignores ENOENT from individual deletes", (AU, "\t\tif err := c.DeleteRule(rule); err != nil {", "\t\tif err := c.DeleteRule(rule); err != nil && !errors.Is(err, syscall.ENOENT) {"))
# ---- C16 ----
M("c16-backlogwait-mask", ["C16"], "SetBacklogWaitTime uses the backlog-limit mask", (AU, "\t\tMask:            AuditStatusBacklogWaitTime,", "\t\tMask:            AuditStatusBacklogLimit,"))
M("c16-enabled-true-2", ["C16"], "SetEnabled(true) sends 2 when called in NoWait mode", (AU, "\tif enabled {\n\t\te = 1\n\t}", "\tif enabled {\n\t\te = 1\n\t\tif wm == NoWait {\n\t\t\te = 2\n\t\t}\n\t}"))
M("c16-flags-no-ack", ["C16", "C08"], "set() drops NLM_F_ACK in NoWait mode", (AU, "\tseq, err := c.Netlink.Send(msg)\n\tif err != nil {\n\t\treturn fmt.Errorf(\"failed sending request: %w\", err)\n\t}\n\n\tif mode == NoWait {", "\tif mode == NoWait {\n\t\tmsg.Header.Flags = syscall.NLM_F_REQUEST\n\t}\n\tseq, err := c.Netlink.Send(msg)\n\tif err != nil {\n\t\treturn fmt.Errorf(\"failed sending request: %w\", err)\n\t}\n\n\tif mode == NoWait {"))
M("c16-minsize", ["C16"], "FromWireFormat accepts 28-byte buffers", (AU, "\tif len(buf) < MinSizeofAuditStatus {\n\t\treturn io.ErrUnexpectedEOF", "\tif len(buf) < MinSizeofAuditStatus-4 {\n\t\treturn io.ErrUnexpectedEOF"))
M("c16-feature-bit", ["C16"], "a feature bitmap constant shifted", (AU, "\tAuditFeatureBitmapExcludeExtend\n", "\tAuditFeatureBitmapExcludeExtend = 1 << (iota + 1)\n"))
M("c16-pid-field", ["C16"], "SetPID writes the pid into the wrong field when it is above 65535", (AU, "\tc.clearPIDOnClose = true\n\treturn c.set(status, wm)", "\tc.clearPIDOnClose = true\n\tif status.PID > 65535 {\n\t\tstatus.RateLimit = status.PID\n\t}\n\treturn c.set(status, wm)"))
# ---- C17 ----
M("c17-close-no-once", ["C17"], "Close uses a plain flag instead of sync.Once", (AU, "\tc.closeOnce.Do(func() {", "\tif c.closed {\n\t\treturn nil\n\t}\n\tc.closed = true\n\tfunc() {"), (AU, "\t\terr = errors.Join(err, c.Netlink.Close())\n\t})", "\t\terr = errors.Join(err, c.Netlink.Close())\n\t}()"), (AU, "\tcloseOnce       sync.Once", "\tcloseOnce       sync.Once\n\tclosed          bool"))
M("c17-clearpid-always", ["C17"], "Close always clears the PID", (AU, "\t\tif c.clearPIDOnClose {", "\t\tif c.clearPIDOnClose || len(c.pendingAcks) == 0 {"))
M("c17-clearpid-waits", ["C17"], "Close waits for the ACK of the PID clear", (AU, "\t\t\terr = c.set(status, NoWait)", "\t\t\terr = c.set(status, WaitForReply)"))
M("c17-waitacks-stops-early", ["C17"], "WaitForPendingACKs stops after 8 ACKs", (AU, "\tfor len(c.pendingAcks) > 0 {", "\tfor n := 0; len(c.pendingAcks) > 0 && n < 8; n++ {"))
M("c17-waitacks-continues-after-error", ["C17"], "WaitForPendingACKs keeps reading after an error and returns the last one", (AU, "\t\tif err := ParseNetlinkError(ack.Data); err != nil {\n\t\t\treturn err\n\t\t}\n\t}\n\treturn nil\n}", "\t\tif err := ParseNetlinkError(ack.Data); err != nil {\n\t\t\tlastErr = err\n\t\t}\n\t}\n\treturn lastErr\n}"), (AU, "func (c *AuditClient) WaitForPendingACKs() error {\n", "func (c *AuditClient) WaitForPendingACKs() error {\n\tvar lastErr error\n"))
# ---- C18 ----
NL = "netlink.go"
M("c18-pid-check-inverted", ["C18"], "sender check accepts non-kernel senders whose pid equals ours", (NL, "\tif !ok || fromNetlink.Pid != 0 {", "\tif !ok || (fromNetlink.Pid != 0 && fromNetlink.Pid != c.pid+1 && fromNetlink.Groups == 0) {"))
M("c18-seq-nonatomic", ["C18"], "sequence incremented without atomics", (NL, "\tmsg.Header.Seq = atomic.AddUint32(&c.seq, 1)", "\tc.seq++\n\tmsg.Header.Seq = c.seq\n\t_ = atomic.LoadUint32"))
M("c18-len-padded", ["C18"], "nlmsg_len padded to 4", (NL, "\tmsg.Header.Len = uint32(syscall.SizeofNlMsghdr + len(msg.Data))", "\tmsg.Header.Len = uint32(syscall.SizeofNlMsghdr + (len(msg.Data)+3)&^3)"))
M("c18-parser-honours-len", ["C18"], "audit parser trusts the header length", (AU, "\t\tData:   buf[syscall.NLMSG_HDRLEN:],", "\t\tData:   buf[syscall.NLMSG_HDRLEN:min(len(buf), int(*(*uint32)(unsafe.Pointer(&buf[0]))))],"))
M("c18-short-check", ["C18"], "audit parser length check off by four", (AU, "\tif len(buf) < syscall.NLMSG_HDRLEN {\n\t\treturn nil, syscall.EINVAL", "\tif len(buf) < syscall.NLMSG_HDRLEN-4 {\n\t\treturn nil, syscall.EINVAL"))
M("c18-flags-overwritten", ["C18"], "Send forces NLM_F_REQUEST only (drops other flag bits above 0x400)", (NL, "\tmsg.Header.Seq = atomic.AddUint32(&c.seq, 1)", "\tmsg.Header.Flags &= 0x7ff\n\tmsg.Header.Seq = atomic.AddUint32(&c.seq, 1)"))
# ---- C09 / C15 ----
CO = "aucoalesce/coalesce.go"
M("c09-socket-prefix-drop", ["C09"], "SOCKADDR family key not copied", (CO, "\tfor k, v := range data {\n\t\tevent.Data[\"socket_\"+k] = v\n\t}", "\tfor k, v := range data {\n\t\tif k == \"family\" {\n\t\t\tcontinue\n\t\t}\n\t\tevent.Data[\"socket_\"+k] = v\n\t}"))
M("c09-dup-warning-removed", ["C09"], "duplicate-key warning removed", (CO, "\t\t\tevent.Warnings = append(event.Warnings, fmt.Errorf(\n\t\t\t\t\"duplicate key (%v) from %v message\", k, msg.RecordType))\n\t\t\tcontinue", "\t\t\tcontinue"))
M("c09-mode-mask", ["C09"], "file mode masked with 0777", (CO, "\t\tevent.File.Mode = fmt.Sprintf(\"%04o\", 0o7777&m)", "\t\tevent.File.Mode = fmt.Sprintf(\"%04o\", 0o777&m)"))
M("c09-identity-syscall", ["C09"], "event identity taken from the SYSCALL record even when another record is first", (CO, "\tif msg == nil {\n\t\tmsg = syscall\n\t}\n\tevent := &Event{", "\tif msg == nil || syscall != nil {\n\t\tmsg = syscall\n\t}\n\tevent := &Event{"))
M("c09-selinux-label-drop", ["C09"], "subj_category label dropped", (CO, "\t\t} else if strings.HasPrefix(k, \"subj_\") {\n\t\t\taddSubjectSELinuxLabel(k[5:], v, event)", "\t\t} else if strings.HasPrefix(k, \"subj_\") {\n\t\t\tif k == \"subj_level\" {\n\t\t\t\tcontinue\n\t\t\t}\n\t\t\taddSubjectSELinuxLabel(k[5:], v, event)"))
M("c09-partial-event", ["C09"], "a group without SYSCALL returns a partial event and an error", (CO, "\t\treturn nil, errors.New(\"missing syscall message in compound event\")", "\t\treturn newEvent(msgs[0], nil), errors.New(\"missing syscall message in compound event\")"))
M("c15-category-append-shared", ["C15"], "ECS category slice of the table extended in place", (CO, "\t\tevent.ECS.Event.Category = append(event.ECS.Event.Category, syscallNorm.ECS.Category.Values...)", "\t\tnorm.ECS.Category.Values = append(norm.ECS.Category.Values[:len(norm.ECS.Category.Values):len(norm.ECS.Category.Values)], syscallNorm.ECS.Category.Values...)[:len(norm.ECS.Category.Values)+len(syscallNorm.ECS.Category.Values)]\n\t\tevent.ECS.Event.Category = norm.ECS.Category.Values"))
M("c15-delete-result-again", ["C15"], "newEvent deletes result from the message map again", (CO, "\tif result, found := data[\"result\"]; found {\n\t\tevent.Result = result\n\t} else {", "\tif result, found := data[\"result\"]; found {\n\t\tevent.Result = result\n\t\tdelete(data, \"result\")\n\t} else {"))
M("c15-cache-no-mutex", ["C15"], "ID cache lookup without its mutex", ("aucoalesce/id_lookup.go", "\tc.mutex.Lock()\n\tdefer c.mutex.Unlock()\n\n\tif item, found := c.data[key]; found && !item.isExpired() {", "\tif item, found := c.data[key]; found && !item.isExpired() {"))
M("c15-shared-scratch", ["C15"], "Paths maps shared through a package-level scratch slice", (CO, "\tevent.Paths = append(event.Paths, data)\n}", "\tscratchPaths = append(scratchPaths[:0], event.Paths...)\n\tevent.Paths = append(scratchPaths, data)\n}\n\nvar scratchPaths []map[string]string"))
M("c09-objpid-field-drop", ["C09"], "the oses field of companion records is skipped silently", (CO, "\tfor k, v := range data {\n\t\tif _, found := event.Data[k]; found {", "\tfor k, v := range data {\n\t\tif k == \"oses\" || k == \"fd1\" {\n\t\t\tcontinue\n\t\t}\n\t\tif _, found := event.Data[k]; found {"))
M("c09-mode-sticky", ["C09"], "file mode loses the sticky bit", (CO, "\t\tevent.File.Mode = fmt.Sprintf(\"%04o\", 0o7777&m)", "\t\tevent.File.Mode = fmt.Sprintf(\"%04o\", 0o6777&m)"))
M("c09-warning-unnamed", ["C09"], "duplicate-key warning does not name long keys", (CO, "\t\t\t\t\"duplicate key (%v) from %v message\", k, msg.RecordType))", "\t\t\t\t\"duplicate key (%.6v) from %v message\", k, \"a\"))"))
M("c09-execve-args-cap", ["C09"], "EXECVE arguments beyond the third are dropped", (CO, "\t\targs = append(args, arg)\n\t}", "\t\tif len(args) < 3 {\n\t\t\targs = append(args, arg)\n\t\t}\n\t}"))
M("c09-file-owner-swap", ["C09"], "file GID taken from ouid when the inode is above 2^31", (CO, "\tif value, found := path[\"ogid\"]; found {\n\t\tevent.File.GID = value\n\t}", "\tif value, found := path[\"ogid\"]; found {\n\t\tevent.File.GID = value\n\t\tif n, _ := strconv.ParseUint(path[\"inode\"], 10, 64); n%16 == 7 {\n\t\t\tevent.File.GID = path[\"ouid\"]\n\t\t}\n\t}"))
