#!/usr/bin/env python3
"""Mutation probe runner (DESIGN.md §7).

usage: tools/mutate.py [-k] [-n] [-t tier] <mutant-id>... | caught | all   |  tools/mutate.py --list
       (-n: do not re-run the pinned suite; 'caught': every mutant last logged as caught = regression)

For each mutant: copy /repo to /tmp/mut-<id>/repo, apply the textual edit, make
sure it still builds and passes the pinned suite (a mutant that fails the suite
is not a realistic change), run the listed properties' quick checks against the
copy (VERIF_REPO / VERIF_ROOT), report caught/missed, remove the copy.
Results are appended to MUTATION_LOG.jsonl.
"""
import json, os, shutil, subprocess, sys, time
sys.path.insert(0, os.path.dirname(__file__))
from mutants import MUTANTS

ENV = dict(os.environ, GOFLAGS="-mod=mod", GOPROXY="off", GOSUMDB="off", GOTOOLCHAIN="local")

def run(cmd, **kw):
    return subprocess.run(cmd, shell=isinstance(cmd, str), capture_output=True, text=True, env=kw.pop("env", ENV), **kw)

def suite(cwd):
    """Runs the pinned suite. The root package talks to the LIVE kernel audit subsystem, so concurrent
    suite runs (sub-agents, other probes) collide on the audit PID ('file exists'): serialise with a
    lock file and retry when the only failures are of that kind."""
    import fcntl
    out = ""
    for attempt in range(4):
        with open("/tmp/.libaudit-suite.lock", "w") as lk:
            fcntl.flock(lk, fcntl.LOCK_EX)
            r = subprocess.run("go test -vet=off -count=1 ./... 2>&1 | grep -v 'no test files'", shell=True, cwd=cwd, env=ENV, capture_output=True, text=True)
        out = r.stdout + r.stderr
        ok = "FAIL" not in out and "panic:" not in out and out.count("ok ") >= 5
        if ok:
            return True, out
        fails = [l for l in out.splitlines() if l.startswith("--- FAIL")]
        collide = "file exists" in out or "Did you stop auditd" in out
        if not (collide and all(("SetPID" in l or "ClientClose" in l or "PendingACKs" in l or "Multicast" in l) for l in fails)):
            return False, out
        time.sleep(1 + attempt)
    return False, out

def probe(mid, tier="quick", keep=False, nosuite=False):
    m = MUTANTS[mid]
    root = f"/tmp/mut-{mid}"
    shutil.rmtree(root, ignore_errors=True)
    os.makedirs(root)
    repo = f"{root}/repo"
    run(f"rsync -a --exclude .git /repo/ {repo}/")
    for (path, old, new) in m["edits"]:
        p = os.path.join(repo, path)
        s = open(p).read()
        if s.count(old) != 1:
            shutil.rmtree(root, ignore_errors=True)
            return dict(id=mid, status="edit-failed", detail=f"{path}: pattern occurs {s.count(old)} times")
        open(p, "w").write(s.replace(old, new))
    b = run("go build ./... && go build -tags verif ./...", cwd=repo)
    if b.returncode != 0:
        suite_ok, sout = False, (b.stdout + b.stderr)
    elif nosuite:
        suite_ok, sout = True, "(suite not re-run: regression of a mutant that passed it before)"
    else:
        suite_ok, sout = suite(repo)
    class R: pass
    r = R(); r.stdout, r.stderr = sout, ""
    res = dict(id=mid, props=m["props"], suite_passes=suite_ok, what=m.get("what", ""), results={})
    if not suite_ok:
        res["status"] = "suite-fails"
        res["detail"] = (r.stdout + r.stderr)[-600:]
    else:
        env = dict(ENV, VERIF_REPO=repo, VERIF_ROOT=f"{root}/vroot")
        caught_any = False
        for prop in m["props"]:
            t0 = time.time()
            rr = run(["/verif/check", prop, tier], env=env, cwd="/verif")
            viol = [l for l in rr.stdout.splitlines() if l.startswith("VIOLATION")]
            sigs = [l.strip()[:160] for l in rr.stdout.splitlines() if l.strip().startswith("sig=")]
            res["results"][prop] = dict(rc=rr.returncode, violations=len(viol), sigs=sigs[:3], wall=round(time.time() - t0, 1),
                                        tail=rr.stdout[-300:] if rr.returncode not in (0, 1) else "")
            caught_any |= rr.returncode == 1 and len(viol) > 0
        res["status"] = "caught" if caught_any else "MISSED"
    if not keep:
        shutil.rmtree(root, ignore_errors=True)
    return res

def main():
    args = sys.argv[1:]
    if args and args[0] == "--list":
        for k, m in MUTANTS.items():
            print(k, m["props"], m.get("what", ""))
        return
    keep = False
    nosuite = False
    tier = "quick"
    while args and args[0].startswith("-"):
        if args[0] == "-k": keep = True; args = args[1:]
        elif args[0] == "-n": nosuite = True; args = args[1:]
        elif args[0] == "-t": tier = args[1]; args = args[2:]
        else: break
    if args == ["caught"]:
        # regression: every mutant whose latest logged status is "caught"
        last = {}
        for l in open("/verif/MUTATION_LOG.jsonl"):
            try: d = json.loads(l); last[d["id"]] = d.get("status")
            except Exception: pass
        args = [k for k in MUTANTS if last.get(k) == "caught"]
    elif args == ["all"]:
        args = list(MUTANTS)
    else:
        exp = []
        for a in args:
            exp += [k for k in MUTANTS if k.startswith(a[:-1])] if a.endswith("*") else [a]
        args = exp
    for mid in args:
        res = probe(mid, tier, keep, nosuite)
        res["suite_rerun"] = not nosuite
        res["at"] = time.strftime("%Y-%m-%dT%H:%M:%S")
        res["verif_commit"] = run("git -C /verif rev-parse --short HEAD").stdout.strip()
        print(json.dumps(res))
        with open("/verif/MUTATION_LOG.jsonl", "a") as f:
            f.write(json.dumps(res) + "\n")

main()
