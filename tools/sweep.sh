#!/bin/bash
# usage: tools/sweep.sh <tier> <seed> [ids...]   - runs the checks one after another, prints one line each
cd "$(dirname "$0")/.."
tier=${1:-quick}; seed=${2:-1}; shift 2
ids=${@:-C01 C02 C03 C04 C05 C06 C07 C08 C09 C10 C11 C12 C13 C14 C15 C16 C17 C18 C19 C20}
for id in $ids; do
  t0=$(date +%s)
  out=$(VERIF_SEED=$seed ./check $id $tier 2>&1); rc=$?
  echo "$id tier=$tier seed=$seed exit=$rc $(( $(date +%s)-t0 ))s $(echo "$out" | grep -c '^VIOLATION') violations $(echo "$out" | grep -c '^INCONCLUSIVE') inconclusive $(echo "$out" | grep -c '^KNOWN-FINDING') known"
  if [ $rc -ne 0 ]; then echo "$out" | grep -E '^(VIOLATION|INCONCLUSIVE)|sig=' | head -5 | cut -c1-400; fi
done
