#!/opt/veriftools/pyvenv/bin/python
import json, jsonschema, glob, sys
jsonschema.validate(json.load(open('/verif/MANIFEST.json')), json.load(open('/root/.vp/MANIFEST.schema.json')))
m = json.load(open('/verif/MANIFEST.json'))
es = json.load(open('/root/.vp/EVIDENCE.schema.json'))
bad = 0
for c in m['checks']:
    try:
        e = json.load(open(c['evidence_file']))
        jsonschema.validate(e, es)
        assert e['level'] == c['level_claimed']['category'], "level mismatch"
        print(c['property_id'], 'ok', e['tier'], e['coverage'].get('verdict'), 'eval', e['coverage'].get('evaluations'), 'distinct', e['coverage'].get('distinct_nontrivial'))
    except Exception as ex:
        bad += 1
        print(c['property_id'], 'INVALID', str(ex)[:200])
ids = {c['property_id'] for c in m['checks']} | {n['property_id'] for n in m.get('not_applicable', [])}
props = [json.loads(l)['id'] for l in open('/verif/properties.jsonl')]
print('uncovered:', [p for p in props if p not in ids])
sys.exit(1 if bad else 0)
