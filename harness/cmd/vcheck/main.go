// vcheck is the single harness binary. Sub-commands:
//
//	vcheck run <ID> [--tier quick|thorough] [--seed N]     parent: runs every phase as a child, writes evidence
//	vcheck child <ID> <phase> --tier T --seed N --out F    one phase (internal)
//	vcheck replay <file>                                   re-executes one recorded case through the same oracle
//	vcheck list
package main

import (
	"encoding/json"
	"flag"
	"fmt"
	"os"
	"strconv"

	"verifharness/internal/checks"
	"verifharness/internal/mon"
)

func envSeed() int64 {
	if v := os.Getenv("VERIF_SEED"); v != "" {
		if n, err := strconv.ParseInt(v, 10, 64); err == nil {
			return n
		}
	}
	return 1
}

func main() {
	if len(os.Args) < 2 {
		fmt.Fprintln(os.Stderr, "usage: vcheck run|child|replay|list ...")
		os.Exit(64)
	}
	switch os.Args[1] {
	case "list":
		for _, c := range checks.All() {
			fmt.Println(c.ID)
		}
	case "run":
		fs := flag.NewFlagSet("run", flag.ExitOnError)
		tier := fs.String("tier", "quick", "")
		seed := fs.Int64("seed", envSeed(), "")
		if len(os.Args) < 3 {
			os.Exit(64)
		}
		fs.Parse(os.Args[3:])
		spec := checks.Find(os.Args[2])
		if spec == nil {
			fmt.Fprintf(os.Stderr, "unknown property %s\n", os.Args[2])
			os.Exit(64)
		}
		os.Exit(mon.RunCheck(spec, *tier, *seed))
	case "child":
		fs := flag.NewFlagSet("child", flag.ExitOnError)
		tier := fs.String("tier", "quick", "")
		seed := fs.Int64("seed", 1, "")
		out := fs.String("out", "", "")
		shard := fs.Int("shard", 0, "")
		nshards := fs.Int("nshards", 1, "")
		if len(os.Args) < 4 {
			os.Exit(64)
		}
		fs.Parse(os.Args[4:])
		spec := checks.Find(os.Args[2])
		if spec == nil {
			fmt.Println("harness-setup: unknown property")
			os.Exit(64)
		}
		c := mon.NewCtx(spec.ID, os.Args[3], *tier, *seed, *out)
		c.Shard, c.NShards = *shard, *nshards
		spec.Run(c)
		c.Finish()
	case "probe":
		os.Exit(checks.Probe(os.Args[2:]))
	case "replay":
		if len(os.Args) < 3 {
			os.Exit(64)
		}
		b, err := os.ReadFile(os.Args[2])
		if err != nil {
			fmt.Fprintln(os.Stderr, err)
			os.Exit(64)
		}
		var rf mon.ReplayFile
		if err := json.Unmarshal(b, &rf); err != nil {
			fmt.Fprintln(os.Stderr, err)
			os.Exit(64)
		}
		spec := checks.Find(rf.Property)
		if spec == nil {
			fmt.Fprintf(os.Stderr, "unknown property %s\n", rf.Property)
			os.Exit(64)
		}
		c := mon.NewCtx(spec.ID, rf.Phase, rf.Tier, rf.Seed, "")
		c.ReplayMode = true
		switch {
		case len(rf.Case) > 0 && spec.Replay != nil:
			spec.Replay(c, rf.Case)
		case len(rf.Inflight) > 0 && spec.ReplayInflight != nil:
			for _, rec := range rf.Inflight {
				fmt.Printf("replay: in-flight input of worker %d (tag %d)\n", rec.Worker, rec.Tag)
				spec.ReplayInflight(c, rec)
			}
		default:
			fmt.Printf("replay: this witness (sig=%s) is not case-replayable; re-run the phase with VERIF_SEED=%d.\n%s\n", rf.Sig, rf.Seed, rf.What)
			os.Exit(3)
		}
		if c.Violations() > 0 {
			fmt.Printf("VIOLATION property=%s replay=%s\n", spec.ID, os.Args[2])
			os.Exit(1)
		}
		fmt.Println("replay: no violation reproduced")
	default:
		fmt.Fprintln(os.Stderr, "unknown sub-command")
		os.Exit(64)
	}
}
