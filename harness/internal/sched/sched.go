// Package sched is a controlled scheduler over the Reassembler's verif yield
// hook. Worker goroutines park at every yield point (between the
// Reassembler's own atomic steps) and between operations; exactly one runs at
// a time, so a schedule is a sequence of choices among the parked workers and
// can be enumerated exhaustively by a stateless depth-first search that
// re-executes the program from scratch for every choice sequence.
package sched

import (
	"fmt"
	"hash/fnv"
	"runtime"
	"strings"
	"sync"
	"time"

	libaudit "github.com/elastic/go-libaudit/v2"
	"github.com/elastic/go-libaudit/v2/auparse"
)

// Operation kinds of a program.
const (
	PushNC   = iota // PushMessage(non-completing record)
	PushC           // PushMessage(completing record)
	PushEOE         // PushMessage(EOE)
	Maintain        // Maintain()
	Close           // Close()
	PushRaw         // Push(type, raw) non-completing
	NKinds
)

var kindNames = [...]string{"pushNC", "pushC", "pushEOE", "maintain", "close", "pushRaw"}

// POp is one operation of a worker's program.
type POp struct {
	Kind int    `json:"k"`
	Seq  uint32 `json:"seq,omitempty"`
}

// Re-entrancy variants of the Stream callbacks.
const (
	ReNone         = 0
	ReMaintain     = 1 // ReassemblyComplete calls Maintain()
	RePush         = 2 // the first ReassemblyComplete pushes a fresh record
	ReLostMaintain = 3 // EventsLost calls Maintain()
	ReClose        = 4 // the first ReassemblyComplete calls Close() (whoever delivers it, a Close flush included)
)

// Program is one concurrent test program.
type Program struct {
	Max     int     `json:"max_in_flight"`
	Threads [][]POp `json:"threads"`
	Reenter int     `json:"reenter"`
}

func (p *Program) String() string {
	var sb strings.Builder
	fmt.Fprintf(&sb, "max=%d reenter=%d", p.Max, p.Reenter)
	for i, t := range p.Threads {
		fmt.Fprintf(&sb, " | g%d:", i)
		for _, o := range t {
			if o.Kind == Maintain || o.Kind == Close {
				fmt.Fprintf(&sb, " %s", kindNames[o.Kind])
			} else {
				fmt.Fprintf(&sb, " %s(%d)", kindNames[o.Kind], o.Seq)
			}
		}
	}
	return sb.String()
}

// ---------------------------------------------------------------------------

type event struct {
	w     int
	point string
	done  bool
}

type msgInfo struct {
	id         int // global op index
	worker     int
	seq        uint32
	kind       int
	invokeStep int
	returnStep int // -1 while in flight
	delivered  int
	reentrant  bool
}

type opRec struct {
	worker, idx int
	kind        int
	invokeStep  int
	returnStep  int
	err         bool
	flushSeqs   []uint32 // Close: sequences of the groups delivered by this call, in delivery order
}

// Run is one executed schedule.
type Run struct {
	Choices             []int   // the choice made at each depth
	NEnabled            []int   // number of parked workers to choose from at each depth
	Workers             []int   // worker id chosen at each depth
	Enabled             [][]int // parked workers at each depth
	PrevEn              []bool  // whether the previously running worker was still enabled at this depth (a switch away is a preemption)
	TraceH              uint64  // hash of the (worker, yield point) sequence
	Findings            []Finding
	Deadlock            bool
	Timeout             bool
	Dump                string
	Steps               int
	BlockedBehindParked bool // the worker waits for a lock that a worker parked at a yield point may hold (a lock is held across a yield point)
	InternalPreempts    int  // switches away from a worker parked at a yield point inside an operation
	ReentrantPushes     int  // records pushed from inside callbacks (RePush programs)
}

// Finding is one oracle refutation.
type Finding struct{ Sig, What string }

type sched struct {
	p       *Program
	r       *libaudit.Reassembler
	events  chan event
	resume  []chan struct{}
	current int
	step    int

	msgs             []*msgInfo
	byPtr            map[*auparse.AuditMessage]*msgInfo
	ops              []*opRec
	curOp            []*opRec // per worker
	findings         []Finding
	reentered        bool
	reenteredInClose bool
	reClosed         bool
	reCloseCalls     int
	reCloseOK        int
	noReenter        bool // set for the harness's own final Close
	goids            []int64
	closeInvokedStep int // step at which the first Close was invoked (-1 none)
	cbDepth          int
	trace            fnvHash
}

type fnvHash uint64

func (h *fnvHash) add(w int, s string) {
	x := uint64(*h)
	if x == 0 {
		x = 14695981039346656037
	}
	x ^= uint64(w + 1)
	x *= 1099511628211
	for i := 0; i < len(s); i++ {
		x ^= uint64(s[i])
		x *= 1099511628211
	}
	*h = fnvHash(x)
}

var registry sync.Map // *libaudit.Reassembler -> *sched

var installOnce sync.Once

// Install installs the global yield hook (idempotent).
func Install() {
	installOnce.Do(func() {
		libaudit.VerifSetYieldHook(func(r *libaudit.Reassembler, point string) {
			if s, ok := registry.Load(r); ok {
				s.(*sched).park(point)
			} else if Chaos > 0 {
				chaos(point)
			}
		})
	})
}

func (s *sched) park(point string) {
	w := s.current
	s.events <- event{w: w, point: point}
	<-s.resume[w]
}

func (s *sched) fail(sig, format string, a ...any) {
	if len(s.findings) < 6 {
		s.findings = append(s.findings, Finding{sig, fmt.Sprintf(format, a...)})
	}
}

// Stream implementation (always runs on the currently scheduled worker).
func (s *sched) ReassemblyComplete(msgs []*auparse.AuditMessage) {
	if len(msgs) == 0 {
		s.fail("empty-delivery", "ReassemblyComplete with no messages")
	}
	var seq uint32
	for i, m := range msgs {
		if m == nil {
			s.fail("nil-delivery", "nil message delivered")
			continue
		}
		if i == 0 {
			seq = m.Sequence
		} else if m.Sequence != seq {
			s.fail("mixed-sequences", "one callback carries sequences %d and %d", seq, m.Sequence)
		}
		mi := s.byPtr[m]
		if mi == nil {
			s.fail("fabricated", "delivered message seq=%d type=%d was never pushed", m.Sequence, m.RecordType)
			continue
		}
		if mi.kind == PushEOE {
			s.fail("eoe-delivered", "EOE message %d delivered", mi.id)
		}
		mi.delivered++
		if mi.delivered > 1 {
			s.fail("delivered-twice", "message #%d (seq=%d, pushed by g%d) delivered %d times", mi.id, mi.seq, mi.worker, mi.delivered)
		}
	}
	// a Close in progress on this worker: remember the order of its flush
	if op := s.curOp[s.current]; op != nil && op.kind == Close && op.returnStep < 0 && s.cbDepth == 0 && len(msgs) > 0 && msgs[0] != nil {
		op.flushSeqs = append(op.flushSeqs, msgs[0].Sequence)
	}
	// messages pushed by the same goroutine must keep their push order inside the group
	last := map[int]int{}
	for _, m := range msgs {
		if mi := s.byPtr[m]; mi != nil {
			if prev, ok := last[mi.worker]; ok && prev > mi.id {
				s.fail("reordered-within-event", "records pushed by g%d appear out of push order in one callback", mi.worker)
			}
			last[mi.worker] = mi.id
		}
	}
	switch s.p.Reenter {
	case ReClose:
		if !s.reClosed && !s.noReenter && s.cbDepth == 0 {
			s.reClosed = true
			if s.closeInvokedStep < 0 {
				s.closeInvokedStep = s.step
			}
			s.cbDepth++
			err := s.r.Close()
			s.cbDepth--
			s.reCloseCalls++
			if err == nil {
				s.reCloseOK++
			}
		}
	case ReMaintain:
		if s.cbDepth < 2 {
			s.cbDepth++
			s.r.Maintain()
			s.cbDepth--
		}
	case RePush:
		// once from the first callback of the run, and once more from the first callback made by a
		// worker's Close (the flush): a callback must be free to push whoever delivers it
		inClose := s.curOp[s.current] != nil && s.curOp[s.current].kind == Close && s.curOp[s.current].returnStep < 0
		if !s.reentered || (inClose && !s.reenteredInClose && !s.noReenter) {
			seq := uint32(900)
			if s.reentered {
				seq = 901
			}
			s.reentered = true
			if inClose {
				s.reenteredInClose = true
			}
			m := &auparse.AuditMessage{RecordType: 1300, Sequence: seq, RawData: fmt.Sprintf("audit(1.000:%d): reentrant", seq)}
			mi := &msgInfo{id: 100 + int(seq), worker: s.current, seq: seq, kind: PushNC, invokeStep: s.step, returnStep: -1, reentrant: true}
			s.msgs = append(s.msgs, mi)
			s.byPtr[m] = mi
			s.r.PushMessage(m)
			mi.returnStep = s.step
		}
	}
}

func (s *sched) EventsLost(n int) {
	if n <= 0 {
		s.fail("lost-nonpositive", "EventsLost(%d)", n)
	}
	if s.p.Reenter == ReLostMaintain && s.cbDepth < 2 {
		s.cbDepth++
		s.r.Maintain()
		s.cbDepth--
	}
}

const stepTimeout = 10 * time.Second

// Execute runs the program once, following the choice prefix and then a
// chooser (nil = always the first parked worker).
func Execute(p *Program, prefix []int, chooser func(depth, n int) int) *Run {
	Install()
	nw := len(p.Threads)
	s := &sched{p: p, events: make(chan event), resume: make([]chan struct{}, nw), byPtr: map[*auparse.AuditMessage]*msgInfo{},
		curOp: make([]*opRec, nw), closeInvokedStep: -1, goids: make([]int64, nw)}
	r, err := libaudit.NewReassembler(p.Max, time.Hour, s)
	if err != nil {
		return &Run{Findings: []Finding{{"new-error", err.Error()}}}
	}
	s.r = r
	registry.Store(r, s)
	defer registry.Delete(r)

	run := &Run{}
	done := make([]bool, nw)
	id := 0
	type plan struct {
		m  *auparse.AuditMessage
		mi *msgInfo
	}
	plans := make([][]plan, nw)
	for w, ops := range p.Threads {
		for i, o := range ops {
			var pl plan
			if o.Kind == PushNC || o.Kind == PushC || o.Kind == PushEOE {
				typ := auparse.AuditMessageType(1300)
				if o.Kind == PushC {
					typ = 1327
				} else if o.Kind == PushEOE {
					typ = 1320
				}
				pl.m = &auparse.AuditMessage{RecordType: typ, Sequence: o.Seq, RawData: fmt.Sprintf("audit(1.000:%d): g=%d i=%d", o.Seq, w, i)}
				pl.mi = &msgInfo{id: id, worker: w, seq: o.Seq, kind: o.Kind, returnStep: -1, invokeStep: -1}
				s.msgs = append(s.msgs, pl.mi)
				s.byPtr[pl.m] = pl.mi
			}
			id++
			plans[w] = append(plans[w], pl)
		}
	}
	for w := range p.Threads {
		s.resume[w] = make(chan struct{})
		go func(w int) {
			defer func() {
				if pv := recover(); pv != nil {
					s.fail("panic", "panic in g%d: %v", w, pv)
				}
				s.events <- event{w: w, done: true}
			}()
			s.goids[w] = goid()
			for i, o := range p.Threads[w] {
				s.events <- event{w: w, point: "op"}
				<-s.resume[w]
				rec := &opRec{worker: w, idx: i, kind: o.Kind, invokeStep: s.step, returnStep: -1}
				s.ops = append(s.ops, rec)
				s.curOp[w] = rec
				pl := plans[w][i]
				switch o.Kind {
				case PushNC, PushC, PushEOE:
					pl.mi.invokeStep = s.step
					r.PushMessage(pl.m)
					pl.mi.returnStep = s.step
				case Maintain:
					rec.err = r.Maintain() != nil
				case Close:
					if s.closeInvokedStep < 0 {
						s.closeInvokedStep = s.step
					}
					rec.err = r.Close() != nil
				}
				rec.returnStep = s.step
			}
		}(w)
		// wait until the worker is parked at its first op (or finished, for empty programs)
		ev := <-s.events
		if ev.done {
			done[ev.w] = true
		}
	}

	timer := time.NewTimer(stepTimeout)
	defer timer.Stop()
	prev := -1
	lastPoint := make([]string, nw)
	for w := range lastPoint {
		lastPoint[w] = "op"
	}
	for depth := 0; ; depth++ {
		var enabled []int
		for w := 0; w < nw; w++ {
			if !done[w] {
				enabled = append(enabled, w)
			}
		}
		if len(enabled) == 0 {
			break
		}
		c := 0
		if depth < len(prefix) {
			c = prefix[depth]
		} else if chooser != nil {
			c = chooser(depth, len(enabled))
		}
		if c >= len(enabled) {
			c = len(enabled) - 1
		}
		w := enabled[c]
		prevEn := false
		for _, e := range enabled {
			if e == prev {
				prevEn = true
			}
		}
		run.Choices = append(run.Choices, c)
		run.NEnabled = append(run.NEnabled, len(enabled))
		run.Workers = append(run.Workers, w)
		run.Enabled = append(run.Enabled, enabled)
		run.PrevEn = append(run.PrevEn, prevEn)
		if prev >= 0 && prev != w && prevEn && lastPoint[prev] != "op" {
			run.InternalPreempts++
		}
		prev = w
		s.current = w
		s.step++
		s.resume[w] <- struct{}{}
		var ev event
		got, expired := false, false
		poll := 5 * time.Millisecond
		for !got && !expired {
			pt := time.NewTimer(poll)
			select {
			case ev = <-s.events:
				got = true
			case <-timer.C:
				expired = true
			case <-pt.C:
				// normally a step takes microseconds. Is the worker waiting for a library mutex? Only the
				// scheduled worker runs, so a mutex wait cannot end by itself: decide now instead of after 10 s.
				if workerWaitsForLibauditLock(s.goids[w]) {
					expired = true
				} else if poll < time.Second {
					poll *= 2
				}
			}
			pt.Stop()
		}
		if got {
			if ev.done {
				done[ev.w] = true
				s.trace.add(ev.w, "done")
			} else {
				s.trace.add(ev.w, ev.point)
				lastPoint[ev.w] = ev.point
			}
		} else {
			run.Dump = goroutineBlock(dumpAll(), s.goids[w])
			run.Timeout = true
			// A lock wait is a deadlock only when no parked worker can be the holder: every other
			// worker is finished or parked between operations (where it holds no library lock).
			othersOutside := true
			for o := 0; o < nw; o++ {
				if o != w && !done[o] && lastPoint[o] != "op" {
					othersOutside = false
				}
			}
			run.Deadlock = IsLibauditLockWait(run.Dump) && othersOutside
			run.BlockedBehindParked = IsLibauditLockWait(run.Dump) && !othersOutside
			run.Findings = s.findings
			run.TraceH = uint64(s.trace)
			run.Steps = s.step
			return run // the blocked goroutines are abandoned
		}
	}
	run.Steps = s.step
	run.TraceH = uint64(s.trace)

	// ---- end-of-schedule oracle (all workers have returned) ----
	closes, closeOK := 0, 0
	for _, o := range s.ops {
		if o.kind == Close {
			closes++
			if !o.err {
				closeOK++
			}
		}
		if o.kind == Maintain && !o.err && s.closeInvokedStep >= 0 && o.invokeStep > closeReturnStep(s) && closeReturnStep(s) >= 0 {
			s.fail("maintain-ok-after-close", "Maintain invoked after Close had returned succeeded")
		}
	}
	// "Close delivers every buffered event once, in order": whatever the interleaving, the groups one Close
	// call delivers come in ascending sequence order (the program's sequences are small: no roll-over)
	for _, o := range s.ops {
		for i := 1; i < len(o.flushSeqs); i++ {
			if o.flushSeqs[i] < o.flushSeqs[i-1] {
				s.fail("close-flush-out-of-order", "the Close of g%d flushed sequences %v: not in ascending order", o.worker, o.flushSeqs)
				break
			}
		}
	}
	closes, closeOK = closes+s.reCloseCalls, closeOK+s.reCloseOK // a Close made from inside a callback is a Close call like any other
	if closes > 0 && closeOK != 1 {
		s.fail("close-count", "%d of %d concurrent Close calls returned nil (exactly one must)", closeOK, closes)
	}
	if closes == 0 {
		// flush so that exactly-once can be decided for every message
		s.current = 0
		s.reentered, s.noReenter = true, true // the flush below is the harness's own call: no re-entrant push into a closed Reassembler
		registry.Delete(r)                    // no more parking: the harness itself is the only caller now
		if err := r.Close(); err != nil {
			s.fail("final-close-error", "Close after all workers returned: %v", err)
		}
		for _, mi := range s.msgs {
			if mi.kind != PushEOE && mi.delivered != 1 {
				s.fail("not-exactly-once", "message #%d (g%d seq=%d) delivered %d times after final Close", mi.id, mi.worker, mi.seq, mi.delivered)
			}
		}
	} else {
		for _, mi := range s.msgs {
			if mi.kind == PushEOE {
				continue
			}
			if mi.returnStep >= 0 && mi.returnStep < s.closeInvokedStep && mi.delivered != 1 {
				s.fail("lost-before-close", "message #%d (g%d seq=%d) whose push returned at step %d, before Close was invoked at step %d, was delivered %d times", mi.id, mi.worker, mi.seq, mi.returnStep, s.closeInvokedStep, mi.delivered)
			}
		}
	}
	run.Findings = s.findings
	for _, mi := range s.msgs {
		if mi.reentrant {
			run.ReentrantPushes++
		}
	}
	return run
}

func closeReturnStep(s *sched) int {
	for _, o := range s.ops {
		if o.kind == Close && !o.err {
			return o.returnStep
		}
	}
	return -1
}

// goid returns the id of the calling goroutine (parsed from its stack header).
func goid() int64 {
	var b [64]byte
	n := runtime.Stack(b[:], false)
	var id int64
	fmt.Sscanf(string(b[:n]), "goroutine %d ", &id)
	return id
}

// goroutineBlock returns the stack of goroutine id from a full dump ("" when it is not there).
func goroutineBlock(dump string, id int64) string {
	head := fmt.Sprintf("goroutine %d [", id)
	for _, g := range strings.Split(dump, "\n\n") {
		if strings.HasPrefix(g, head) {
			return g
		}
	}
	return ""
}

// dumpAll returns the stacks of all goroutines (abandoned schedules leave blocked goroutines behind,
// so the buffer grows until the dump fits).
func dumpAll() string {
	for n := 1 << 20; ; n *= 4 {
		buf := make([]byte, n)
		if m := runtime.Stack(buf, true); m < n || n >= 1<<28 {
			return string(buf[:m])
		}
	}
}

// workerWaitsForLibauditLock: the worker is in a mutex wait under a go-libaudit frame, and still is a
// little later (only the scheduled worker runs, so nobody can release the lock in between).
func workerWaitsForLibauditLock(id int64) bool {
	if !IsLibauditLockWait(goroutineBlock(dumpAll(), id)) {
		return false
	}
	time.Sleep(20 * time.Millisecond)
	return IsLibauditLockWait(goroutineBlock(dumpAll(), id))
}

// IsLibauditLockWait reports whether a goroutine dump shows a goroutine BLOCKED on a mutex under a
// go-libaudit frame. The goroutine's state (the bracket of its header line) must be a mutex wait: a
// goroutine that was merely preempted while running inside Lock() is "runnable"/"running" and does not
// count.
func IsLibauditLockWait(dump string) bool {
	for _, g := range strings.Split(dump, "\n\n") {
		nl := strings.IndexByte(g, '\n')
		if nl < 0 {
			continue
		}
		head := g[:nl]
		waiting := strings.Contains(head, "[sync.Mutex.Lock") || strings.Contains(head, "[sync.RWMutex.") || strings.Contains(head, "[semacquire")
		if waiting && strings.Contains(g, "go-libaudit/v2.(*") {
			return true
		}
	}
	return false
}

// Hash is a helper for distinct-program keys.
func Hash(s string) uint64 {
	h := fnv.New64a()
	h.Write([]byte(s))
	return h.Sum64()
}

// ExploreResult summarises a DFS over one program.
type ExploreResult struct {
	Schedules           int64
	MaxDepth            int
	SumDepth            int64
	Traces              map[uint64]struct{}
	Findings            []Finding
	FailChoice          []int
	Deadlock            bool
	Timeout             bool
	BlockedBehindParked bool
	Dump                string
	Truncated           bool
	Pruned              int64 // schedules dropped because the chosen worker waited for a lock held by a parked worker
}

// MaxPruned bounds the schedules dropped per program (each leaks its blocked goroutines).
const MaxPruned = 3000

// Explore enumerates every schedule of p (preemption-bounded when bound >= 0,
// capped at maxSchedules). It stops at the first schedule with findings.
func Explore(p *Program, bound int, maxSchedules int64) *ExploreResult {
	res := &ExploreResult{Traces: map[uint64]struct{}{}}
	var prefix []int
	for {
		run := Execute(p, prefix, nil)
		res.Schedules++
		if len(run.Choices) > res.MaxDepth {
			res.MaxDepth = len(run.Choices)
		}
		res.SumDepth += int64(len(run.Choices))
		if run.InternalPreempts > 0 {
			res.Traces[run.TraceH] = struct{}{}
		}
		if run.BlockedBehindParked && len(run.Findings) == 0 && res.Pruned < MaxPruned {
			// the chosen worker was not really enabled: it waits for a lock that a worker parked inside an
			// operation holds (a lock held across a yield point or callback). The choice is infeasible, not
			// wrong: drop this schedule and go on with the alternatives (the parked holder among them).
			res.Pruned++
			run.Timeout = false
		}
		if len(run.Findings) > 0 || run.Timeout {
			res.Findings = run.Findings
			res.FailChoice = append([]int(nil), run.Choices...)
			res.Deadlock, res.Timeout, res.Dump = run.Deadlock, run.Timeout, run.Dump
			res.BlockedBehindParked = run.BlockedBehindParked
			return res
		}
		if maxSchedules > 0 && res.Schedules >= maxSchedules {
			res.Truncated = true
			return res
		}
		// backtrack: deepest position with an untried alternative (within the preemption bound)
		i := len(run.Choices) - 1
		var next int
		for ; i >= 0; i-- {
			found := false
			for c := run.Choices[i] + 1; c < run.NEnabled[i]; c++ {
				if bound < 0 || preemptions(run, i, c) <= bound {
					next, found = c, true
					break
				}
			}
			if found {
				break
			}
		}
		if i < 0 {
			return res
		}
		prefix = append(append([]int(nil), run.Choices[:i]...), next)
	}
}

// preemptions counts the preemptive switches in run.Choices[:i] plus choice c at depth i.
// A switch at depth d is preemptive when the worker that ran at d-1 is still
// parked (enabled) at d and a different worker is chosen.
func preemptions(run *Run, i, c int) int {
	n := 0
	for d := 1; d <= i; d++ {
		w := run.Workers[d]
		if d == i {
			w = run.Enabled[d][c]
		}
		if run.PrevEn[d] && w != run.Workers[d-1] {
			n++
		}
	}
	return n
}
