package sched

import (
	"fmt"
	"runtime"
	"strings"
	"sync"
	"sync/atomic"
	"time"

	libaudit "github.com/elastic/go-libaudit/v2"
	"github.com/elastic/go-libaudit/v2/auparse"

	"verifharness/internal/mon"
)

// Chaos > 0 makes the yield hook inject Gosched / short spins for Reassemblers
// that are not under the controlled scheduler. It is set before the stress
// goroutines start and only read afterwards; the injected delays use no
// synchronisation primitives, so they add no happens-before edges that could
// hide a race from the race detector.
var Chaos int

func chaos(point string) {
	t := time.Now().UnixNano() >> 6
	switch {
	case t%7 == 0:
		runtime.Gosched()
	case t%61 == 0:
		for i := 0; i < 2000; i++ {
			_ = i
		}
		runtime.Gosched()
	case t%509 == 0:
		time.Sleep(time.Microsecond * time.Duration(1+t%20))
	}
}

type tag struct {
	count  int32 // deliveries (atomic)
	seq    uint32
	eoe    bool
	before bool // push returned while Close had not been invoked (written by the pusher only)
	id     int64
}

type stressStream struct {
	r         *libaudit.Reassembler
	reenter   bool
	mixed     atomic.Int64
	nilMsg    atomic.Int64
	empty     atomic.Int64
	foreign   atomic.Int64
	lostBad   atomic.Int64
	callbacks atomic.Int64
	rawTags   sync.Map // token -> *tag for records pushed with Push(type, raw)
	reMu      sync.Mutex
	reTags    []*tag // records pushed from inside callbacks
}

func (s *stressStream) ReassemblyComplete(msgs []*auparse.AuditMessage) {
	s.callbacks.Add(1)
	if len(msgs) == 0 {
		s.empty.Add(1)
		return
	}
	var first *tag
	for _, m := range msgs {
		if m == nil {
			s.nilMsg.Add(1)
			continue
		}
		t, ok := m.Payload.(*tag)
		if !ok {
			// pushed with Push(type, raw bytes): the library built the message; find the tag by the token in its text
			if i := strings.Index(m.RawData, "tagkey="); i >= 0 {
				if v, found := s.rawTags.Load(strings.TrimSpace(m.RawData[i+7:])); found {
					t, ok = v.(*tag), true
				}
			}
		}
		if !ok {
			s.foreign.Add(1)
			continue
		}
		if first == nil {
			first = t
		} else if t.seq != first.seq {
			s.mixed.Add(1)
		}
		atomic.AddInt32(&t.count, 1)
	}
	if s.reenter && first != nil && first.id%16 == 0 {
		s.r.Maintain()
	}
	if s.reenter && first != nil && first.id%16 == 1 {
		// a callback pushes a fresh record, whoever delivers it (a pusher, the ticker's Maintain, the Close flush)
		t := &tag{seq: first.seq + 3, id: -1}
		s.reMu.Lock()
		s.reTags = append(s.reTags, t)
		s.reMu.Unlock()
		s.r.PushMessage(&auparse.AuditMessage{RecordType: 1300, Sequence: t.seq, Payload: t})
	}
}

func (s *stressStream) EventsLost(n int) {
	if n <= 0 {
		s.lostBad.Add(1)
	}
}

// StressResult is the outcome of one stress repetition.
type StressResult struct {
	Pushes, Delivered, Callbacks int64
	Reentrant                    int64 // records pushed from inside callbacks
	BeforeClose                  int64
	Findings                     []Finding
	Config                       string
}

// Stress runs one randomised multi-goroutine workload (intended for the -race build).
func Stress(rng *mon.Rand, opsPerG int) *StressResult {
	Install()
	G := rng.Range(4, 16)
	max := mon.Pick(rng, []int{0, 1, 2, 5, 8, 32})
	closers := rng.Range(1, 3)
	reenter := rng.Chance(1, 2)
	withTicker := rng.Chance(3, 4)
	timeout := mon.Pick(rng, []time.Duration{time.Hour, time.Millisecond, 50 * time.Microsecond})
	closeAfter := time.Duration(rng.Range(1, 30)) * time.Millisecond
	res := &StressResult{Config: fmt.Sprintf("goroutines=%d ops/goroutine=%d max=%d closers=%d reenter=%v ticker=%v timeout=%s close_after=%s", G, opsPerG, max, closers, reenter, withTicker, timeout, closeAfter)}
	st := &stressStream{reenter: reenter}
	r, err := libaudit.NewReassembler(max, timeout, st)
	if err != nil {
		res.Findings = append(res.Findings, Finding{"new-error", err.Error()})
		return res
	}
	st.r = r
	var closeInvoked atomic.Int32
	tags := make([][]*tag, G)
	seeds := make([]uint64, G)
	for g := range seeds {
		seeds[g] = rng.Uint64()
	}
	var wg sync.WaitGroup
	var rawErrs atomic.Int64
	closeOK := make([]bool, closers)
	stop := make(chan struct{})
	for g := 0; g < G; g++ {
		wg.Add(1)
		go func(g int) {
			defer wg.Done()
			lr := mon.NewRand(int64(seeds[g]))
			mine := make([]*tag, 0, opsPerG)
			var rawBuf [96]byte
			for i := 0; i < opsPerG; i++ {
				seq := uint32(4294967200 + i/4 + lr.Intn(6)) // a window that rolls over
				t := &tag{seq: seq, id: int64(g)<<32 | int64(i)}
				typ := auparse.AuditMessageType(1300)
				switch x := lr.Intn(10); {
				case x < 2:
					typ = 1327
				case x < 4:
					typ, t.eoe = 1320, true
				}
				m := &auparse.AuditMessage{RecordType: typ, Sequence: seq, Payload: t}
				if lr.Chance(1, 50) {
					r.Maintain()
				}
				if lr.Chance(1, 8) {
					// Push(type, raw): parsed and copied by the library; the caller's buffer is re-used at once
					key := fmt.Sprintf("%d-%d", g, i)
					st.rawTags.Store(key, t)
					n := copy(rawBuf[:], fmt.Sprintf("audit(1700000000.000:%d): tagkey=%s", seq, key))
					if err := r.Push(typ, rawBuf[:n]); err != nil {
						rawErrs.Add(1)
					}
					for j := range rawBuf[:n] {
						rawBuf[j] = 'Z'
					}
				} else {
					r.PushMessage(m)
				}
				if closeInvoked.Load() == 0 {
					t.before = true
				}
				mine = append(mine, t)
			}
			tags[g] = mine
		}(g)
	}
	if withTicker {
		wg.Add(1)
		go func() {
			defer wg.Done()
			for {
				select {
				case <-stop:
					return
				default:
				}
				if r.Maintain() != nil {
					return
				}
				time.Sleep(50 * time.Microsecond)
			}
		}()
	}
	var cwg sync.WaitGroup
	for k := 0; k < closers; k++ {
		cwg.Add(1)
		go func(k int) {
			defer cwg.Done()
			time.Sleep(closeAfter)
			closeInvoked.Store(1)
			closeOK[k] = r.Close() == nil
		}(k)
	}
	cwg.Wait()
	wg.Wait()
	close(stop)

	ok := 0
	for _, b := range closeOK {
		if b {
			ok++
		}
	}
	add := func(sig, f string, a ...any) {
		if len(res.Findings) < 6 {
			res.Findings = append(res.Findings, Finding{sig, fmt.Sprintf(f, a...)})
		}
	}
	if ok != 1 {
		add("close-count", "%d of %d concurrent Close calls returned nil", ok, closers)
	}
	if n := rawErrs.Load(); n > 0 {
		add("push-raw-error", "%d Push(type, raw) calls with well-formed text returned an error", n)
	}
	for g := range tags {
		for _, t := range tags[g] {
			res.Pushes++
			n := atomic.LoadInt32(&t.count)
			res.Delivered += int64(n)
			if t.before {
				res.BeforeClose++
			}
			switch {
			case t.eoe && n > 0:
				add("eoe-delivered", "EOE record (g%d) delivered", g)
			case n > 1:
				add("delivered-twice", "record g%d seq=%d delivered %d times", g, t.seq, n)
			case !t.eoe && t.before && n != 1:
				add("lost-before-close", "record g%d seq=%d whose push returned before Close was invoked was delivered %d times", g, t.seq, n)
			}
		}
	}
	for _, t := range st.reTags {
		res.Reentrant++
		if n := atomic.LoadInt32(&t.count); n > 1 {
			add("delivered-twice", "record seq=%d pushed from inside a callback delivered %d times", t.seq, n)
		}
	}
	res.Callbacks = st.callbacks.Load()
	for name, v := range map[string]int64{"mixed-sequences": st.mixed.Load(), "nil-delivery": st.nilMsg.Load(), "empty-delivery": st.empty.Load(), "fabricated": st.foreign.Load(), "lost-nonpositive": st.lostBad.Load()} {
		if v > 0 {
			add(name, "%d callbacks with %s", v, name)
		}
	}
	return res
}

// CloseStorm releases G goroutines at once onto Close of the same fresh Reassembler, n times.
// Exactly one Close must return nil each time and the one buffered message must be delivered once.
func CloseStorm(n, G int) (rounds int64, findings []Finding) {
	Install()
	for i := 0; i < n && len(findings) == 0; i++ {
		st := &stressStream{}
		r, err := libaudit.NewReassembler(5, time.Hour, st)
		if err != nil {
			return rounds, []Finding{{"new-error", err.Error()}}
		}
		st.r = r
		t := &tag{seq: 1}
		r.PushMessage(&auparse.AuditMessage{RecordType: 1300, Sequence: 1, Payload: t})
		start := make(chan struct{})
		var wg sync.WaitGroup
		var ok atomic.Int32
		for g := 0; g < G; g++ {
			wg.Add(1)
			go func() {
				defer wg.Done()
				<-start
				if r.Close() == nil {
					ok.Add(1)
				}
			}()
		}
		close(start)
		wg.Wait()
		rounds++
		if n := ok.Load(); n != 1 {
			findings = append(findings, Finding{"close-count", fmt.Sprintf("round %d: %d of %d goroutines released together got nil from Close (exactly one must)", i, n, G)})
		}
		if n := atomic.LoadInt32(&t.count); n != 1 {
			findings = append(findings, Finding{"not-exactly-once", fmt.Sprintf("round %d: the buffered message was delivered %d times by concurrent Close calls", i, n)})
		}
	}
	return rounds, findings
}

// DescendingPushStorm: n rounds, each on a fresh Reassembler holding one incomplete event whose push has
// returned; then G goroutines push fresh, ever LOWER incomplete sequences while another goroutine calls
// Close. New heads keep appearing under the flush: whatever Close does must still be one atomic flush, so the
// record pushed before Close is delivered exactly once and nothing is delivered twice.
func DescendingPushStorm(n, G int) (rounds int64, findings []Finding) {
	Install()
	for i := 0; i < n && len(findings) == 0; i++ {
		st := &stressStream{}
		r, err := libaudit.NewReassembler(1<<20, time.Hour, st)
		if err != nil {
			return rounds, []Finding{{"new-error", err.Error()}}
		}
		st.r = r
		first := &tag{seq: 1 << 20}
		r.PushMessage(&auparse.AuditMessage{RecordType: 1300, Sequence: first.seq, Payload: first})
		start := make(chan struct{})
		var wg sync.WaitGroup
		var next atomic.Uint32
		next.Store(1 << 20)
		tags := make([][]*tag, G)
		for g := 0; g < G; g++ {
			wg.Add(1)
			go func(g int) {
				defer wg.Done()
				<-start
				for j := 0; j < 16; j++ {
					t := &tag{seq: next.Add(^uint32(0))} // next - 1
					tags[g] = append(tags[g], t)
					r.PushMessage(&auparse.AuditMessage{RecordType: 1300, Sequence: t.seq, Payload: t})
				}
			}(g)
		}
		wg.Add(1)
		var closeErr error
		go func() {
			defer wg.Done()
			<-start
			for k := 0; k < i%64; k++ {
				runtime.Gosched() // vary where in the storm the Close lands
			}
			closeErr = r.Close()
		}()
		close(start)
		wg.Wait()
		rounds++
		if closeErr != nil {
			findings = append(findings, Finding{"close-error", fmt.Sprintf("round %d: the only Close returned %v", i, closeErr)})
		}
		if c := atomic.LoadInt32(&first.count); c != 1 {
			findings = append(findings, Finding{"lost-before-close", fmt.Sprintf("round %d: the record whose push returned before Close was invoked was delivered %d times (Close ran beside %d goroutines pushing ever lower new sequences)", i, c, G)})
		}
		for g := range tags {
			for _, t := range tags[g] {
				if c := atomic.LoadInt32(&t.count); c > 1 {
					findings = append(findings, Finding{"delivered-twice", fmt.Sprintf("round %d: record seq=%d delivered %d times", i, t.seq, c)})
				}
			}
		}
	}
	return rounds, findings
}
