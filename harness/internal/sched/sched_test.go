package sched

import (
	"testing"
)

func TestExploreSmallProgram(t *testing.T) {
	p := &Program{Max: 1, Threads: [][]POp{{{Kind: PushNC, Seq: 7}, {Kind: Close}}, {{Kind: PushC, Seq: 7}}}}
	res := Explore(p, -1, 0)
	if len(res.Findings) != 0 || res.Timeout {
		t.Fatalf("findings on the real code: %+v", res.Findings)
	}
	if res.Schedules < 20 || len(res.Traces) < 10 {
		t.Fatalf("only %d schedules / %d traces explored", res.Schedules, len(res.Traces))
	}
	// a fixed choice sequence replays to the same trace
	a := Execute(p, []int{1, 0, 1}, nil)
	b := Execute(p, []int{1, 0, 1}, nil)
	if a.TraceH != b.TraceH || len(a.Choices) != len(b.Choices) {
		t.Fatal("replay of a choice sequence is not deterministic")
	}
	t.Logf("%d schedules, %d distinct interleaved traces, max depth %d", res.Schedules, len(res.Traces), res.MaxDepth)
}

func TestLockWaitDetection(t *testing.T) {
	dump := "goroutine 7 [sync.Mutex.Lock]:\nsync.runtime_SemacquireMutex(0x1)\nsync.(*Mutex).Lock(...)\ngithub.com/elastic/go-libaudit/v2.(*eventList).CleanUp(0xc0)\n\ngoroutine 8 [chan receive]:\nmain.x()\n"
	if !IsLibauditLockWait(dump) {
		t.Fatal("lock wait under a go-libaudit frame not recognised")
	}
	if IsLibauditLockWait("goroutine 8 [chan receive]:\nverifharness/internal/sched.(*sched).park()\n") {
		t.Fatal("parked worker mistaken for a lock wait")
	}
	// preempted while running inside Lock(): not blocked
	if IsLibauditLockWait("goroutine 7 [runnable]:\nsync.(*Mutex).Lock(...)\ngithub.com/elastic/go-libaudit/v2.(*eventList).Put(0xc0)\n") {
		t.Fatal("a runnable goroutine inside Lock() mistaken for a lock wait")
	}
}

// A goroutine waiting on something else is not a lock wait (live dump).
func TestLockWaitDetectionLive(t *testing.T) {
	blocked := make(chan int64, 1)
	release := make(chan struct{})
	go func() { blocked <- goid(); <-release }()
	id := <-blocked
	if workerWaitsForLibauditLock(id) {
		t.Fatal("a goroutine waiting on a channel mistaken for a lock wait")
	}
	close(release)
}

// A RePush program re-enters once from the first callback and once more from a callback made by a
// worker's Close flush.
func TestRePushAlsoFromCloseFlush(t *testing.T) {
	p := &Program{Max: 1, Reenter: RePush, Threads: [][]POp{{{Kind: PushNC, Seq: 7}, {Kind: PushNC, Seq: 8}, {Kind: Close}}}}
	run := Execute(p, nil, nil)
	if len(run.Findings) > 0 || run.Timeout {
		t.Fatalf("findings %v timeout %v", run.Findings, run.Timeout)
	}
	if run.ReentrantPushes != 2 {
		t.Fatalf("re-entrant pushes = %d, want 2 (first callback + Close flush)", run.ReentrantPushes)
	}
}
