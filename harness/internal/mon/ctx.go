// Package mon holds the shared monitor plumbing: the per-phase context that
// collects coverage counters, distinct-case sets, samples and violations; the
// known-findings file; the evidence and replay writers; the parent/child
// process orchestration with its wall-clock watchdog.
package mon

import (
	"encoding/json"
	"fmt"
	"hash/fnv"
	"os"
	"path/filepath"
	"runtime"
	"runtime/debug"
	"sort"
	"strings"
	"sync"
	"sync/atomic"
	"time"
)

// Root is the /verif directory (overridable for tests).
var Root = func() string {
	if v := os.Getenv("VERIF_ROOT"); v != "" {
		return v
	}
	return "/verif"
}()

// Violation is one refutation found by an oracle.
type Violation struct {
	Sig    string          `json:"sig"`  // oracle-computed signature (failing input class / call site / history shape)
	What   string          `json:"what"` // human-readable witness summary
	Case   json.RawMessage `json:"case,omitempty"`
	Replay string          `json:"replay,omitempty"` // path of the replay file (filled by the parent)
}

// Result is what a child phase hands back to the parent.
type Result struct {
	Property    string            `json:"property"`
	Phase       string            `json:"phase"`
	Tier        string            `json:"tier"`
	Seed        int64             `json:"seed"`
	Counters    map[string]int64  `json:"counters"`
	Distinct    map[string]int64  `json:"distinct"`
	Samples     []json.RawMessage `json:"samples"`
	Violations  []Violation       `json:"violations"`
	NViolations int64             `json:"n_violations"`
	SigCounts   map[string]int64  `json:"sig_counts"`
	Known       map[string]int64  `json:"known"`
	KnownWhat   map[string]string `json:"known_what"`
	Inconcl     []string          `json:"inconclusive"`
	Notes       []string          `json:"notes"`
	WallS       float64           `json:"wall_s"`
	Done        bool              `json:"done"`
}

const (
	maxStoredViolations = 60
	maxSamples          = 6
	distinctCap         = 16_000_000
	distinctShards      = 64
)

type distinctSet struct {
	shards [distinctShards]struct {
		mu sync.Mutex
		m  map[uint64]struct{}
	}
	n atomic.Int64
}

func (d *distinctSet) add(h uint64) {
	if d.n.Load() >= distinctCap {
		return // counted conservatively: the cap is a lower bound
	}
	s := &d.shards[h%distinctShards]
	s.mu.Lock()
	if s.m == nil {
		s.m = make(map[uint64]struct{})
	}
	if _, ok := s.m[h]; !ok {
		s.m[h] = struct{}{}
		d.n.Add(1)
	}
	s.mu.Unlock()
}

// Ctx is the per-phase monitor context (child side). All methods are safe for
// concurrent use.
type Ctx struct {
	ID, Phase, Tier string
	Seed            int64
	Thorough        bool
	Workers         int
	WorkDir         string
	ReplayMode      bool
	Shard, NShards  int // this process handles indices i with i % NShards == Shard in ForEach

	start time.Time

	mu        sync.Mutex
	counters  map[string]*atomic.Int64
	distinct  map[string]*distinctSet
	samples   []json.RawMessage
	nSampled  int64
	viol      []Violation
	nViol     atomic.Int64
	violSigs  map[string]int
	known     map[string]int64
	knownWhat map[string]string
	inconcl   []string
	notes     []string

	knownFile *KnownFindings
	outPath   string
}

// NewCtx builds a context for one phase.
func NewCtx(id, phase, tier string, seed int64, outPath string) *Ctx {
	w := runtime.NumCPU()
	if v := os.Getenv("VERIF_WORKERS"); v != "" {
		fmt.Sscan(v, &w)
	}
	if w < 1 {
		w = 1
	}
	c := &Ctx{
		ID: id, Phase: phase, Tier: tier, Seed: seed,
		Thorough:  tier == "thorough",
		Workers:   w,
		NShards:   1,
		WorkDir:   filepath.Join(Root, "work", id),
		start:     time.Now(),
		counters:  map[string]*atomic.Int64{},
		distinct:  map[string]*distinctSet{},
		violSigs:  map[string]int{},
		known:     map[string]int64{},
		knownWhat: map[string]string{},
		outPath:   outPath,
	}
	os.MkdirAll(c.WorkDir, 0o755)
	kf, err := LoadKnownFindings(filepath.Join(Root, "KNOWN_FINDINGS.txt"))
	if err != nil {
		c.Inconclusive("cannot read KNOWN_FINDINGS.txt: " + err.Error())
		kf = &KnownFindings{}
	}
	c.knownFile = kf
	return c
}

// Pick returns q for the quick tier and t for the thorough tier.
func (c *Ctx) Pick(q, t int) int {
	if c.Thorough {
		return t
	}
	return q
}

// Rand derives a PRNG stream for this property/phase.
func (c *Ctx) Rand(ids ...uint64) *Rand {
	h := fnv.New64a()
	h.Write([]byte(c.ID + "/" + c.Phase))
	return NewRand(c.Seed, append([]uint64{h.Sum64()}, ids...)...)
}

// Counter returns the named coverage counter.
func (c *Ctx) Counter(name string) *atomic.Int64 {
	c.mu.Lock()
	defer c.mu.Unlock()
	p := c.counters[name]
	if p == nil {
		p = new(atomic.Int64)
		c.counters[name] = p
	}
	return p
}

// Add adds n to the named counter.
func (c *Ctx) Add(name string, n int64) { c.Counter(name).Add(n) }

// Max raises the named counter to at least n.
func (c *Ctx) Max(name string, n int64) {
	p := c.Counter(name)
	for {
		old := p.Load()
		if n <= old || p.CompareAndSwap(old, n) {
			return
		}
	}
}

func (c *Ctx) set(name string) *distinctSet {
	c.mu.Lock()
	defer c.mu.Unlock()
	d := c.distinct[name]
	if d == nil {
		d = &distinctSet{}
		c.distinct[name] = d
	}
	return d
}

// DistinctSet returns a handle on a named set of 64-bit case hashes.
type DistinctSet struct{ d *distinctSet }

func (c *Ctx) DistinctSet(name string) DistinctSet { return DistinctSet{c.set(name)} }

func (s DistinctSet) AddHash(h uint64) { s.d.add(h) }
func (s DistinctSet) AddString(k string) {
	h := fnv.New64a()
	h.Write([]byte(k))
	s.d.add(h.Sum64())
}
func (s DistinctSet) AddBytes(k []byte) {
	h := fnv.New64a()
	h.Write(k)
	s.d.add(h.Sum64())
}
func (s DistinctSet) Len() int64 { return s.d.n.Load() }

// Nontrivial records one distinct non-trivial case (by key) in the headline set.
func (c *Ctx) Nontrivial(key string) { c.DistinctSet("nontrivial").AddString(key) }

// Sample keeps a few actual cases for the evidence file (first ones, then
// occasional replacement so late cases appear as well).
func (c *Ctx) Sample(v any) {
	n := atomic.AddInt64(&c.nSampled, 1)
	if n > maxSamples && n%9973 != 0 {
		return
	}
	b, err := json.Marshal(v)
	if err != nil {
		return
	}
	if len(b) > 4096 {
		b, _ = json.Marshal(string(b[:4000]) + "…(truncated)")
	}
	c.mu.Lock()
	if len(c.samples) < maxSamples {
		c.samples = append(c.samples, b)
	} else {
		c.samples[int(n/9973)%maxSamples] = b
	}
	c.mu.Unlock()
}

// WantSample says whether a Sample call would currently store anything (to
// avoid building expensive sample values).
func (c *Ctx) WantSample() bool {
	n := atomic.LoadInt64(&c.nSampled) + 1
	return n <= maxSamples || n%9973 == 0
}

// Violation records a refutation. If the signature is listed in
// KNOWN_FINDINGS.txt for this property it is counted as a known finding
// instead. kase is the replay payload (any JSON-marshalable value).
func (c *Ctx) Violation(sig, what string, kase any) {
	if k, ok := c.knownFile.Match(c.ID, sig); ok {
		c.mu.Lock()
		c.known[sig]++
		if _, seen := c.knownWhat[sig]; !seen {
			c.knownWhat[sig] = k.What
		}
		c.mu.Unlock()
		return
	}
	c.nViol.Add(1)
	c.mu.Lock()
	defer c.mu.Unlock()
	c.violSigs[sig]++
	// keep the first few, but at most 3 per signature so distinct classes show
	if len(c.viol) >= maxStoredViolations || c.violSigs[sig] > 3 {
		return
	}
	var raw json.RawMessage
	if kase != nil {
		if b, err := json.Marshal(kase); err == nil {
			raw = b
		} else {
			raw, _ = json.Marshal(fmt.Sprintf("unmarshalable case: %v", err))
		}
	}
	if len(what) > 2000 {
		what = what[:2000] + "…"
	}
	c.viol = append(c.viol, Violation{Sig: sig, What: what, Case: raw})
	if c.ReplayMode {
		fmt.Printf("replay: VIOLATION reproduced sig=%s %s\n", sig, what)
	}
}

// Violations returns the number of (unknown) violations so far.
func (c *Ctx) Violations() int64 { return c.nViol.Load() }

// Inconclusive marks the phase as inconclusive (never folded into held/violated).
func (c *Ctx) Inconclusive(reason string) {
	c.mu.Lock()
	c.inconcl = append(c.inconcl, reason)
	c.mu.Unlock()
}

// Note attaches free text to the evidence.
func (c *Ctx) Note(format string, a ...any) {
	c.mu.Lock()
	if len(c.notes) < 40 {
		c.notes = append(c.notes, fmt.Sprintf(format, a...))
	}
	c.mu.Unlock()
}

// Require marks the run inconclusive when a class of events that the oracle
// needs was never observed ("observed nothing" is not "held").
func (c *Ctx) Require(counter string, min int64) {
	if got := c.Counter(counter).Load(); got < min {
		c.Inconclusive(fmt.Sprintf("coverage counter %s=%d < %d: required class of events not observed", counter, got, min))
	}
}

// Parallel runs fn(worker) on Workers goroutines and waits. A panic escaping
// fn is reported as an "unexpected panic in harness or library" violation.
func (c *Ctx) Parallel(fn func(w int)) { c.ParallelN(c.Workers, fn) }

func (c *Ctx) ParallelN(n int, fn func(w int)) {
	var wg sync.WaitGroup
	for w := 0; w < n; w++ {
		wg.Add(1)
		go func(w int) {
			defer wg.Done()
			defer func() {
				if p := recover(); p != nil {
					c.Violation("unexpected-panic", fmt.Sprintf("panic escaped worker %d: %v\n%s", w, p, trimStack(debug.Stack())), nil)
				}
			}()
			fn(w)
		}(w)
	}
	wg.Wait()
}

// ForEach distributes the index range [0,n) over the workers in chunks;
// fn receives the worker id and the index.
func (c *Ctx) ForEach(n int, fn func(w, i int)) {
	var next atomic.Int64
	chunk := int64(64)
	if int64(n) < chunk*int64(c.Workers)*4 {
		chunk = 1
	}
	c.Parallel(func(w int) {
		for {
			lo := int(next.Add(chunk) - chunk)
			if lo >= n {
				return
			}
			hi := lo + int(chunk)
			if hi > n {
				hi = n
			}
			for i := lo; i < hi; i++ {
				if c.NShards > 1 && i%c.NShards != c.Shard {
					continue
				}
				fn(w, i)
			}
		}
	})
}

// Try runs f and converts a panic into a value + trimmed stack.
func Try(f func()) (pv any, stack string) {
	defer func() {
		if p := recover(); p != nil {
			pv = p
			stack = trimStack(debug.Stack())
		}
	}()
	f()
	return nil, ""
}

func trimStack(b []byte) string {
	s := string(b)
	if len(s) > 3000 {
		s = s[:3000] + "\n…"
	}
	return s
}

// PanicSite extracts a stable signature "file.go:func" of the first
// go-libaudit frame below the panic in a stack trace.
func PanicSite(stack string) string {
	lines := strings.Split(stack, "\n")
	seenPanic := false
	for i := 0; i+1 < len(lines); i++ {
		l := lines[i]
		if strings.HasPrefix(l, "panic(") || strings.Contains(l, "runtime.panic") || strings.Contains(l, "runtime.goPanic") || strings.Contains(l, "runtime.sigpanic") {
			seenPanic = true
			continue
		}
		if !seenPanic {
			continue
		}
		if strings.Contains(l, "go-libaudit") || strings.Contains(l, "/repo/") {
			fn := l
			if k := strings.LastIndex(fn, "/"); k >= 0 {
				fn = fn[k+1:]
			}
			if k := strings.Index(fn, "("); k > 0 {
				// strip argument list, keep receiver parens like (*T)
				if j := strings.LastIndex(fn, "("); j > 0 && !strings.HasPrefix(fn[j:], "(*") {
					fn = fn[:j]
				}
			}
			return fn
		}
	}
	return "unknown-site"
}

// Finish writes the phase result file.
func (c *Ctx) Finish() {
	r := Result{
		Property: c.ID, Phase: c.Phase, Tier: c.Tier, Seed: c.Seed,
		Counters: map[string]int64{}, Distinct: map[string]int64{},
		Samples: c.samples, Violations: c.viol, NViolations: c.nViol.Load(),
		Known: c.known, KnownWhat: c.knownWhat, Inconcl: c.inconcl, Notes: c.notes,
		WallS: time.Since(c.start).Seconds(), Done: true,
	}
	c.mu.Lock()
	r.SigCounts = map[string]int64{}
	for k, v := range c.violSigs {
		r.SigCounts[k] = int64(v)
	}
	for k, v := range c.counters {
		r.Counters[k] = v.Load()
	}
	for k, v := range c.distinct {
		r.Distinct[k] = v.n.Load()
		if v.n.Load() >= distinctCap {
			r.Notes = append(r.Notes, fmt.Sprintf("distinct set %q reached the cap of %d entries: the reported count is a lower bound", k, distinctCap))
		}
	}
	c.mu.Unlock()
	if c.outPath == "" {
		return
	}
	b, _ := json.MarshalIndent(r, "", " ")
	tmp := c.outPath + ".tmp"
	if err := os.WriteFile(tmp, b, 0o644); err == nil {
		os.Rename(tmp, c.outPath)
	}
}

// SortedKeys is a small helper for deterministic output.
func SortedKeys[V any](m map[string]V) []string {
	ks := make([]string, 0, len(m))
	for k := range m {
		ks = append(ks, k)
	}
	sort.Strings(ks)
	return ks
}
