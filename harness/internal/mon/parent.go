package mon

import (
	"bytes"
	"context"
	"encoding/json"
	"fmt"
	"os"
	"os/exec"
	"path/filepath"
	"regexp"
	"sort"
	"strings"
	"sync"
	"syscall"
	"time"
)

// PhaseSpec describes one child process of a check.
type PhaseSpec struct {
	Name       string
	Flavour    string        // plain | race | asan
	UlimitVKB  int64         // ulimit -v for the child (0 = none)
	SecondPass bool          // re-runs cases of another phase under a sanitizer: not added to the headline distinct count
	Timeout    time.Duration // wall-clock watchdog (firing = inconclusive)
	Env        []string
	Shards     int // >1: the phase is run as this many concurrent child processes (--shard i/n), results merged
}

// CheckSpec is the registration record of one property's check.
type CheckSpec struct {
	ID          string
	Level       string // evidence "level"
	Rule        string // how cases are generated and what counts as distinct / non-trivial
	Assumptions []string
	Exhaustive  bool
	Phases      func(tier string) []PhaseSpec
	Run         func(c *Ctx)                       // child entry, dispatches on c.Phase
	Replay      func(c *Ctx, kase json.RawMessage) // re-executes one recorded case through the same oracle
	// ReplayInflight re-executes an input recovered from the in-flight slots after a fatal crash.
	ReplayInflight func(c *Ctx, rec InflightRecord)
}

// ReplayFile is the on-disk replay format.
type ReplayFile struct {
	Property string           `json:"property"`
	Phase    string           `json:"phase"`
	Flavour  string           `json:"flavour"`
	Tier     string           `json:"tier"`
	Seed     int64            `json:"seed"`
	Sig      string           `json:"sig"`
	What     string           `json:"what"`
	Case     json.RawMessage  `json:"case,omitempty"`
	Inflight []InflightRecord `json:"inflight,omitempty"`
	Log      string           `json:"log,omitempty"`
}

func binFor(flavour string) string {
	if v := os.Getenv("VCHECK_BIN_" + strings.ToUpper(flavour)); v != "" {
		return v
	}
	return filepath.Join(Root, "work", "bin", "vcheck-"+flavour)
}

var raceHdr = regexp.MustCompile(`(?m)^WARNING: DATA RACE`)

// RunCheck is the parent side: run every phase as a child process, merge the
// results, write the evidence file, print the verdict lines and return the
// exit code (0 held, 1 violated, 2 inconclusive).
func RunCheck(spec *CheckSpec, tier string, seed int64) int {
	start := time.Now()
	workDir := filepath.Join(Root, "work", spec.ID)
	os.MkdirAll(workDir, 0o755)
	os.MkdirAll(filepath.Join(Root, "replays"), 0o755)
	os.MkdirAll(filepath.Join(Root, "evidence"), 0o755)

	merged := Result{Property: spec.ID, Tier: tier, Seed: seed,
		Counters: map[string]int64{}, Distinct: map[string]int64{}, Known: map[string]int64{}, KnownWhat: map[string]string{}, SigCounts: map[string]int64{}}
	var headlineDistinct int64
	phaseWall := map[string]float64{}
	var phaseNames []string
	kf, _ := LoadKnownFindings(filepath.Join(Root, "KNOWN_FINDINGS.txt"))
	if kf == nil {
		kf = &KnownFindings{}
	}

	addViolation := func(phase PhaseSpec, v Violation, inflight []InflightRecord, log string) {
		if k, ok := kf.Match(spec.ID, v.Sig); ok {
			merged.Known[v.Sig]++
			merged.KnownWhat[v.Sig] = k.What
			return
		}
		merged.NViolations++
		if len(merged.Violations) >= 3*maxStoredViolations {
			return
		}
		n := len(merged.Violations) + 1
		path := filepath.Join(Root, "replays", fmt.Sprintf("%s-%d-%d.json", spec.ID, seed, n))
		rf := ReplayFile{Property: spec.ID, Phase: phase.Name, Flavour: phase.Flavour, Tier: tier, Seed: seed,
			Sig: v.Sig, What: v.What, Case: v.Case, Inflight: inflight, Log: log}
		b, _ := json.MarshalIndent(rf, "", " ")
		os.WriteFile(path, b, 0o644)
		v.Replay = path
		v.Case = nil
		merged.Violations = append(merged.Violations, v)
	}

	type childOut struct {
		res      Result
		err      error
		timedOut bool
		logTail  string
		logPath  string
		timeout  time.Duration
		shard    int
		tag      string
	}
	runChild := func(ph PhaseSpec, shard, nshards int) childOut {
		tag := ph.Name
		if nshards > 1 {
			tag = fmt.Sprintf("%s.%d", ph.Name, shard)
		}
		out := filepath.Join(workDir, tag+".result.json")
		logPath := filepath.Join(workDir, tag+".log")
		os.Remove(out)
		os.Remove(inflightPath(workDir, tag))
		bin := binFor(ph.Flavour)
		args := []string{"child", spec.ID, ph.Name, "--tier", tier, "--seed", fmt.Sprint(seed), "--out", out, "--shard", fmt.Sprint(shard), "--nshards", fmt.Sprint(nshards)}
		timeout := ph.Timeout
		if timeout == 0 {
			timeout = 20 * time.Minute
			if tier == "thorough" {
				timeout = 90 * time.Minute
			}
		}
		ctx, cancel := context.WithTimeout(context.Background(), timeout)
		defer cancel()
		var cmd *exec.Cmd
		if ph.UlimitVKB > 0 {
			sh := fmt.Sprintf("ulimit -v %d; exec \"$0\" \"$@\"", ph.UlimitVKB)
			cmd = exec.CommandContext(ctx, "/bin/bash", append([]string{"-c", sh, bin}, args...)...)
		} else {
			cmd = exec.CommandContext(ctx, bin, args...)
		}
		cmd.Cancel = func() error { return cmd.Process.Signal(syscall.SIGQUIT) } // goroutine dump into the log
		cmd.WaitDelay = 20 * time.Second
		cmd.Env = append(os.Environ(), ph.Env...)
		cmd.Env = append(cmd.Env, "VERIF_ROOT="+Root)
		if ph.Flavour == "race" {
			cmd.Env = append(cmd.Env, "GORACE=halt_on_error=0 history_size=3 log_path="+filepath.Join(workDir, ph.Name+".race"))
		}
		if ph.Flavour == "asan" {
			cmd.Env = append(cmd.Env, "ASAN_OPTIONS=detect_leaks=0:abort_on_error=0:halt_on_error=1")
		}
		logf, _ := os.Create(logPath)
		cmd.Stdout, cmd.Stderr = logf, logf
		err := cmd.Run()
		logf.Close()
		co := childOut{tag: tag, err: err, timedOut: ctx.Err() == context.DeadlineExceeded, logPath: logPath, timeout: timeout, shard: shard}
		if b, rerr := os.ReadFile(out); rerr == nil {
			json.Unmarshal(b, &co.res)
		}
		co.logTail = tailFile(logPath, 6000)
		return co
	}

	for _, ph := range spec.Phases(tier) {
		phaseNames = append(phaseNames, ph.Name)
		os.Remove(inflightPath(workDir, ph.Name))
		raceGlob := filepath.Join(workDir, ph.Name+".race")
		if old, _ := filepath.Glob(raceGlob + "*"); len(old) > 0 {
			for _, f := range old {
				os.Remove(f)
			}
		}
		nshards := ph.Shards
		if nshards < 1 {
			nshards = 1
		}
		t0 := time.Now()
		outs := make([]childOut, nshards)
		var swg sync.WaitGroup
		for sh := 0; sh < nshards; sh++ {
			swg.Add(1)
			go func(sh int) { defer swg.Done(); outs[sh] = runChild(ph, sh, nshards) }(sh)
		}
		swg.Wait()
		phaseWall[ph.Name] = time.Since(t0).Seconds()
		var logTail string
		for _, co := range outs {
			res, err, timedOut, timeout, logPath := co.res, co.err, co.timedOut, co.timeout, co.logPath
			logTail = co.logTail

			if res.Done {
				for k, v := range res.Counters {
					if strings.HasPrefix(k, "max_") {
						if v > merged.Counters[ph.Name+"."+k] {
							merged.Counters[ph.Name+"."+k] = v
						}
					} else {
						merged.Counters[ph.Name+"."+k] += v
					}
					if k == "evaluations" {
						merged.Counters["evaluations"] += v
					}
				}
				for k, v := range res.Distinct {
					merged.Distinct[ph.Name+"."+k] += v
					if k == "nontrivial" && !ph.SecondPass {
						headlineDistinct += v
					}
				}
				if len(merged.Samples) < 2*maxSamples {
					merged.Samples = append(merged.Samples, res.Samples...)
				}
				for _, v := range res.Violations {
					addViolation(ph, v, nil, "")
				}
				if extra := res.NViolations - int64(len(res.Violations)); extra > 0 {
					merged.NViolations += extra
				}
				for k, v := range res.SigCounts {
					merged.SigCounts[k] += v
				}
				for k, v := range res.Known {
					merged.Known[k] += v
					merged.KnownWhat[k] = res.KnownWhat[k]
				}
				for _, s := range res.Inconcl {
					merged.Inconcl = append(merged.Inconcl, ph.Name+": "+s)
				}
				for _, s := range res.Notes {
					merged.Notes = append(merged.Notes, ph.Name+": "+s)
				}
				if err != nil {
					// finished its work but exited non-zero (e.g. race detector exit code): reports are counted below
					merged.Notes = append(merged.Notes, fmt.Sprintf("%s: child exit: %v", ph.Name, err))
				}
			} else if timedOut {
				merged.Inconcl = append(merged.Inconcl, fmt.Sprintf("%s: wall-clock watchdog (%s) fired; goroutine dump in %s", ph.Name, timeout, logPath))
			} else {
				// The child died without a result: fatal runtime error / sanitizer report / OOM / startup panic.
				sig := "fatal:" + ph.Name + ":" + fatalSignature(logTail)
				if strings.Contains(sig, "harness-setup") {
					merged.Inconcl = append(merged.Inconcl, fmt.Sprintf("%s: child could not start: %v: %s", ph.Name, err, lastLines(logTail, 5)))
				} else {
					inflight := ReadInflight(workDir, co.tag)
					addViolation(ph, Violation{Sig: sig, What: fmt.Sprintf("child process died (%v) in phase %s; %d in-flight inputs recovered; log tail: %s", err, ph.Name, len(inflight), lastLines(logTail, 12))}, inflight, logTail)
				}
			}

		} // shards

		// Race reports (counted from the log files; the exit code is not trusted).
		if ph.Flavour == "race" {
			files, _ := filepath.Glob(raceGlob + "*")
			seen := map[string]bool{}
			var nReports int64
			for _, f := range files {
				b, _ := os.ReadFile(f)
				blocks := splitRaceBlocks(string(b))
				for _, blk := range blocks {
					nReports++
					sg := raceSignature(blk)
					if seen[sg] {
						continue
					}
					seen[sg] = true
					addViolation(ph, Violation{Sig: "race:" + sg, What: "DATA RACE reported by the Go race detector:\n" + clip(blk, 1800)}, nil, clip(blk, 6000))
				}
			}
			merged.Counters[ph.Name+".race_reports"] = nReports
			merged.Counters[ph.Name+".race_reports_distinct"] = int64(len(seen))
			// Reports printed to stderr when log_path could not be opened
			if n := len(raceHdr.FindAllStringIndex(logTail, -1)); n > 0 && nReports == 0 {
				addViolation(ph, Violation{Sig: "race:in-log", What: "DATA RACE in child log:\n" + clip(logTail, 1800)}, nil, logTail)
			}
		}
	}

	// ---- evidence ----
	cov := map[string]any{}
	for k, v := range merged.Counters {
		cov[k] = v
	}
	for k, v := range merged.Distinct {
		cov["distinct."+k] = v
	}
	cov["evaluations"] = merged.Counters["evaluations"]
	cov["distinct_nontrivial"] = headlineDistinct
	cov["rule"] = spec.Rule
	samples := make([]any, 0, len(merged.Samples))
	for _, s := range merged.Samples {
		var v any
		if json.Unmarshal(s, &v) == nil {
			samples = append(samples, v)
		}
	}
	cov["samples"] = samples
	cov["phases"] = phaseNames
	cov["phase_wall_s"] = phaseWall
	if spec.Exhaustive {
		cov["exhaustive"] = true
	}
	if len(merged.Notes) > 0 {
		cov["notes"] = merged.Notes
	}
	if len(merged.Inconcl) > 0 {
		cov["inconclusive"] = merged.Inconcl
	}
	knownList := []string{}
	for _, k := range SortedKeys(merged.Known) {
		knownList = append(knownList, fmt.Sprintf("%s (seen %d×): %s", k, merged.Known[k], merged.KnownWhat[k]))
	}
	cov["known_findings_seen"] = knownList
	var vsum []map[string]string
	for _, v := range merged.Violations {
		vsum = append(vsum, map[string]string{"sig": v.Sig, "what": clip(v.What, 400), "replay": v.Replay})
	}
	if len(vsum) > 0 {
		cov["violation_witnesses"] = vsum
	}
	if len(merged.SigCounts) > 0 {
		cov["violation_signature_counts"] = merged.SigCounts
	}
	verdict := "held"
	if merged.NViolations > 0 {
		verdict = "violated"
	} else if len(merged.Inconcl) > 0 {
		verdict = "inconclusive"
	}
	cov["verdict"] = verdict
	ev := map[string]any{
		"property_id": spec.ID,
		"tier":        tier,
		"seed":        seed,
		"level":       spec.Level,
		"coverage":    cov,
		"assumptions": spec.Assumptions,
		"wall_s":      time.Since(start).Seconds(),
		"violations":  merged.NViolations,
	}
	b, _ := json.MarshalIndent(ev, "", " ")
	evPath := filepath.Join(Root, "evidence", spec.ID+".json")
	os.WriteFile(evPath+".tmp", b, 0o644)
	os.Rename(evPath+".tmp", evPath)

	// ---- verdict lines ----
	for _, k := range SortedKeys(merged.Known) {
		fmt.Printf("KNOWN-FINDING: property=%s sig=%s %s (seen %d times in this run)\n", spec.ID, k, merged.KnownWhat[k], merged.Known[k])
	}
	for _, v := range merged.Violations {
		fmt.Printf("VIOLATION property=%s replay=%s\n", spec.ID, v.Replay)
		fmt.Printf("  sig=%s: %s\n", v.Sig, clip(strings.ReplaceAll(v.What, "\n", "\n    "), 1500))
	}
	if extra := merged.NViolations - int64(len(merged.Violations)); extra > 0 {
		fmt.Printf("  (+%d further violations not stored individually)\n", extra)
	}
	if len(merged.SigCounts) > 0 {
		type kv struct {
			k string
			v int64
		}
		var kvs []kv
		for k, v := range merged.SigCounts {
			kvs = append(kvs, kv{k, v})
		}
		sort.Slice(kvs, func(i, j int) bool { return kvs[i].v > kvs[j].v || (kvs[i].v == kvs[j].v && kvs[i].k < kvs[j].k) })
		fmt.Printf("  violation signatures (%d distinct):", len(kvs))
		for i, e := range kvs {
			if i >= 60 {
				break
			}
			fmt.Printf(" %s=%d", e.k, e.v)
		}
		fmt.Println()
	}
	for _, s := range merged.Inconcl {
		fmt.Printf("INCONCLUSIVE property=%s reason=%s\n", spec.ID, s)
	}
	ks := []string{}
	for k := range merged.Counters {
		ks = append(ks, k)
	}
	sort.Strings(ks)
	var sb strings.Builder
	for _, k := range ks {
		fmt.Fprintf(&sb, " %s=%d", k, merged.Counters[k])
	}
	fmt.Printf("%s %s tier=%s seed=%d verdict=%s evaluations=%d distinct_nontrivial=%d violations=%d known=%d wall=%.1fs\n  counters:%s\n",
		spec.ID, "summary", tier, seed, verdict, merged.Counters["evaluations"], headlineDistinct, merged.NViolations, len(merged.Known), time.Since(start).Seconds(), sb.String())
	switch verdict {
	case "violated":
		return 1
	case "inconclusive":
		return 2
	}
	return 0
}

func clip(s string, n int) string {
	if len(s) > n {
		return s[:n] + "…"
	}
	return s
}

func tailFile(path string, n int) string {
	b, err := os.ReadFile(path)
	if err != nil {
		return ""
	}
	// prefer the region around the first fatal marker
	for _, m := range []string{"fatal error:", "==ERROR: AddressSanitizer", "panic:", "runtime: out of memory", "unexpected fault address"} {
		if i := bytes.Index(b, []byte(m)); i >= 0 {
			lo := i - 300
			if lo < 0 {
				lo = 0
			}
			hi := i + n
			if hi > len(b) {
				hi = len(b)
			}
			return string(b[lo:hi])
		}
	}
	if len(b) > n {
		b = b[len(b)-n:]
	}
	return string(b)
}

func lastLines(s string, n int) string {
	ls := strings.Split(strings.TrimSpace(s), "\n")
	if len(ls) > n {
		ls = ls[:n]
	}
	return strings.Join(ls, " | ")
}

var (
	reHex  = regexp.MustCompile(`0x[0-9a-f]+`)
	reNum  = regexp.MustCompile(`\d+`)
	reLine = regexp.MustCompile(`:\d+`)
	reArgs = regexp.MustCompile(`\([^()]*\)$`)
)

func fatalSignature(log string) string {
	if strings.Contains(log, "harness-setup:") {
		return "harness-setup"
	}
	for _, l := range strings.Split(log, "\n") {
		l = strings.TrimSpace(l)
		for _, m := range []string{"fatal error:", "==ERROR: AddressSanitizer:", "panic:", "runtime: out of memory", "signal: killed"} {
			if i := strings.Index(l, m); i >= 0 {
				s := l[i:]
				s = reHex.ReplaceAllString(s, "X")
				s = reNum.ReplaceAllString(s, "N")
				s = strings.ReplaceAll(s, " ", "_")
				return clip(s, 80)
			}
		}
	}
	return "no-result"
}

func splitRaceBlocks(s string) []string {
	var out []string
	idx := raceHdr.FindAllStringIndex(s, -1)
	for i, m := range idx {
		end := len(s)
		if i+1 < len(idx) {
			end = idx[i+1][0]
		}
		out = append(out, s[m[0]:end])
	}
	return out
}

// raceSignature = the two access stacks' top go-libaudit (or harness) frames with line numbers stripped.
func raceSignature(blk string) string {
	var fr []string
	lines := strings.Split(blk, "\n")
	inAccess := false
	taken := false
	for _, l := range lines {
		t := strings.TrimSpace(l)
		if strings.HasPrefix(t, "Write at") || strings.HasPrefix(t, "Read at") || strings.HasPrefix(t, "Previous write at") || strings.HasPrefix(t, "Previous read at") || strings.HasPrefix(t, "Atomic") || strings.HasPrefix(t, "Previous atomic") {
			inAccess, taken = true, false
			continue
		}
		if strings.HasPrefix(t, "Goroutine") {
			inAccess = false
		}
		if inAccess && !taken && t != "" && !strings.HasPrefix(t, "/") && !strings.HasPrefix(t, "runtime.") {
			fn := reArgs.ReplaceAllString(t, "")
			fn = reLine.ReplaceAllString(fn, "")
			fr = append(fr, fn)
			taken = true
		}
	}
	sort.Strings(fr)
	return clip(strings.Join(fr, "~"), 160)
}
