package mon

import (
	"encoding/binary"
	"fmt"
	"os"
	"path/filepath"
	"syscall"
)

// Inflight is a file-backed shared mapping with one slot per worker. A worker
// copies the input of the call it is about to make into its slot; if the
// process dies from a fatal runtime error (OOM, checkptr, concurrent map
// access, ASan report) the parent can still attribute the crash to an input.
type Inflight struct {
	mem   []byte
	slots int
	size  int
}

const inflightSlotSize = 192 << 10

func inflightPath(workDir, phase string) string {
	return filepath.Join(workDir, phase+".inflight")
}

// NewInflight creates the mapping for the current phase.
func (c *Ctx) NewInflight() *Inflight {
	n := c.Workers
	if n < 64 {
		n = 64
	}
	name := c.Phase
	if c.NShards > 1 {
		name = fmt.Sprintf("%s.%d", c.Phase, c.Shard)
	}
	p := inflightPath(c.WorkDir, name)
	f, err := os.OpenFile(p, os.O_RDWR|os.O_CREATE|os.O_TRUNC, 0o644)
	if err != nil {
		return &Inflight{}
	}
	defer f.Close()
	total := n * inflightSlotSize
	if err := f.Truncate(int64(total)); err != nil {
		return &Inflight{}
	}
	mem, err := syscall.Mmap(int(f.Fd()), 0, total, syscall.PROT_READ|syscall.PROT_WRITE, syscall.MAP_SHARED)
	if err != nil {
		return &Inflight{}
	}
	return &Inflight{mem: mem, slots: n, size: inflightSlotSize}
}

// Set publishes the input of worker w's next call (tag distinguishes call kinds).
func (f *Inflight) Set(w int, tag byte, parts ...[]byte) {
	if f.mem == nil || w >= f.slots {
		return
	}
	s := f.mem[w*f.size : (w+1)*f.size]
	off := 8
	for _, p := range parts {
		if off+4+len(p) > len(s) {
			break
		}
		binary.LittleEndian.PutUint32(s[off:], uint32(len(p)))
		copy(s[off+4:], p)
		off += 4 + len(p)
	}
	s[4] = tag
	binary.LittleEndian.PutUint32(s[0:], uint32(off)) // written last: marks the slot valid
}

// Clear marks worker w as idle.
func (f *Inflight) Clear(w int) {
	if f.mem == nil || w >= f.slots {
		return
	}
	binary.LittleEndian.PutUint32(f.mem[w*f.size:], 0)
}

// InflightRecord is one recovered slot.
type InflightRecord struct {
	Worker int      `json:"worker"`
	Tag    byte     `json:"tag"`
	Parts  [][]byte `json:"parts"`
}

// ReadInflight recovers the non-idle slots after a crash.
func ReadInflight(workDir, phase string) []InflightRecord {
	b, err := os.ReadFile(inflightPath(workDir, phase))
	if err != nil {
		return nil
	}
	var out []InflightRecord
	for w := 0; (w+1)*inflightSlotSize <= len(b); w++ {
		s := b[w*inflightSlotSize : (w+1)*inflightSlotSize]
		end := int(binary.LittleEndian.Uint32(s))
		if end <= 8 || end > len(s) {
			continue
		}
		rec := InflightRecord{Worker: w, Tag: s[4]}
		for off := 8; off+4 <= end; {
			n := int(binary.LittleEndian.Uint32(s[off:]))
			if off+4+n > end {
				break
			}
			rec.Parts = append(rec.Parts, append([]byte(nil), s[off+4:off+4+n]...))
			off += 4 + n
		}
		out = append(out, rec)
	}
	return out
}
