package mon

import (
	"os"
	"runtime/debug"
	"syscall"
)

// Guard is a buffer whose end coincides with a PROT_NONE page: a read past the
// end of a slice placed in it faults. With debug.SetPanicOnFault(true) in the
// calling goroutine the fault becomes a recoverable panic that can be
// attributed to the exact input (checkptr misses such over-reads because of
// size-class rounding).
type Guard struct {
	mem  []byte
	data int // usable bytes before the guard page
}

// NewGuard maps a guarded buffer able to hold maxLen bytes.
func NewGuard(maxLen int) *Guard {
	ps := os.Getpagesize()
	pages := (maxLen+ps-1)/ps + 1
	mem, err := syscall.Mmap(-1, 0, (pages+1)*ps, syscall.PROT_READ|syscall.PROT_WRITE, syscall.MAP_ANON|syscall.MAP_PRIVATE)
	if err != nil {
		return nil
	}
	if err := syscall.Mprotect(mem[pages*ps:], syscall.PROT_NONE); err != nil {
		return nil
	}
	return &Guard{mem: mem, data: pages * ps}
}

// Place copies b so that it ends exactly at the guard page and returns the
// placed slice (len == cap). A zero-length input yields a zero-length slice
// whose base address is the guard page itself.
func (g *Guard) Place(b []byte) []byte {
	if g == nil || len(b) > g.data {
		return b
	}
	off := g.data - len(b)
	copy(g.mem[off:g.data], b)
	return g.mem[off:g.data:g.data]
}

func setPanicOnFault() { debug.SetPanicOnFault(true) }
