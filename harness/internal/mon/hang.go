package mon

import (
	"fmt"
	"os"
	"runtime"
	"sync"
	"sync/atomic"
	"time"
)

// HangWatch is the hang monitor: each worker publishes the logical start of
// the call it is making; a supervisor declares a hang when one call has not
// returned within the limit, reports it (with the input), dumps all stacks
// into the child log, writes the phase result and ends the process (a stuck
// goroutine cannot be killed).
type HangWatch struct {
	c      *Ctx
	limit  time.Duration
	starts []atomic.Int64
	inputs []atomic.Value
	stop   chan struct{}
	once   sync.Once
	// AsViolation: a hang is a violation for properties whose statement says
	// "always terminates" (C05, C13); elsewhere it is inconclusive.
	AsViolation bool
}

func (c *Ctx) NewHangWatch(limit time.Duration, asViolation bool) *HangWatch {
	n := c.Workers
	if n < 64 {
		n = 64
	}
	h := &HangWatch{c: c, limit: limit, starts: make([]atomic.Int64, n), inputs: make([]atomic.Value, n), stop: make(chan struct{}), AsViolation: asViolation}
	go h.loop()
	return h
}

func (h *HangWatch) Begin(w int, input any) {
	h.inputs[w].Store(&input)
	h.starts[w].Store(time.Now().UnixNano())
}

func (h *HangWatch) End(w int) { h.starts[w].Store(0) }

func (h *HangWatch) Stop() { h.once.Do(func() { close(h.stop) }) }

func (h *HangWatch) loop() {
	t := time.NewTicker(time.Second)
	defer t.Stop()
	for {
		select {
		case <-h.stop:
			return
		case <-t.C:
		}
		now := time.Now().UnixNano()
		for w := range h.starts {
			s := h.starts[w].Load()
			if s == 0 || time.Duration(now-s) < h.limit {
				continue
			}
			var in any
			if p, ok := h.inputs[w].Load().(*any); ok {
				in = *p
			}
			buf := make([]byte, 1<<20)
			buf = buf[:runtime.Stack(buf, true)]
			fmt.Fprintf(os.Stderr, "HANG: worker %d has been inside one call for %s\n%s\n", w, time.Duration(now-s), buf)
			what := fmt.Sprintf("one call did not return within %s (normal cost is microseconds); input: %.600v", h.limit, in)
			if h.AsViolation {
				h.c.Violation("hang", what, in)
			} else {
				h.c.Inconclusive("hang monitor fired: " + what)
			}
			h.c.Finish()
			os.Exit(0)
		}
	}
}
