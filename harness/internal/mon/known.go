package mon

import (
	"bufio"
	"os"
	"strings"
)

// KnownEntry is one `known:` line of KNOWN_FINDINGS.txt.
type KnownEntry struct {
	Property string
	Sig      string
	What     string
}

// KnownFindings is the parsed, committed, never-written-at-run-time list.
// Lines:
//
//	known: property=<id> sig=<signature> <what fails>
//	fixed: property=<id> <commit> <what failed>       (suppresses nothing)
type KnownFindings struct {
	Known []KnownEntry
	Fixed []string
}

func LoadKnownFindings(path string) (*KnownFindings, error) {
	f, err := os.Open(path)
	if err != nil {
		if os.IsNotExist(err) {
			return &KnownFindings{}, nil
		}
		return nil, err
	}
	defer f.Close()
	k := &KnownFindings{}
	sc := bufio.NewScanner(f)
	sc.Buffer(make([]byte, 1<<20), 1<<20)
	for sc.Scan() {
		line := strings.TrimSpace(sc.Text())
		switch {
		case strings.HasPrefix(line, "known:"):
			rest := strings.TrimSpace(strings.TrimPrefix(line, "known:"))
			fs := strings.SplitN(rest, " ", 3)
			if len(fs) < 2 || !strings.HasPrefix(fs[0], "property=") || !strings.HasPrefix(fs[1], "sig=") {
				continue
			}
			e := KnownEntry{Property: strings.TrimPrefix(fs[0], "property="), Sig: strings.TrimPrefix(fs[1], "sig=")}
			if len(fs) == 3 {
				e.What = fs[2]
			}
			k.Known = append(k.Known, e)
		case strings.HasPrefix(line, "fixed:"):
			k.Fixed = append(k.Fixed, line)
		}
	}
	return k, sc.Err()
}

// Match reports whether (property, sig) is listed. Signatures match exactly.
func (k *KnownFindings) Match(property, sig string) (KnownEntry, bool) {
	for _, e := range k.Known {
		if e.Property == property && e.Sig == sig {
			return e, true
		}
	}
	return KnownEntry{}, false
}
