package mon

// Rand is a SplitMix64 generator. Every stream is a pure function of
// (seed, stream ids), so case lists depend only on VERIF_SEED and the tier.
type Rand struct{ s uint64 }

func mix(z uint64) uint64 {
	z += 0x9e3779b97f4a7c15
	z = (z ^ (z >> 30)) * 0xbf58476d1ce4e5b9
	z = (z ^ (z >> 27)) * 0x94d049bb133111eb
	return z ^ (z >> 31)
}

// NewRand derives an independent stream from a seed and a list of stream ids.
func NewRand(seed int64, ids ...uint64) *Rand {
	s := mix(uint64(seed) ^ 0x5bf03635f0935ad1)
	for _, id := range ids {
		s = mix(s ^ mix(id+0x1234567))
	}
	return &Rand{s: s}
}

func (r *Rand) Uint64() uint64 {
	r.s += 0x9e3779b97f4a7c15
	z := r.s
	z = (z ^ (z >> 30)) * 0xbf58476d1ce4e5b9
	z = (z ^ (z >> 27)) * 0x94d049bb133111eb
	return z ^ (z >> 31)
}

// Fork derives an independent stream from the current state without advancing it.
func (r *Rand) Fork(id uint64) *Rand { return &Rand{s: mix(r.s ^ mix(id+0x7654321))} }

func (r *Rand) Uint32() uint32 { return uint32(r.Uint64() >> 32) }

// Intn returns a value in [0,n). n must be > 0.
func (r *Rand) Intn(n int) int {
	if n <= 1 {
		return 0
	}
	return int(r.Uint64() % uint64(n))
}

func (r *Rand) Int63n(n int64) int64 {
	if n <= 1 {
		return 0
	}
	return int64(r.Uint64() % uint64(n))
}

// Range returns a value in [lo,hi] inclusive.
func (r *Rand) Range(lo, hi int) int { return lo + r.Intn(hi-lo+1) }

func (r *Rand) Bool() bool { return r.Uint64()&1 == 1 }

// Chance returns true with probability num/den.
func (r *Rand) Chance(num, den int) bool { return r.Intn(den) < num }

func (r *Rand) Bytes(n int) []byte {
	b := make([]byte, n)
	for i := 0; i < n; i += 8 {
		v := r.Uint64()
		for j := 0; j < 8 && i+j < n; j++ {
			b[i+j] = byte(v >> (8 * j))
		}
	}
	return b
}

// State returns the internal state (for replay files).
func (r *Rand) State() uint64 { return r.s }

// Pick returns a random element of xs.
func Pick[T any](r *Rand, xs []T) T { return xs[r.Intn(len(xs))] }

// Shuffle permutes xs in place.
func Shuffle[T any](r *Rand, xs []T) {
	for i := len(xs) - 1; i > 0; i-- {
		j := r.Intn(i + 1)
		xs[i], xs[j] = xs[j], xs[i]
	}
}
