package mon

import (
	"os"
	"path/filepath"
	"testing"
)

func TestKnownFindings(t *testing.T) {
	dir := t.TempDir()
	p := filepath.Join(dir, "K.txt")
	os.WriteFile(p, []byte("# c\nknown: property=C16 sig=const:LogOnFailure=0 wrong number\nfixed: property=C16 abc123 something\nknown: property=C07 sig=x y z\n"), 0o644)
	k, err := LoadKnownFindings(p)
	if err != nil || len(k.Known) != 2 || len(k.Fixed) != 1 {
		t.Fatalf("%+v %v", k, err)
	}
	if _, ok := k.Match("C16", "const:LogOnFailure=0"); !ok {
		t.Fatal("listed finding not matched")
	}
	if _, ok := k.Match("C16", "const:PanicOnFailure=0"); ok {
		t.Fatal("a different signature of the same property must not match")
	}
	if _, ok := k.Match("C08", "const:LogOnFailure=0"); ok {
		t.Fatal("another property must not match")
	}
}

func TestRaceLogParsing(t *testing.T) {
	log := "==================\nWARNING: DATA RACE\nWrite at 0x00c0 by goroutine 9:\n  github.com/elastic/go-libaudit/v2.(*eventList).Put()\n      /repo/reassembler.go:280 +0x1\n\nPrevious read at 0x00c0 by goroutine 8:\n  github.com/elastic/go-libaudit/v2.(*eventList).CleanUp()\n      /repo/reassembler.go:310 +0x2\n\nGoroutine 9 (running) created at:\n  main.x()\n==================\n==================\nWARNING: DATA RACE\nRead at 0x1 by goroutine 3:\n  a.b()\n\nPrevious write at 0x1 by goroutine 4:\n  c.d()\n==================\n"
	blocks := splitRaceBlocks(log)
	if len(blocks) != 2 {
		t.Fatalf("%d blocks", len(blocks))
	}
	s := raceSignature(blocks[0])
	if s != "github.com/elastic/go-libaudit/v2.(*eventList).CleanUp~github.com/elastic/go-libaudit/v2.(*eventList).Put" {
		t.Fatalf("signature %q", s)
	}
	if fatalSignature("x\nfatal error: concurrent map writes\n") != "fatal_error:_concurrent_map_writes" {
		t.Fatal(fatalSignature("x\nfatal error: concurrent map writes\n"))
	}
}

func TestGuardPage(t *testing.T) {
	g := NewGuard(100)
	b := g.Place([]byte("hello"))
	if string(b) != "hello" || cap(b) != 5 {
		t.Fatalf("%q cap %d", b, cap(b))
	}
	p, _ := Try(func() {
		// reading one byte past the end must fault (turned into a panic)
		setPanicOnFault()
		_ = b[:6:6]
	})
	if p == nil {
		t.Fatal("slicing past capacity did not panic")
	}
}
