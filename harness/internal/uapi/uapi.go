// Package uapi holds constants and struct offsets written by hand from
// include/uapi/linux/audit.h. They are the independent reference for the
// wire-format oracles (C06, C16, C20). The package test compares them with
// /usr/include/linux/audit.h through a small C program when clang and the
// header are present; a failure there is a broken oracle, not a violation.
package uapi

// Filter lists (AUDIT_FILTER_*).
const (
	FilterUser    = 0
	FilterTask    = 1
	FilterEntry   = 2
	FilterWatch   = 3
	FilterExit    = 4
	FilterExclude = 5
	FilterFS      = 6
)

var Lists = map[string]uint32{"user": FilterUser, "task": FilterTask, "exit": FilterExit, "exclude": FilterExclude}

// Actions (AUDIT_NEVER / POSSIBLE / ALWAYS).
const (
	ActionNever    = 0
	ActionPossible = 1
	ActionAlways   = 2
)

var Actions = map[string]uint32{"never": ActionNever, "always": ActionAlways}

// Rule fields (AUDIT_PID ...), keyed by the auditctl field name.
var Fields = map[string]uint32{
	"pid": 0, "uid": 1, "euid": 2, "suid": 3, "fsuid": 4, "gid": 5, "egid": 6, "sgid": 7, "fsgid": 8,
	"auid": 9, "pers": 10, "arch": 11, "msgtype": 12,
	"subj_user": 13, "subj_role": 14, "subj_type": 15, "subj_sen": 16, "subj_clr": 17,
	"ppid": 18, "obj_user": 19, "obj_role": 20, "obj_type": 21, "obj_lev_low": 22, "obj_lev_high": 23,
	"devmajor": 100, "devminor": 101, "inode": 102, "exit": 103, "success": 104,
	"path": 105, "perm": 106, "dir": 107, "filetype": 108, "obj_uid": 109, "obj_gid": 110,
	"exe": 112, "saddr_fam": 113,
	"a0": 200, "a1": 201, "a2": 202, "a3": 203,
	"key": 210,
}

const (
	FieldCompare   = 111
	FieldFilterKey = 210
	FieldSessionID = 25
	FieldFSType    = 26
	FieldLoginSet  = 24
)

// StringFields are the fields whose value is a length into the string buffer.
var StringFields = map[uint32]bool{13: true, 14: true, 15: true, 16: true, 17: true, 19: true, 20: true, 21: true, 22: true, 23: true, 105: true, 107: true, 112: true, 210: true}

// Operators (AUDIT_BIT_MASK ...), keyed by the auditctl spelling.
var Operators = map[string]uint32{
	"&": 0x08000000, "<": 0x10000000, ">": 0x20000000, "!=": 0x30000000, "=": 0x40000000,
	"&=": 0x48000000, "<=": 0x50000000, ">=": 0x60000000,
}

// Comparisons (AUDIT_COMPARE_*): unordered field pair -> code.
type Pair struct{ A, B string }

var Comparisons = map[Pair]uint32{
	{"uid", "obj_uid"}: 1, {"gid", "obj_gid"}: 2, {"euid", "obj_uid"}: 3, {"egid", "obj_gid"}: 4,
	{"auid", "obj_uid"}: 5, {"suid", "obj_uid"}: 6, {"sgid", "obj_gid"}: 7, {"fsuid", "obj_uid"}: 8, {"fsgid", "obj_gid"}: 9,
	{"uid", "auid"}: 10, {"uid", "euid"}: 11, {"uid", "fsuid"}: 12, {"uid", "suid"}: 13,
	{"auid", "fsuid"}: 14, {"auid", "suid"}: 15, {"auid", "euid"}: 16,
	{"euid", "suid"}: 17, {"euid", "fsuid"}: 18, {"suid", "fsuid"}: 19,
	{"gid", "egid"}: 20, {"gid", "fsgid"}: 21, {"gid", "sgid"}: 22,
	{"egid", "fsgid"}: 23, {"egid", "sgid"}: 24, {"sgid", "fsgid"}: 25,
}

// Comparison looks a pair up in either order.
func Comparison(a, b string) (uint32, bool) {
	if c, ok := Comparisons[Pair{a, b}]; ok {
		return c, true
	}
	c, ok := Comparisons[Pair{b, a}]
	return c, ok
}

// Permission bits (AUDIT_PERM_*).
var Perms = map[byte]uint32{'x': 1, 'w': 2, 'r': 4, 'a': 8}

// File types (S_IF*) by auditctl name.
var Filetypes = map[string]uint32{"file": 0o100000, "dir": 0o040000, "socket": 0o140000, "symlink": 0o120000, "char": 0o020000, "block": 0o060000, "fifo": 0o010000}

// Audit architectures (AUDIT_ARCH_*), a hand-written subset.
var Arches = map[string]uint32{
	"x86_64": 0xC000003E, "i386": 0x40000003, "aarch64": 0xC00000B7, "arm": 0x40000028,
	"ppc": 0x00000014, "ppc64": 0x80000015, "ppc64le": 0xC0000015, "s390": 0x00000016, "s390x": 0x80000016,
	"ia64": 0xC0000032, "mips": 0x00000008, "mipsel": 0x40000008, "sparc": 0x00000002, "sparc64": 0x8000002B,
	"riscv64": 0xC00000F3, "loongarch64": 0xC0000102, "armeb": 0x00000028, "mips64": 0x80000008, "mipsel64": 0xC0000008,
	"parisc": 0x0000000F, "parisc64": 0x8000000F, "sh": 0x0000002A, "alpha": 0xC0009026, "m68k": 0x00000004,
}

// audit_rule_data layout.
const (
	RuleOffFlags      = 0
	RuleOffAction     = 4
	RuleOffFieldCount = 8
	RuleOffMask       = 12
	RuleOffFields     = 268
	RuleOffValues     = 524
	RuleOffFieldFlags = 780
	RuleOffBufLen     = 1036
	RuleOffBuf        = 1040
	RuleMaxFields     = 64
	RuleMaskWords     = 64
	KeySeparator      = 0x01
	MaxKeyLen         = 256
)

// audit_status layout.
const (
	StatusOffMask                  = 0
	StatusOffEnabled               = 4
	StatusOffFailure               = 8
	StatusOffPID                   = 12
	StatusOffRateLimit             = 16
	StatusOffBacklogLimit          = 20
	StatusOffLost                  = 24
	StatusOffBacklog               = 28
	StatusOffFeatureBitmap         = 32
	StatusOffBacklogWaitTime       = 36
	StatusOffBacklogWaitTimeActual = 40
	StatusSize                     = 44
	StatusMinSize                  = 32 // 2.6.32: through 'backlog'
)

// Status mask bits (AUDIT_STATUS_*).
const (
	StatusEnabled               = 0x0001
	StatusFailure               = 0x0002
	StatusPID                   = 0x0004
	StatusRateLimit             = 0x0008
	StatusBacklogLimit          = 0x0010
	StatusBacklogWaitTime       = 0x0020
	StatusLost                  = 0x0040
	StatusBacklogWaitTimeActual = 0x0080
)

// Feature bitmap (AUDIT_FEATURE_BITMAP_*).
const (
	FeatureBacklogLimit    = 0x01
	FeatureBacklogWaitTime = 0x02
	FeatureExecutablePath  = 0x04
	FeatureExcludeExtend   = 0x08
	FeatureSessionIDFilter = 0x10
	FeatureLostReset       = 0x20
	FeatureFilterFS        = 0x40
)

// Failure modes (AUDIT_FAIL_*).
const (
	FailSilent = 0
	FailPrintk = 1
	FailPanic  = 2
)

// Message types used by the client.
const (
	MsgGet       = 1000
	MsgSet       = 1001
	MsgAddRule   = 1011
	MsgDelRule   = 1012
	MsgListRules = 1013
	NlmsgError   = 2
	NlmsgDone    = 3
	NlmFRequest  = 1
	NlmFMulti    = 2
	NlmFAck      = 4
	NlmsgHdrLen  = 16
)

// A few record types from linux/audit.h used as an independent spot table.
var MsgTypes = map[string]uint32{
	"USER_AUTH": 1100, "USER_ACCT": 1101, "USER_LOGIN": 1112, "USER_CMD": 1123, "USER_TTY": 1124,
	"DAEMON_START": 1200, "SYSCALL": 1300, "PATH": 1302, "CONFIG_CHANGE": 1305, "SOCKADDR": 1306, "CWD": 1307,
	"EXECVE": 1309, "EOE": 1320, "SECCOMP": 1326, "PROCTITLE": 1327, "AVC": 1400, "ANOM_PROMISCUOUS": 1700, "KERNEL": 2000,
	"LOGIN": 1006, "TTY": 1319, "NETFILTER_CFG": 1325, "MMAP": 1323, "ANOM_ABEND": 1701, "INTEGRITY_DATA": 1800,
}
