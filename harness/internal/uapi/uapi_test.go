package uapi

import (
	"fmt"
	"os"
	"os/exec"
	"path/filepath"
	"strconv"
	"strings"
	"testing"
)

// TestAgainstSystemHeader compiles a small C program against
// /usr/include/linux/audit.h and compares every constant and offset it prints
// with the hand-written tables.
func TestAgainstSystemHeader(t *testing.T) {
	if _, err := os.Stat("/usr/include/linux/audit.h"); err != nil {
		t.Skip("no linux/audit.h")
	}
	cc, err := exec.LookPath("clang")
	if err != nil {
		if cc, err = exec.LookPath("gcc"); err != nil {
			t.Skip("no C compiler")
		}
	}
	var sb strings.Builder
	sb.WriteString("#include <stdio.h>\n#include <stddef.h>\n#include <sys/stat.h>\n#include <linux/audit.h>\n#include <linux/netlink.h>\nint main(void){\n")
	emit := func(name, expr string) {
		fmt.Fprintf(&sb, "printf(\"%s %%lu\\n\", (unsigned long)(%s));\n", name, expr)
	}
	want := map[string]uint64{}
	add := func(name, expr string, v uint64) { emit(name, expr); want[name] = v }
	cname := map[string]string{"auid": "LOGINUID", "subj_sen": "SUBJ_SEN", "subj_clr": "SUBJ_CLR", "path": "WATCH", "key": "FILTERKEY", "a0": "ARG0", "a1": "ARG1", "a2": "ARG2", "a3": "ARG3"}
	for n, v := range Fields {
		c, ok := cname[n]
		if !ok {
			c = strings.ToUpper(n)
		}
		add("field_"+n, "AUDIT_"+c, uint64(v))
	}
	add("field_compare", "AUDIT_FIELD_COMPARE", FieldCompare)
	ops := map[string]string{"&": "BIT_MASK", "<": "LESS_THAN", ">": "GREATER_THAN", "!=": "NOT_EQUAL", "=": "EQUAL", "&=": "BIT_TEST", "<=": "LESS_THAN_OR_EQUAL", ">=": "GREATER_THAN_OR_EQUAL"}
	for o, c := range ops {
		add("op_"+c, "AUDIT_"+c, uint64(Operators[o]))
	}
	up := map[string]string{"auid": "AUID"}
	for p, v := range Comparisons {
		a, b := strings.ToUpper(p.A), strings.ToUpper(p.B)
		if x, ok := up[p.A]; ok {
			a = x
		}
		if x, ok := up[p.B]; ok {
			b = x
		}
		add("cmp_"+a+"_"+b, "AUDIT_COMPARE_"+a+"_TO_"+b, uint64(v))
	}
	add("list_user", "AUDIT_FILTER_USER", FilterUser)
	add("list_task", "AUDIT_FILTER_TASK", FilterTask)
	add("list_exit", "AUDIT_FILTER_EXIT", FilterExit)
	add("list_exclude", "AUDIT_FILTER_EXCLUDE", FilterExclude)
	add("act_never", "AUDIT_NEVER", ActionNever)
	add("act_always", "AUDIT_ALWAYS", ActionAlways)
	add("perm_x", "AUDIT_PERM_EXEC", 1)
	add("perm_w", "AUDIT_PERM_WRITE", 2)
	add("perm_r", "AUDIT_PERM_READ", 4)
	add("perm_a", "AUDIT_PERM_ATTR", 8)
	ft := map[string]string{"file": "S_IFREG", "dir": "S_IFDIR", "socket": "S_IFSOCK", "symlink": "S_IFLNK", "char": "S_IFCHR", "block": "S_IFBLK", "fifo": "S_IFIFO"}
	for n, c := range ft {
		add("ft_"+n, c, uint64(Filetypes[n]))
	}
	for n, c := range map[string]string{"x86_64": "X86_64", "i386": "I386", "aarch64": "AARCH64", "arm": "ARM", "ppc": "PPC", "ppc64": "PPC64", "ppc64le": "PPC64LE", "s390": "S390", "s390x": "S390X", "ia64": "IA64", "mips": "MIPS", "mipsel": "MIPSEL", "sparc": "SPARC", "sparc64": "SPARC64", "armeb": "ARMEB", "mips64": "MIPS64", "mipsel64": "MIPSEL64", "parisc": "PARISC", "parisc64": "PARISC64", "sh": "SH", "alpha": "ALPHA", "m68k": "M68K"} {
		add("arch_"+n, "AUDIT_ARCH_"+c, uint64(Arches[n]))
	}
	for n, v := range map[string]uint64{"flags": RuleOffFlags, "action": RuleOffAction, "field_count": RuleOffFieldCount, "mask": RuleOffMask, "fields": RuleOffFields, "values": RuleOffValues, "fieldflags": RuleOffFieldFlags, "buflen": RuleOffBufLen, "buf": RuleOffBuf} {
		add("rule_off_"+n, "offsetof(struct audit_rule_data, "+n+")", v)
	}
	add("rule_max_fields", "AUDIT_MAX_FIELDS", RuleMaxFields)
	add("rule_mask_words", "AUDIT_BITMASK_SIZE", RuleMaskWords)
	add("max_key_len", "AUDIT_MAX_KEY_LEN", MaxKeyLen)
	for n, v := range map[string]uint64{"mask": StatusOffMask, "enabled": StatusOffEnabled, "failure": StatusOffFailure, "pid": StatusOffPID, "rate_limit": StatusOffRateLimit, "backlog_limit": StatusOffBacklogLimit, "lost": StatusOffLost, "backlog": StatusOffBacklog, "feature_bitmap": StatusOffFeatureBitmap, "backlog_wait_time": StatusOffBacklogWaitTime} {
		add("status_off_"+n, "offsetof(struct audit_status, "+n+")", v)
	}
	for n, v := range map[string]uint64{"ENABLED": StatusEnabled, "FAILURE": StatusFailure, "PID": StatusPID, "RATE_LIMIT": StatusRateLimit, "BACKLOG_LIMIT": StatusBacklogLimit, "BACKLOG_WAIT_TIME": StatusBacklogWaitTime, "LOST": StatusLost} {
		add("status_"+n, "AUDIT_STATUS_"+n, v)
	}
	for n, v := range map[string]uint64{"BACKLOG_LIMIT": FeatureBacklogLimit, "BACKLOG_WAIT_TIME": FeatureBacklogWaitTime, "EXECUTABLE_PATH": FeatureExecutablePath, "EXCLUDE_EXTEND": FeatureExcludeExtend, "SESSIONID_FILTER": FeatureSessionIDFilter, "LOST_RESET": FeatureLostReset} {
		add("feature_"+n, "AUDIT_FEATURE_BITMAP_"+n, v)
	}
	add("fail_silent", "AUDIT_FAIL_SILENT", FailSilent)
	add("fail_printk", "AUDIT_FAIL_PRINTK", FailPrintk)
	add("fail_panic", "AUDIT_FAIL_PANIC", FailPanic)
	add("msg_get", "AUDIT_GET", MsgGet)
	add("msg_set", "AUDIT_SET", MsgSet)
	add("msg_add_rule", "AUDIT_ADD_RULE", MsgAddRule)
	add("msg_del_rule", "AUDIT_DEL_RULE", MsgDelRule)
	add("msg_list_rules", "AUDIT_LIST_RULES", MsgListRules)
	add("nlmsg_error", "NLMSG_ERROR", NlmsgError)
	add("nlmsg_done", "NLMSG_DONE", NlmsgDone)
	add("nlm_f_request", "NLM_F_REQUEST", NlmFRequest)
	add("nlm_f_ack", "NLM_F_ACK", NlmFAck)
	add("nlmsg_hdrlen", "NLMSG_HDRLEN", NlmsgHdrLen)
	userSpaceOnly := 0
	for n, v := range MsgTypes {
		// record types defined only in user space (libaudit.h) are not in the kernel header
		fmt.Fprintf(&sb, "#ifdef AUDIT_%s\n", n)
		emit("type_"+n, "AUDIT_"+n)
		fmt.Fprintf(&sb, "#else\nprintf(\"type_%s absent\\n\");\n#endif\n", n)
		want["type_"+n] = uint64(v)
	}
	sb.WriteString("return 0;}\n")
	dir := t.TempDir()
	src := filepath.Join(dir, "u.c")
	os.WriteFile(src, []byte(sb.String()), 0o644)
	bin := filepath.Join(dir, "u")
	if out, err := exec.Command(cc, "-o", bin, src).CombinedOutput(); err != nil {
		t.Fatalf("compile: %v\n%s", err, out)
	}
	out, err := exec.Command(bin).Output()
	if err != nil {
		t.Fatal(err)
	}
	n := 0
	for _, l := range strings.Split(strings.TrimSpace(string(out)), "\n") {
		f := strings.Fields(l)
		if f[1] == "absent" {
			userSpaceOnly++
			n++
			continue
		}
		v, _ := strconv.ParseUint(f[1], 10, 64)
		if w, ok := want[f[0]]; !ok || w != v {
			t.Errorf("%s: header says %d, hand-written table says %d", f[0], v, w)
		}
		n++
	}
	if n != len(want) {
		t.Errorf("%d constants printed, %d expected", n, len(want))
	}
	if userSpaceOnly > 8 {
		t.Errorf("%d record types missing from the header", userSpaceOnly)
	}
	t.Logf("%d constants and offsets agree with /usr/include/linux/audit.h", n)
}
