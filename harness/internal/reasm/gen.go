package reasm

import (
	"verifharness/internal/mon"
)

// Window is the width of the sort window named in the properties (2^24-1).
const Window = 1<<24 - 1

var (
	nonCompleting = []uint16{1300, 1302, 1307, 1309, 1306, 1400, 1305, 2099, 1326, 1328, 1300, 1302}
	completing    = []uint16{1327, 1112, 1100, 1006, 1299, 2100, 2200, 65535, 0, 1327}
	maxChoices    = []int{0, 1, 2, 3, 5, 8, 64}
)

// GenOpts tunes the random generator.
type GenOpts struct {
	MaxOps  int
	Timeout int64 // ns; 0 means "1 hour"
	// Reentrant adds calls made from inside Stream callbacks to half of the histories (C01 only).
	Reentrant bool
	// AfterClose appends further pushes / Maintain / Close after the Close in a fifth of the histories.
	AfterClose bool
}

// Random builds one seeded history that ends with Close.
func Random(r *mon.Rand, o GenOpts) *History {
	h := &History{MaxInFlight: mon.Pick(r, maxChoices), TimeoutNs: o.Timeout}
	if h.TimeoutNs == 0 {
		// "cannot elapse during the run": an hour, or one of the far-future values whose sum with the current
		// time does not fit 63 bits of nanoseconds (100 / 250 years, the largest Duration)
		h.TimeoutNs = mon.Pick(r, []int64{3600e9, 3600e9, 3600e9, 3600e9, 100 * 365 * 24 * 3600e9, 250 * 365 * 24 * 3600e9, 1<<63 - 1})
	}
	switch r.Intn(6) {
	case 0:
		h.Base = 1
	case 1:
		h.Base = 0
	case 2:
		h.Base = 0xFFFFFFFF - 5 // straddles 2^32-1 -> 0
	case 3:
		h.Base = 0xFFFFFFFF - uint32(r.Intn(12))
	case 4:
		h.Base = r.Uint32()
	default:
		h.Base = uint32(r.Intn(5000))
	}
	// live offsets inside one window
	nseq := r.Range(2, 8)
	offs := make([]uint32, 0, nseq)
	span := 12
	if r.Chance(1, 5) {
		span = 40
	}
	for len(offs) < nseq {
		var o uint32
		switch {
		case r.Chance(1, 12):
			o = Window - uint32(r.Intn(4)) // the far edge of the window (difference exactly 2^24-1 from the base)
		case r.Chance(1, 30):
			o = uint32(r.Intn(Window))
		default:
			o = uint32(r.Intn(span))
		}
		offs = append(offs, o)
	}
	// an eighth of the histories use two clusters of sequence numbers that are FAR apart (more than the sort window
	// in both directions, no 2^32 wrap inside a cluster): by the roll-over rule the numerically higher cluster is
	// the older one.  The base is the start of the higher cluster, so offsets from it still give the order.  (The
	// distance exceeds the window by a margin: with clusters exactly one window apart some pairs are near and some
	// far and the documented order is not transitive.)  Decided on a forked stream: the other histories of a seed
	// are unchanged.
	if fr := r.Fork(77); fr.Chance(1, 8) {
		d := mon.Pick(fr, []uint32{Window + 1024, 1 << 25, 1 << 28, 1 << 30, 1 << 31, 1<<31 + 12345, 3 << 30, 0xFFFFFFFF - 4096, uint32(Window+1024) + uint32(fr.Intn(1<<30))})
		h.Base = d + 64 + uint32(fr.Int63n(int64(0xFFFFFFFF-1024-d-64)))
		for i := range offs {
			if offs[i] >= 64 {
				offs[i] %= 40
			}
			if fr.Chance(1, 2) {
				offs[i] += -d // the lower cluster: Base - d + small
			}
		}
		h.Far = true
	}
	// optionally a mostly-ascending stream (like the kernel) with disorder
	ascending := r.Chance(1, 2)
	n := r.Range(1, o.MaxOps)
	cursor := 0
	for len(h.Ops) < n {
		x := r.Intn(100)
		switch {
		case x < 4:
			h.Ops = append(h.Ops, Op{Kind: OpMaintain})
		case x < 6:
			h.Ops = append(h.Ops, Op{Kind: OpPushNil})
		case x < 8:
			h.Ops = append(h.Ops, Op{Kind: OpPushBad, Seq: h.Base + mon.Pick(r, offs), Type: 1300})
		default:
			var off uint32
			if ascending && r.Chance(3, 4) {
				if r.Chance(1, 3) && cursor < 200 {
					cursor += r.Range(1, 3)
				}
				off = uint32(cursor)
				if r.Chance(1, 6) && cursor > 0 {
					off = uint32(cursor - r.Range(1, min(cursor, 4)))
				}
			} else {
				off = mon.Pick(r, offs)
			}
			op := Op{Kind: OpPushMsg, Seq: h.Base + off}
			if r.Chance(1, 7) {
				op.Kind = OpPushRaw
			}
			y := r.Intn(100)
			switch {
			case y < 18:
				// any type strictly between the two completing ranges
				op.Type = uint16(r.Range(1300, 2099))
				if op.Type == TypeEOE || op.Type == TypeProctitle {
					op.Type = 1300
				}
			case y < 58:
				op.Type = mon.Pick(r, nonCompleting)
			case y < 76:
				op.Type = mon.Pick(r, completing)
			case y < 80:
				// any type inside the completing ranges
				if r.Bool() {
					op.Type = uint16(r.Range(0, 1299))
				} else {
					op.Type = uint16(r.Range(2100, 65535))
				}
			default:
				op.Type = TypeEOE
			}
			h.Ops = append(h.Ops, op)
			// now and then the same record text arrives twice in a row for one event (a distinct message)
			if fr := r.Fork(uint64(1000 + len(h.Ops))); op.Kind == OpPushMsg && op.Type != TypeEOE && fr.Chance(1, 12) {
				h.Ops = append(h.Ops, Op{Kind: OpPushMsg, Seq: op.Seq, Type: op.Type, Twin: true})
			}
		}
	}
	h.Ops = append(h.Ops, Op{Kind: OpClose})
	if o.AfterClose && r.Chance(1, 5) {
		// the caller keeps using the Reassembler after Close: pushes are ordinary pushes, Maintain and Close refuse
		for i, n := 0, r.Range(1, 10); i < n; i++ {
			switch x := r.Intn(10); {
			case x < 7:
				op := Op{Kind: OpPushMsg, Seq: h.Base + mon.Pick(r, offs)}
				switch y := r.Intn(10); {
				case y < 6:
					op.Type = mon.Pick(r, nonCompleting)
				case y < 8:
					op.Type = mon.Pick(r, completing)
				default:
					op.Type = TypeEOE
				}
				h.Ops = append(h.Ops, op)
			case x < 9:
				h.Ops = append(h.Ops, Op{Kind: OpMaintain})
			default:
				h.Ops = append(h.Ops, Op{Kind: OpClose})
			}
		}
	}
	if o.Reentrant && len(h.Ops) > 0 && h.Ops[len(h.Ops)-1].Kind == OpClose && r.Chance(1, 2) {
		// calls made from inside Stream callbacks: Maintain, or a push of a FRESH sequence number
		// (never one that is in flight, so "still buffered" is unambiguous)
		for i, n := 0, r.Range(1, 4); i < n; i++ {
			ro := ReOp{At: r.Intn(2*len(h.Ops)/3 + 1)}
			if r.Chance(1, 3) {
				ro.Op = Op{Kind: OpMaintain}
			} else {
				ro.Op = Op{Kind: OpPushMsg, Seq: h.Base + 1000 + uint32(i), Type: mon.Pick(r, []uint16{1300, 1327, 1302, 1112})}
			}
			h.Reenter = append(h.Reenter, ro)
		}
	}
	// a separate stream so that the histories themselves stay what they were
	if r.Fork(77).Chance(1, 6) {
		h.ZeroTS = true
	}
	return h
}

func min(a, b int) int {
	if a < b {
		return a
	}
	return b
}

// SmallScopeCount returns the number of histories EnumerateSmall(maxLen) yields
// per (base, maxInFlight) configuration.
func SmallScopeCount(maxLen int) int {
	n, p := 0, 1
	for l := 0; l <= maxLen; l++ {
		n += p
		p *= 10
	}
	return n
}

// smallAlphabet: 3 sequences (offsets 0,1,3: adjacent pair and a gap) x
// {non-completing, completing, EOE} + Maintain.
func smallSymbol(base uint32, s int) Op {
	if s == 9 {
		return Op{Kind: OpMaintain}
	}
	offs := [3]uint32{0, 1, 3}
	types := [3]uint16{1300, 1327, TypeEOE}
	return Op{Kind: OpPushMsg, Seq: base + offs[s/3], Type: types[s%3]}
}

// SmallHistory decodes the idx-th history of exactly length l (idx in [0,10^l)).
func SmallHistory(base uint32, maxInFlight, l int, idx int) *History {
	h := &History{MaxInFlight: maxInFlight, TimeoutNs: int64(3600e9), Base: base}
	for i := 0; i < l; i++ {
		h.Ops = append(h.Ops, smallSymbol(base, idx%10))
		idx /= 10
	}
	h.Ops = append(h.Ops, Op{Kind: OpClose})
	return h
}
