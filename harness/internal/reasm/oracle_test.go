package reasm

import (
	"strings"
	"testing"
)

// Hand-made traces: the oracles must accept the good ones and name the defect in the bad ones.

func hist(max int, ops ...Op) *History {
	return &History{MaxInFlight: max, TimeoutNs: int64(3600e9), Base: 1, Ops: ops}
}

func push(seq uint32, typ uint16) Op { return Op{Kind: OpPushMsg, Seq: seq, Type: typ} }

func del(ids []int, seq uint32, typ uint16) CB {
	cb := CB{Lost: -1}
	for _, id := range ids {
		cb.IDs = append(cb.IDs, id)
		cb.Seqs = append(cb.Seqs, seq)
		cb.Types = append(cb.Types, typ)
	}
	return cb
}

func sigs(fs []Finding) string {
	var s []string
	for _, f := range fs {
		s = append(s, f.Prop+":"+f.Sig)
	}
	return strings.Join(s, ",")
}

var all = Which{C01: true, C02: true, C03: true, C10: true}

func TestGoodTraceAccepted(t *testing.T) {
	// 10 (2 records, completes) ; 12 buffered ; 11 late? no: 12 then close. gap 11 lost.
	h := hist(5, push(10, 1300), push(10, 1327), push(12, 1300), Op{Kind: OpClose})
	tr := &Trace{H: h, Steps: []Step{
		{},
		{CBs: []CB{del([]int{0, 1}, 10, 1300)}},
		{},
		{CBs: []CB{del([]int{2}, 12, 1300), {Lost: 1}}},
	}}
	tr.Steps[1].CBs[0].Types = []uint16{1300, 1327}
	if fs, _ := Check(tr, all); len(fs) != 0 {
		t.Fatalf("good trace rejected: %s", sigs(fs))
	}
}

func TestRealExecutionAccepted(t *testing.T) {
	h := hist(1, push(5, 1300), push(7, 1300), push(6, 1300), push(5, 1302), push(9, 1327), Op{Kind: OpMaintain}, Op{Kind: OpClose})
	tr := Execute(h, ExecOpts{Snapshot: true})
	if fs, cl := Check(tr, all); len(fs) != 0 || cl.Deliveries == 0 {
		t.Fatalf("real execution rejected: %s (deliveries %d)", sigs(fs), cl.Deliveries)
	}
}

func TestBadTraces(t *testing.T) {
	cases := []struct {
		name  string
		h     *History
		steps []Step
		want  string
	}{
		{"duplicate delivery", hist(5, push(10, 1327), Op{Kind: OpClose}),
			[]Step{{CBs: []CB{del([]int{0}, 10, 1327)}}, {CBs: []CB{del([]int{0}, 10, 1327)}}}, "C01:delivery-of-unbuffered"},
		{"lost at close", hist(5, push(10, 1300), Op{Kind: OpClose}), []Step{{}, {}}, "C01:lost-at-close"},
		{"split event", hist(5, push(10, 1300), push(10, 1302), Op{Kind: OpClose}),
			[]Step{{}, {}, {CBs: []CB{del([]int{0}, 10, 1300), del([]int{1}, 10, 1302)}}}, "C01:split-or-partial"},
		{"reordered records", hist(5, push(10, 1300), push(10, 1302), Op{Kind: OpClose}),
			[]Step{{}, {}, {CBs: []CB{{Lost: -1, IDs: []int{1, 0}, Seqs: []uint32{10, 10}, Types: []uint16{1302, 1300}}}}}, "C01:reordered-within-event"},
		{"fabricated", hist(5, push(10, 1327)), []Step{{CBs: []CB{{Lost: -1, IDs: []int{-1}, Seqs: []uint32{10}, Types: []uint16{1327}}}}}, "C01:fabricated-message"},
		{"mixed sequences", hist(5, push(10, 1300), push(11, 1300), Op{Kind: OpClose}),
			[]Step{{}, {}, {CBs: []CB{{Lost: -1, IDs: []int{0, 1}, Seqs: []uint32{10, 11}, Types: []uint16{1300, 1300}}}}}, "C01:mixed-sequences"},
		{"out of order at close", hist(5, push(10, 1300), push(11, 1300), Op{Kind: OpClose}),
			[]Step{{}, {}, {CBs: []CB{del([]int{1}, 11, 1300), del([]int{0}, 10, 1300)}}}, "C02:"},
		{"loss not reported", hist(5, push(10, 1327), push(13, 1327)),
			[]Step{{CBs: []CB{del([]int{0}, 10, 1327)}}, {CBs: []CB{del([]int{1}, 13, 1327)}}}, "C03:lost-not-reported"},
		{"loss reported one call late", hist(5, push(10, 1327), push(13, 1327), Op{Kind: OpMaintain}),
			[]Step{{CBs: []CB{del([]int{0}, 10, 1327)}}, {CBs: []CB{del([]int{1}, 13, 1327)}}, {CBs: []CB{{Lost: 2}}}}, "C03:lost-not-reported"},
		{"late event counted", hist(0, push(10, 1300), push(5, 1300)),
			[]Step{{CBs: []CB{del([]int{0}, 10, 1300)}}, {CBs: []CB{del([]int{1}, 5, 1300), {Lost: 4294967290}}}}, "C03:lost-spurious"},
		{"zero count", hist(5, push(10, 1327), push(11, 1327)),
			[]Step{{CBs: []CB{del([]int{0}, 10, 1327)}}, {CBs: []CB{del([]int{1}, 11, 1327), {Lost: 0}}}}, "C03:lost-nonpositive"},
		{"evicted without cause", hist(5, push(10, 1300)), []Step{{CBs: []CB{del([]int{0}, 10, 1300)}}}, "C10:evicted-without-cause"},
		{"over bound", hist(1, push(10, 1300), push(11, 1300)), []Step{{}, {}}, "C10:over-bound"},
		{"complete head kept", hist(5, push(10, 1327)), []Step{{}}, "C10:complete-head-retained"},
	}
	for _, c := range cases {
		tr := &Trace{H: c.h, Steps: c.steps}
		fs, _ := Check(tr, all)
		if !strings.Contains(sigs(fs), c.want) {
			t.Errorf("%s: findings %q do not contain %q", c.name, sigs(fs), c.want)
		}
	}
}

func TestBracketedExpiry(t *testing.T) {
	ms := int64(1e6)
	h := &History{MaxInFlight: 5, TimeoutNs: 5 * ms, Base: 1, Ops: []Op{push(10, 1300), {Kind: OpMaintain}, {Kind: OpMaintain}}}
	// created in [0,1ms]; Maintain at [2ms,3ms] is certainly fresh; Maintain at [20ms,21ms] certainly expired
	good := &Trace{H: h, Steps: []Step{{A: 0, B: ms}, {A: 2 * ms, B: 3 * ms}, {A: 20 * ms, B: 21 * ms, CBs: []CB{del([]int{0}, 10, 1300)}}}}
	if fs, cl := Check(good, Which{C19: true}); len(fs) != 0 || cl.Fresh != 2 || cl.Expired != 1 { // the push itself is a (fresh) decision too
		t.Fatalf("good timed trace: %s fresh=%d expired=%d", sigs(fs), cl.Fresh, cl.Expired)
	}
	early := &Trace{H: h, Steps: []Step{{A: 0, B: ms}, {A: 2 * ms, B: 3 * ms, CBs: []CB{del([]int{0}, 10, 1300)}}, {A: 20 * ms, B: 21 * ms}}}
	if fs, _ := Check(early, Which{C19: true}); !strings.Contains(sigs(fs), "C19:delivered-before-timeout") {
		t.Fatalf("early delivery not flagged: %s", sigs(fs))
	}
	stale := &Trace{H: h, Steps: []Step{{A: 0, B: ms}, {A: 2 * ms, B: 3 * ms}, {A: 20 * ms, B: 21 * ms}}}
	if fs, _ := Check(stale, Which{C19: true}); !strings.Contains(sigs(fs), "C19:stale-head-not-delivered") {
		t.Fatalf("stale head not flagged: %s", sigs(fs))
	}
	// inside the uncertainty interval either outcome is accepted
	for _, delivered := range []bool{true, false} {
		st := Step{A: 5 * ms, B: 7 * ms}
		if delivered {
			st.CBs = []CB{del([]int{0}, 10, 1300)}
		}
		h2 := &History{MaxInFlight: 5, TimeoutNs: 5 * ms, Base: 1, Ops: []Op{push(10, 1300), {Kind: OpMaintain}}}
		if fs, cl := Check(&Trace{H: h2, Steps: []Step{{A: 0, B: ms}, st}}, Which{C19: true}); len(fs) != 0 || cl.Uncertain != 1 || cl.Fresh != 1 {
			t.Fatalf("uncertain zone (delivered=%v): %s uncertain=%d", delivered, sigs(fs), cl.Uncertain)
		}
	}
}
