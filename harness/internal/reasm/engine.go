// Package reasm drives the real Reassembler from one goroutine with generated
// call histories, records every Stream callback tagged with the call that
// produced it, and decides the trace properties C01, C02, C03, C10 and C19.
//
// The oracles are written from the property statements; the only facts taken
// from the code are the two named in the properties' anchors: which record
// types terminate an event (PROCTITLE, <= 1299, >= 2100; EOE marks only) and
// the 2^24-1 sort window.
package reasm

import (
	"fmt"
	"strconv"
	"strings"
	"time"

	libaudit "github.com/elastic/go-libaudit/v2"
	"github.com/elastic/go-libaudit/v2/auparse"
)

// Op kinds.
const (
	OpPushMsg  = "push"     // PushMessage(&AuditMessage{...})
	OpPushRaw  = "pushraw"  // Push(type, raw bytes) - the library parses and copies
	OpPushBad  = "pushbad"  // Push(type, unparsable bytes) - must error and deliver nothing
	OpPushNil  = "pushnil"  // PushMessage(nil)
	OpMaintain = "maintain" // Maintain()
	OpClose    = "close"    // Close()
	OpSleep    = "sleep"    // real sleep (C19 only)
)

// Op is one call of a history.
type Op struct {
	Kind  string `json:"k"`
	Seq   uint32 `json:"seq,omitempty"`
	Type  uint16 `json:"type,omitempty"`
	Sleep int64  `json:"sleep_us,omitempty"`
	// Twin (push of a message): the message is a distinct message with the SAME record type, text and timestamp as
	// the one pushed by the previous push op of this sequence (twin AVC / PATH records of one event): it is a
	// record of its own and must be delivered like any other
	Twin bool `json:"twin,omitempty"`
}

// History is one generated case: a configuration plus a call sequence.
type History struct {
	MaxInFlight int    `json:"max_in_flight"`
	TimeoutNs   int64  `json:"timeout_ns"`
	Base        uint32 `json:"base"` // window anchor used for linear offsets
	Ops         []Op   `json:"ops"`
	// Reenter: operations performed from INSIDE a Stream callback (the At-th callback of the whole
	// history, counting both kinds). Only used with the C01 oracle, with fresh sequence numbers.
	Reenter []ReOp `json:"reenter,omitempty"`
	// ZeroTS: the pushed messages are hand-built with a zero Timestamp (a caller that fills in only what the
	// Reassembler documents it uses: the sequence number and the record type)
	ZeroTS bool `json:"zero_timestamps,omitempty"`
	// Far: the sequence numbers form two clusters more than a sort window apart in both directions.
	Far bool `json:"far,omitempty"`
}

// ReOp is one re-entrant call.
type ReOp struct {
	At int `json:"at_callback"`
	Op Op  `json:"op"`
}

func (h *History) String() string {
	var sb strings.Builder
	fmt.Fprintf(&sb, "max=%d timeout=%s base=%d:", h.MaxInFlight, time.Duration(h.TimeoutNs), h.Base)
	if h.ZeroTS {
		sb.WriteString(" [zero timestamps]")
	}
	for _, o := range h.Ops {
		switch o.Kind {
		case OpPushMsg, OpPushRaw:
			fmt.Fprintf(&sb, " %s(%d,t%d)", o.Kind, o.Seq, o.Type)
		case OpSleep:
			fmt.Fprintf(&sb, " sleep(%dus)", o.Sleep)
		default:
			sb.WriteString(" " + o.Kind)
		}
	}
	for _, ro := range h.Reenter {
		if ro.Op.Kind == OpPushMsg {
			fmt.Fprintf(&sb, " [in callback #%d: push(%d,t%d)]", ro.At, ro.Op.Seq, ro.Op.Type)
		} else {
			fmt.Fprintf(&sb, " [in callback #%d: %s]", ro.At, ro.Op.Kind)
		}
	}
	return sb.String()
}

// CB is one Stream callback.
type CB struct {
	Lost  int      // EventsLost argument; -1 for ReassemblyComplete
	IDs   []int    // op index that pushed each delivered message (-1 = not identified / fabricated)
	Seqs  []uint32 // Sequence field of each delivered message
	Types []uint16
	Nil   int // number of nil entries in the slice
	// Nested marks the begin (1) / end (2) of a re-entrant call made from inside the previous callback; NOp indexes History.Reenter.
	Nested int
	NOp    int
}

// Step is what was observed for one op.
type Step struct {
	CBs  []CB
	Err  bool  // the call returned a non-nil error
	A, B int64 // monotonic ns bracketing the call
	Snap *libaudit.VerifSnapshot
}

// Trace is the boundary observation of one executed history.
type Trace struct {
	H         *History
	Steps     []Step
	NewErr    bool // NewReassembler returned an error
	Panic     string
	pushedPtr map[*auparse.AuditMessage]int
}

type recorder struct {
	t     *Trace
	cur   *Step
	r     *libaudit.Reassembler
	ncb   int
	fired []bool
}

// reenter performs the re-entrant calls scheduled for the callback that was just recorded.
func (r *recorder) reenter() {
	n := r.ncb
	r.ncb++
	h := r.t.H
	for j := range h.Reenter {
		if h.Reenter[j].At != n || r.fired[j] {
			continue
		}
		r.fired[j] = true
		r.cur.CBs = append(r.cur.CBs, CB{Lost: -2, Nested: 1, NOp: j})
		op := h.Reenter[j].Op
		switch op.Kind {
		case OpPushMsg:
			id := len(h.Ops) + j
			m := &auparse.AuditMessage{RecordType: auparse.AuditMessageType(op.Type), Sequence: op.Seq, Timestamp: time.Unix(1700000000+int64(id%5), int64(id%1000)*1e6), RawData: RawBody(op.Seq, id), Payload: id}
			r.t.pushedPtr[m] = id
			r.r.PushMessage(m)
		case OpMaintain:
			r.r.Maintain()
		}
		r.cur.CBs = append(r.cur.CBs, CB{Lost: -2, Nested: 2, NOp: j})
	}
}

func (r *recorder) ReassemblyComplete(msgs []*auparse.AuditMessage) {
	cb := CB{Lost: -1}
	for _, m := range msgs {
		if m == nil {
			cb.Nil++
			continue
		}
		id := -1
		if k, ok := r.t.pushedPtr[m]; ok {
			id = k
			if p, ok := m.Payload.(int); !ok || p != k {
				id = -1 // payload was not returned intact
			}
		} else if i := strings.Index(m.RawData, " opid="); i >= 0 {
			// message created by Push(raw): identify it by the unique token in its body
			if n, err := strconv.Atoi(strings.TrimSpace(m.RawData[i+6:])); err == nil {
				if n >= 0 && n < len(r.t.H.Ops) && r.t.H.Ops[n].Kind == OpPushRaw {
					id = n
				}
			}
		}
		cb.IDs = append(cb.IDs, id)
		cb.Seqs = append(cb.Seqs, m.Sequence)
		cb.Types = append(cb.Types, uint16(m.RecordType))
	}
	r.cur.CBs = append(r.cur.CBs, cb)
	r.reenter()
}

func (r *recorder) EventsLost(count int) {
	r.cur.CBs = append(r.cur.CBs, CB{Lost: count})
	r.reenter()
}

// ExecOpts selects optional observations.
type ExecOpts struct {
	Snapshot bool // take VerifSnapshot after every call (C10 cross-check)
	Clock    bool // record monotonic timestamps (C19)
}

var t0 = time.Now()

func mono() int64 { return int64(time.Since(t0)) }

// RawBody builds the text handed to Push(raw) for op k.
func RawBody(seq uint32, k int) string {
	return fmt.Sprintf("audit(1700000000.%03d:%d): foo=bar opid=%d", k%1000, seq, k)
}

// Execute runs the history against a fresh Reassembler.
func Execute(h *History, o ExecOpts) (tr *Trace) {
	tr = &Trace{H: h, Steps: make([]Step, len(h.Ops)), pushedPtr: map[*auparse.AuditMessage]int{}}
	rec := &recorder{t: tr, fired: make([]bool, len(h.Reenter))}
	defer func() {
		if p := recover(); p != nil {
			tr.Panic = fmt.Sprint(p)
		}
	}()
	var rawBuf [128]byte
	r, err := libaudit.NewReassembler(h.MaxInFlight, time.Duration(h.TimeoutNs), rec)
	if err != nil || r == nil {
		tr.NewErr = true
		return tr
	}
	rec.r = r
	for k := range h.Ops {
		op := &h.Ops[k]
		st := &tr.Steps[k]
		rec.cur = st
		if o.Clock {
			st.A = mono()
		}
		switch op.Kind {
		case OpPushMsg:
			src := k
			if op.Twin {
				for j := k - 1; j >= 0; j-- {
					if h.Ops[j].Kind == OpPushMsg && h.Ops[j].Seq == op.Seq && h.Ops[j].Type == op.Type {
						src = j
						if h.Ops[j].Twin {
							continue // the twin of a twin copies the original
						}
						break
					}
				}
			}
			m := &auparse.AuditMessage{
				RecordType: auparse.AuditMessageType(op.Type),
				Sequence:   op.Seq,
				// records of one sequence carry different timestamps on purpose: events are identified by the
				// sequence number alone
				Timestamp: time.Unix(1700000000+int64(src%5), int64(src%1000)*1e6),
				RawData:   RawBody(op.Seq, src),
				Payload:   k,
			}
			if h.ZeroTS {
				m.Timestamp = time.Time{}
			}
			tr.pushedPtr[m] = k
			r.PushMessage(m)
		case OpPushRaw:
			// the caller's buffer is reused for the next datagram, as a netlink receive loop does:
			// Push documents that it copies the data, so what is delivered later must be the text
			// pushed, whatever happens to the buffer afterwards
			n := copy(rawBuf[:], RawBody(op.Seq, k))
			st.Err = r.Push(auparse.AuditMessageType(op.Type), rawBuf[:n]) != nil
			for i := range rawBuf[:n] {
				rawBuf[i] = 'Z'
			}
		case OpPushBad:
			st.Err = r.Push(auparse.AuditMessageType(op.Type), []byte(fmt.Sprintf("audit(17000x.000:%d) opid=%d", op.Seq, k))) != nil
		case OpPushNil:
			r.PushMessage(nil)
		case OpMaintain:
			st.Err = r.Maintain() != nil
		case OpClose:
			st.Err = r.Close() != nil
		case OpSleep:
			time.Sleep(time.Duration(op.Sleep) * time.Microsecond)
		}
		if o.Clock {
			st.B = mono()
		}
		if o.Snapshot {
			s := r.VerifSnapshot()
			st.Snap = &s
		}
	}
	return tr
}

// ---------------------------------------------------------------------------
// Classification taken from the properties' anchors.

const (
	TypeEOE       = 1320
	TypeProctitle = 1327
)

// Completes reports whether a record of this type terminates its event.
func Completes(t uint16) bool { return t == TypeProctitle || t <= 1299 || t >= 2100 }

// Off maps a sequence number to its linear offset inside the history's window.
func (h *History) Off(seq uint32) int64 { return int64(seq - h.Base) }
