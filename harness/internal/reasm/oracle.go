package reasm

import (
	"fmt"
	"sort"
)

// Finding is one oracle refutation, attributed to a property.
type Finding struct {
	Prop string
	Sig  string
	What string
	Op   int // index of the call the finding is attributed to (-1: whole trace)
}

// Classes are the non-trivial event classes observed in one trace (coverage).
type Classes struct {
	Overflow      bool // a delivery whose only cause was the buffer bound
	Duplicate     bool // a sequence re-used after its event had been delivered
	Late          bool // an event delivered after a higher-numbered one
	Straddle      bool // the history's sequences cross 2^32-1 -> 0
	EOEOrphan     bool // EOE for a sequence that was not buffered
	EOEComplete   bool // EOE that completed a buffered event
	HeadBlocked   bool // a complete event waited behind an incomplete head
	Gap           bool // a positive loss expectation
	Zero          bool // sequence number 0 delivered
	MultiRecord   bool // an event with more than one record
	Deliveries    int
	LostReports   int
	Expired       int // C19: certainly-expired decisions
	Fresh         int // C19: certainly-fresh decisions
	Uncertain     int // C19: decisions inside the uncertainty interval
	SnapshotsSeen int
}

func (c Classes) Nontrivial() bool {
	return c.Overflow || c.Duplicate || c.Late || c.Straddle || c.EOEOrphan || c.Gap || c.HeadBlocked
}

type inst struct {
	seq      uint32
	off      int64
	msgs     []int
	firstOp  int
	complete bool
}

type delivered struct {
	off int64
	seq uint32
	op  int
}

// Which selects the oracles to evaluate.
type Which struct{ C01, C02, C03, C10, C19 bool }

// Check replays the trace against the reference buffer and evaluates the
// selected oracles.
func Check(tr *Trace, w Which) ([]Finding, Classes) {
	var fs []Finding
	var cl Classes
	curOp := -1
	add := func(prop, sig, format string, a ...any) {
		if len(fs) < 8 {
			fs = append(fs, Finding{prop, sig, fmt.Sprintf(format, a...), curOp})
		}
	}
	h := tr.H
	if len(h.Reenter) > 0 {
		// re-entrant histories are decided by the C01 oracle only (order, loss accounting and eviction
		// cause are defined for calls that do not nest)
		w = Which{C01: w.C01}
	}
	opByID := func(id int) *Op {
		if id < len(h.Ops) {
			return &h.Ops[id]
		}
		return &h.Reenter[id-len(h.Ops)].Op
	}
	if tr.Panic != "" {
		add("ANY", "panic", "panic while executing history: %s", tr.Panic)
		return fs, cl
	}
	if tr.NewErr {
		add("ANY", "new-error", "NewReassembler returned an error for a non-nil stream")
		return fs, cl
	}
	T := h.TimeoutNs
	open := map[uint32]*inst{}
	everDelivered := map[uint32]bool{}
	var dels []delivered
	lastSet, last := false, int64(0)
	closed := false
	closeOK := 0
	minSeq, maxSeq := uint32(0xFFFFFFFF), uint32(0)

	head := func() *inst {
		var b *inst
		for _, e := range open {
			if b == nil || e.off < b.off {
				b = e
			}
		}
		return b
	}
	created := map[*inst][2]int64{} // creation bracket [A,B] of the call that opened the event

	for k := range h.Ops {
		op := &h.Ops[k]
		st := &tr.Steps[k]
		isPush := false
		curOp = k
		// --- the call's own effect on the reference buffer (before its callbacks) ---
		switch op.Kind {
		case OpPushMsg, OpPushRaw:
			isPush = true
			if op.Seq < minSeq {
				minSeq = op.Seq
			}
			if op.Seq > maxSeq {
				maxSeq = op.Seq
			}
			if op.Kind == OpPushRaw && st.Err {
				if w.C01 {
					add("C01", "push-good-raw-error", "op %d: Push of well-formed raw data returned an error", k)
				}
				break
			}
			// pushes after Close are ordinary pushes (only Maintain and a second Close refuse): the reference buffer continues
			e := open[op.Seq]
			if op.Type == TypeEOE {
				if e != nil {
					e.complete = true
					cl.EOEComplete = true
				} else {
					cl.EOEOrphan = true
				}
				break
			}
			if e == nil {
				e = &inst{seq: op.Seq, off: h.Off(op.Seq), firstOp: k}
				open[op.Seq] = e
				created[e] = [2]int64{st.A, st.B}
				if everDelivered[op.Seq] {
					cl.Duplicate = true
				}
			} else {
				cl.MultiRecord = true
			}
			e.msgs = append(e.msgs, k)
			if Completes(op.Type) {
				e.complete = true
			}
		case OpPushBad:
			isPush = true
			if !st.Err && w.C01 {
				add("C01", "push-bad-raw-accepted", "op %d: Push of unparsable raw data returned nil", k)
			}
		case OpPushNil:
			isPush = true
		case OpMaintain:
			if closed {
				if w.C19 {
					if !st.Err {
						add("C19", "maintain-after-close-ok", "op %d: Maintain after Close returned nil", k)
					}
					if len(st.CBs) > 0 {
						add("C19", "maintain-after-close-delivers", "op %d: Maintain after Close made %d callbacks", k, len(st.CBs))
					}
				}
			} else if st.Err && w.C19 {
				add("C19", "maintain-error-open", "op %d: Maintain returned an error before Close", k)
			}
		case OpClose:
			if closed {
				if w.C19 {
					if !st.Err {
						add("C19", "second-close-ok", "op %d: second Close returned nil", k)
					}
					if len(st.CBs) > 0 {
						add("C19", "second-close-delivers", "op %d: second Close made %d callbacks", k, len(st.CBs))
					}
				}
			} else {
				if st.Err && w.C19 {
					add("C19", "first-close-error", "op %d: first Close returned an error", k)
				}
				closeOK++
			}
		}

		// --- C19 time decisions for this call, made on the buffer as it stands before the callbacks ---
		// (a push keeps evicting after Close; a Maintain after Close is refused and decides nothing)
		if w.C19 && (op.Kind == OpPushMsg || op.Kind == OpPushRaw || (op.Kind == OpMaintain && !closed)) {
			// copy of the open set to walk
			tmp := map[uint32]*inst{}
			for s, e := range open {
				tmp[s] = e
			}
			var dcb []uint32
			for _, cb := range st.CBs {
				if cb.Lost < 0 && len(cb.Seqs) > 0 {
					dcb = append(dcb, cb.Seqs[0])
				}
			}
			i := 0
			for {
				var hd *inst
				for _, e := range tmp {
					if hd == nil || e.off < hd.off {
						hd = e
					}
				}
				if hd == nil {
					break
				}
				cr := created[hd]
				must, mustNot := false, false
				switch {
				case hd.complete || len(tmp) > h.MaxInFlight:
					must = true
				case st.A > satAdd(cr[1], T):
					must = true
					cl.Expired++
				case st.B < satAdd(cr[0], T):
					mustNot = true
					cl.Fresh++
				default:
					cl.Uncertain++
				}
				if i < len(dcb) && dcb[i] == hd.seq {
					if mustNot {
						add("C19", "delivered-before-timeout", "op %d (%s): event seq=%d delivered although incomplete, buffer %d <= max %d and its timeout %dns cannot have elapsed (created in [%d,%d], call in [%d,%d])",
							k, op.Kind, hd.seq, len(tmp), h.MaxInFlight, T, cr[0], cr[1], st.A, st.B)
					}
					delete(tmp, hd.seq)
					i++
					continue
				}
				if must {
					add("C19", "stale-head-not-delivered", "op %d (%s): oldest event seq=%d (complete=%v, buffered=%d, max=%d, created in [%d,%d], timeout %dns, call started %d) was not delivered by this call",
						k, op.Kind, hd.seq, hd.complete, len(tmp), h.MaxInFlight, cr[0], cr[1], T, st.A)
				}
				break
			}
		}

		// --- callbacks of this call, in order ---
		expLost, gotLost := int64(0), int64(0)
		for ci, cb := range st.CBs {
			if cb.Nested == 1 {
				// a re-entrant call starts here: its own effect on the reference buffer
				nop := h.Reenter[cb.NOp].Op
				if nop.Kind == OpPushMsg {
					id := len(h.Ops) + cb.NOp
					e := open[nop.Seq]
					if nop.Type == TypeEOE {
						if e != nil {
							e.complete = true
						}
					} else {
						if e == nil {
							e = &inst{seq: nop.Seq, off: h.Off(nop.Seq), firstOp: k}
							open[nop.Seq] = e
						}
						e.msgs = append(e.msgs, id)
						if Completes(nop.Type) {
							e.complete = true
						}
					}
				}
				continue
			}
			if cb.Nested == 2 {
				continue
			}
			if cb.Lost >= 0 {
				cl.LostReports++
				gotLost += int64(cb.Lost)
				if cb.Lost == 0 && w.C03 {
					add("C03", "lost-nonpositive", "op %d: EventsLost(%d) is not positive", k, cb.Lost)
				}
				continue
			}
			cl.Deliveries++
			// C01 structural checks
			if len(cb.IDs) == 0 || cb.Nil > 0 {
				if w.C01 {
					add("C01", "empty-or-nil-delivery", "op %d cb %d: ReassemblyComplete with %d messages and %d nil entries", k, ci, len(cb.IDs), cb.Nil)
				}
				if len(cb.IDs) == 0 {
					continue
				}
			}
			seq := cb.Seqs[0]
			same := true
			for j, s := range cb.Seqs {
				if s != seq {
					same = false
				}
				if w.C01 {
					id := cb.IDs[j]
					if id < 0 {
						add("C01", "fabricated-message", "op %d cb %d: delivered message %d (seq=%d type=%d) was never pushed (or its Payload was altered)", k, ci, j, s, cb.Types[j])
					} else {
						if opByID(id).Seq != s || opByID(id).Type != cb.Types[j] {
							add("C01", "message-altered", "op %d cb %d: delivered message pushed by op %d has seq/type %d/%d, pushed as %d/%d", k, ci, id, s, cb.Types[j], opByID(id).Seq, opByID(id).Type)
						}
						if opByID(id).Type == TypeEOE {
							add("C01", "eoe-delivered", "op %d cb %d: EOE message pushed by op %d was delivered", k, ci, id)
						}
					}
				}
			}
			if !same && w.C01 {
				add("C01", "mixed-sequences", "op %d cb %d: one callback carries sequences %v", k, ci, cb.Seqs)
			}
			e := open[seq]
			if e == nil {
				if w.C01 {
					add("C01", "delivery-of-unbuffered", "op %d cb %d: delivery for seq=%d ids=%v but nothing undelivered was pushed for it (duplicate or fabricated delivery)", k, ci, seq, cb.IDs)
				}
				// C02 still applies to what was observed: the records of this delivery were pushed by known ops; if a
				// higher sequence was delivered after the earliest of them was pushed, this is not a late arrival
				if w.C02 {
					firstPush := -1
					for _, id := range cb.IDs {
						if id >= 0 && id < len(h.Ops) && (firstPush < 0 || id < firstPush) {
							firstPush = id
						}
					}
					if firstPush >= 0 {
						off := h.Off(seq)
						for _, d := range dels {
							if d.off > off && !(firstPush > d.op) {
								add("C02", "out-of-order", "op %d: event seq=%d (first record pushed by op %d) delivered after higher event seq=%d that was delivered in op %d", k, seq, firstPush, d.seq, d.op)
								break
							}
						}
					}
				}
				continue
			}
			if w.C01 && !equalInts(cb.IDs, e.msgs) {
				sig := "split-or-partial"
				if len(cb.IDs) == len(e.msgs) {
					sig = "reordered-within-event"
				} else if len(cb.IDs) > len(e.msgs) {
					sig = "duplicate-in-callback"
				}
				add("C01", sig, "op %d cb %d: seq=%d delivered messages (by pushing op) %v, but the records pushed for this event while it was buffered are %v", k, ci, seq, cb.IDs, e.msgs)
			}
			// C02 order
			for _, d := range dels {
				if d.off > e.off {
					cl.Late = true
					if w.C02 && !(e.firstOp > d.op) {
						add("C02", "out-of-order", "op %d: event seq=%d (first record pushed by op %d) delivered after higher event seq=%d that was delivered in op %d", k, e.seq, e.firstOp, d.seq, d.op)
						break
					}
				}
			}
			if w.C02 && op.Kind != OpClose {
				if hd := head(); hd != nil && hd != e {
					add("C02", "non-head-delivered", "op %d: event seq=%d delivered while lower sequence seq=%d is still buffered", k, e.seq, hd.seq)
				}
			}
			if w.C02 && op.Kind == OpClose {
				if hd := head(); hd != nil && hd != e {
					add("C02", "close-out-of-order", "op %d (Close): event seq=%d delivered before lower buffered seq=%d", k, e.seq, hd.seq)
				}
			}
			// C10 cause
			if op.Kind != OpClose {
				overflow := len(open) > h.MaxInFlight
				if !e.complete && overflow {
					cl.Overflow = true
				}
				if w.C10 && !w.C19 && !e.complete && !overflow { // with C19 on, the timed decisions above say whether the timeout can have elapsed
					add("C10", "evicted-without-cause", "op %d (%s): event seq=%d delivered although incomplete and only %d <= max %d events were buffered (timeout %dns cannot have elapsed)", k, op.Kind, e.seq, len(open), h.MaxInFlight, T)
				}
			}
			// C03 expectation
			if !lastSet {
				lastSet, last = true, e.off
			} else if e.off > last {
				if g := e.off - last - 1; g > 0 {
					expLost += g
					cl.Gap = true
				}
				last = e.off
			}
			if e.seq == 0 {
				cl.Zero = true
			}
			dels = append(dels, delivered{off: e.off, seq: e.seq, op: k})
			everDelivered[e.seq] = true
			delete(open, seq)
			delete(created, e)
		}
		if w.C03 && gotLost != expLost {
			sig := "lost-overcount"
			switch {
			case gotLost == 0:
				sig = "lost-not-reported"
			case gotLost < expLost:
				sig = "lost-undercount"
			case expLost == 0:
				sig = "lost-spurious"
			}
			add("C03", sig, "op %d (%s): EventsLost total in this call = %d, expected %d (sequence numbers skipped before the in-order events delivered by this call)", k, op.Kind, gotLost, expLost)
		}
		if op.Kind == OpClose && !closed {
			closed = true
			// records pushed from inside Close's own callbacks arrive after Close detached the buffer: they are
			// not covered by the flush and stay buffered (later calls may deliver them)
			var left []uint32
			for sq, e := range open {
				for _, id := range e.msgs {
					if id < len(h.Ops) {
						left = append(left, sq)
						break
					}
				}
			}
			if len(left) > 0 && (w.C01 || w.C19) {
				sort.Slice(left, func(i, j int) bool { return left[i] < left[j] })
				p := "C01"
				if !w.C01 {
					p = "C19"
				}
				add(p, "lost-at-close", "op %d: Close returned but events %v (pushed, never delivered) were not flushed", k, left)
			}
		}

		// --- C10 state checks after a push ---
		if isPush {
			for _, e := range open {
				if e.complete {
					if hd := head(); hd != e {
						cl.HeadBlocked = true
					}
				}
			}
			if w.C10 {
				if len(open) > h.MaxInFlight {
					add("C10", "over-bound", "op %d (%s): %d events remain buffered after the push, maxInFlight=%d", k, op.Kind, len(open), h.MaxInFlight)
				}
				if hd := head(); hd != nil && hd.complete {
					add("C10", "complete-head-retained", "op %d (%s): oldest buffered event seq=%d is complete but was not delivered", k, op.Kind, hd.seq)
				}
			}
		}
		if w.C10 && st.Snap != nil {
			cl.SnapshotsSeen++
			s := st.Snap
			if len(s.Seqs) != len(s.Events) {
				add("C10", "snapshot-structure", "op %d: sequence list has %d entries, event table %d", k, len(s.Seqs), len(s.Events))
			}
			want := make([]*inst, 0, len(open))
			for _, e := range open {
				want = append(want, e)
			}
			sort.Slice(want, func(i, j int) bool { return want[i].off < want[j].off })
			ok := len(want) == len(s.Seqs)
			for i := 0; ok && i < len(want); i++ {
				ok = want[i].seq == s.Seqs[i]
			}
			if !ok {
				ws := make([]uint32, len(want))
				for i, e := range want {
					ws[i] = e.seq
				}
				add("C10", "snapshot-mismatch", "op %d: internal sequence list %v differs from the buffer reconstructed at the boundary %v (order or content)", k, s.Seqs, ws)
			} else {
				for _, ev := range s.Events {
					e := open[ev.Sequence]
					if e == nil || e.complete != ev.Complete || len(e.msgs) != ev.Messages {
						add("C10", "snapshot-event-mismatch", "op %d: internal event %+v differs from reconstruction %+v", k, ev, e)
						break
					}
				}
			}
		}
	}
	if minSeq <= maxSeq && maxSeq-minSeq > 1<<31 {
		cl.Straddle = true
	}
	return fs, cl
}

func equalInts(a, b []int) bool {
	if len(a) != len(b) {
		return false
	}
	for i := range a {
		if a[i] != b[i] {
			return false
		}
	}
	return true
}

// satAdd adds a timeout to a monotonic reading without wrapping (timeouts up to +-2^63-1 ns are legal).
func satAdd(a, b int64) int64 {
	c := a + b
	if a > 0 && b > 0 && c < 0 {
		return 1<<63 - 1
	}
	if a < 0 && b < 0 && c >= 0 {
		return -1 << 63
	}
	return c
}
