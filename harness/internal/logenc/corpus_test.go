package logenc

import "testing"

func TestCorpus(t *testing.T) {
	c := Corpus()
	if len(c) < 200 {
		t.Fatalf("corpus too small: %d", len(c))
	}
	r := RuleCorpus()
	if len(r) < 80 {
		t.Fatalf("rule corpus too small: %d", len(r))
	}
	t.Logf("corpus %d lines, %d rules", len(c), len(r))
}
