package logenc

import (
	"fmt"
	"os"
	"path/filepath"
	"sort"
	"strings"

	"gopkg.in/yaml.v3"

	"verifharness/internal/mon"
)

// Group is one event: the log lines of its records, in order.
type Group struct {
	Name  string   `json:"name,omitempty"`
	Lines []string `json:"lines"`
}

// CorpusGroups returns the recorded events of aucoalesce/testdata/*.yaml.
func CorpusGroups() []Group {
	var out []Group
	files, _ := filepath.Glob(filepath.Join(RepoDir(), "aucoalesce", "testdata", "*.yaml"))
	sort.Strings(files)
	for _, f := range files {
		b, err := os.ReadFile(f)
		if err != nil {
			continue
		}
		var doc struct {
			Tests map[string]string `yaml:"tests"`
		}
		if yaml.Unmarshal(b, &doc) != nil {
			continue
		}
		names := make([]string, 0, len(doc.Tests))
		for n := range doc.Tests {
			names = append(names, n)
		}
		sort.Strings(names)
		for _, n := range names {
			g := Group{Name: filepath.Base(f) + ":" + n}
			for _, l := range strings.Split(doc.Tests[n], "\n") {
				if l = strings.TrimSpace(l); l != "" {
					g.Lines = append(g.Lines, l)
				}
			}
			if len(g.Lines) > 0 {
				out = append(out, g)
			}
		}
	}
	return out
}

// uniq hands out unique values so that "is this value present somewhere in the
// event" can be decided by equality.
type uniq struct {
	r *mon.Rand
	n int
}

func (u *uniq) num() string { u.n++; return fmt.Sprint(100000 + u.n*7 + u.r.Intn(7)) }
func (u *uniq) word(p string) string {
	u.n++
	return fmt.Sprintf("%s%d%c", p, u.n, 'a'+byte(u.r.Intn(26)))
}

// ruleKey renders a rule key the way the kernel does: one key quoted, several keys (a rule with more
// than one -k) joined by 0x01 and therefore hex-encoded, no key as (null). Components may be empty.
func (u *uniq) ruleKey() string {
	switch x := u.r.Intn(20); {
	case x < 13:
		return `"` + u.word("key") + `"`
	case x < 14:
		return "(null)"
	default:
		n := u.r.Range(2, 4)
		parts := make([]string, n)
		for i := range parts {
			if !u.r.Chance(1, 4) {
				parts[i] = u.word("key")
			}
		}
		return Hex([]byte(strings.Join(parts, "\x01")))
	}
}

// EventOpts tunes the event generator.
type EventOpts struct {
	Mode int // >= 0: force this st_mode on the first non-PARENT PATH record
	// BadModes: some PATH records carry a mode that is not octal text (not something the kernel writes: only for
	// checks whose domain is arbitrary text, not for the well-formed events of C09)
	BadModes bool
	// DualSockaddr: some events carry two SOCKADDR records of different families (a unix path and an IP address),
	// so that both socket_path and socket_addr are present (sendmmsg-like; only for checks about repeatability,
	// not for C09 where the second record's family/addr fields would collide with the first's)
	DualSockaddr bool
}

// GenSyscallGroup builds a SYSCALL event with a random subset and order of companion records.
func GenSyscallGroup(r *mon.Rand, o EventOpts) Group {
	u := &uniq{r: r}
	hdr := fmt.Sprintf("msg=audit(%d.%03d:%d):", 1490000000+r.Intn(1e8), r.Intn(1000), r.Uint32())
	syscalls := []string{"2", "59", "42", "43", "49", "257", "82", "87", "90", "92", "105", "165", "175", "41", "44", "45", "9", "288", "1", "3", "43", "45", "47", "42", "46"}
	sc := mon.Pick(r, syscalls)
	if o.Mode >= 0 {
		sc = mon.Pick(r, []string{"2", "257", "82", "87", "90", "92"}) // file syscalls: a PATH is selected
	}
	success := mon.Pick(r, []string{"yes", "no"})
	exit := "0"
	if success == "no" {
		exit = mon.Pick(r, []string{"-1", "-2", "-13", "-17"})
	}
	sys := fmt.Sprintf("type=SYSCALL %s arch=c000003e syscall=%s success=%s exit=%s a0=%s a1=%s a2=%s a3=%s items=%d ppid=%s pid=%s auid=%s uid=%s gid=%s euid=%s suid=%s fsuid=%s egid=%s sgid=%s fsgid=%s tty=%s ses=%s comm=\"%s\" exe=\"/usr/bin/%s\" subj=%s:%s:%s:s0 key=%s",
		hdr, sc, success, exit, u.word("x"), u.word("y"), u.word("z"), u.word("w"), r.Intn(4), u.num(), u.num(), u.num(), u.num(), u.num(), u.num(), u.num(), u.num(), u.num(), u.num(), u.num(), u.word("pts"), u.num(), u.word("comm"), u.word("exe"), u.word("su"), u.word("sr"), u.word("st"), u.ruleKey())
	// one id other than auid is sometimes the "no such id" value (an id that has no mapping in the user namespace
	// is reported as 4294967295; user-space records also write -1): at most one per event, so the value stays
	// unique.  Decided on a forked stream: the rest of the event is what it would have been.
	if fr := r.Fork(91); fr.Chance(1, 6) {
		k := mon.Pick(fr, []string{" uid=", " gid=", " euid=", " suid=", " fsuid=", " egid=", " sgid=", " fsgid="})
		if i := strings.Index(sys, k); i >= 0 {
			j := i + len(k)
			e := j + strings.IndexByte(sys[j:], ' ')
			sys = sys[:j] + mon.Pick(fr, []string{"4294967295", "4294967295", "-1"}) + sys[e:]
		}
	}
	var rest []string
	add := func(l string) { rest = append(rest, l) }
	if r.Chance(2, 3) {
		add(fmt.Sprintf("type=CWD %s  cwd=\"/home/%s\"", hdr, u.word("cwd")))
	}
	np := r.Intn(5)
	if o.Mode >= 0 && np == 0 {
		np = 1
	}
	modeUsed := false
	for i := 0; i < np; i++ {
		nametype := mon.Pick(r, []string{"NORMAL", "CREATE", "DELETE", "PARENT", "UNKNOWN", "NORMAL"})
		mode := mon.Pick(r, []int{0o100644, 0o100755, 0o040755, 0o020620, 0o060660, 0o010600, 0o120777, 0o140755, 0o104755, 0o102755, 0o101777})
		if o.Mode >= 0 && !modeUsed && (nametype != "PARENT" && nametype != "UNKNOWN" || i == np-1) {
			mode = o.Mode
			modeUsed = true
			if nametype == "PARENT" || nametype == "UNKNOWN" {
				nametype = "NORMAL"
			}
		}
		nt := "nametype"
		if r.Chance(1, 4) {
			nt = "objtype" // older kernels
		}
		// the kernel logs name=(null) for objects reached through a file descriptor (fchmod, fchown, ftruncate ...):
		// the parser drops the placeholder, so the record has no name key at all
		name := `"/data/` + u.word("name") + `"`
		if r.Chance(1, 8) {
			name = "(null)"
		}
		modeText := fmt.Sprintf("0%o", mode)
		if o.BadModes && !modeUsed && r.Chance(1, 6) {
			// a mode the coalescer cannot parse as octal: it warns and leaves the record as it is
			modeText = mon.Pick(r, []string{"0100894", "file", "-1", "07777777777777777777777777", "0x1ff", "8"})
		}
		add(fmt.Sprintf("type=PATH %s item=%d name=%s inode=%s dev=%02x:%02x mode=%s ouid=%s ogid=%s rdev=%02x:%02x obj=%s:%s:%s:s0 %s=%s cap_fp=%s cap_fi=%s cap_fe=0 cap_fver=0",
			hdr, i, name, u.num(), r.Intn(250), 0x21+i, modeText, u.num(), u.num(), r.Intn(250), 0x31+i, u.word("ou"), u.word("or"), u.word("ot"), nt, nametype, u.word("fp"), u.word("fi")))
	}
	if r.Chance(1, 3) {
		n := r.Range(1, 4)
		l := fmt.Sprintf("type=EXECVE %s argc=%d", hdr, n)
		for i := 0; i < n; i++ {
			l += fmt.Sprintf(" a%d=\"%s\"", i, u.word("arg"))
		}
		add(l)
	}
	if o.DualSockaddr && r.Chance(1, 3) {
		ip := [4]byte{10, byte(r.Intn(250) + 1), byte(r.Intn(250) + 1), byte(r.Intn(250) + 1)}
		a := fmt.Sprintf("type=SOCKADDR %s saddr=%s", hdr, SockaddrInet4(ip, uint16(1024+r.Intn(60000))))
		b := fmt.Sprintf("type=SOCKADDR %s saddr=%s", hdr, SockaddrUnix([]byte("/run/"+u.word("sock")), nil))
		if r.Bool() {
			a, b = b, a
		}
		add(a)
		add(b)
	} else if r.Chance(1, 3) {
		ip := [4]byte{10, byte(r.Intn(250) + 1), byte(r.Intn(250) + 1), byte(r.Intn(250) + 1)}
		switch r.Intn(5) {
		case 3:
			// AF_NETLINK: struct sockaddr_nl {family, pad, pid, groups}: not decoded, the raw text is the only copy
			b := append([]byte{16, 0, 0, 0}, r.Bytes(8)...)
			add(fmt.Sprintf("type=SOCKADDR %s saddr=%s", hdr, Hex(b)))
		case 4:
			// a family the parser does not decode (AF_PACKET, AF_BLUETOOTH, AF_VSOCK, ...)
			b := append([]byte{mon.Pick(r, []byte{17, 31, 40, 38, 5, 29}), 0}, r.Bytes(r.Range(6, 26))...)
			add(fmt.Sprintf("type=SOCKADDR %s saddr=%s", hdr, Hex(b)))
		case 0:
			add(fmt.Sprintf("type=SOCKADDR %s saddr=%s", hdr, SockaddrInet4(ip, uint16(1024+r.Intn(60000)))))
		case 1:
			var ip6 [16]byte
			copy(ip6[:], r.Bytes(16))
			ip6[0] = 0x20
			add(fmt.Sprintf("type=SOCKADDR %s saddr=%s", hdr, SockaddrInet6(ip6, uint16(1024+r.Intn(60000)), 0, 0)))
		default:
			add(fmt.Sprintf("type=SOCKADDR %s saddr=%s", hdr, SockaddrUnix([]byte("/run/"+u.word("sock")), nil)))
		}
	}
	if r.Chance(1, 2) {
		title := u.word("title") + "\x00-" + u.word("f")
		// a command line whose last argument is empty (grep "") ends in a NUL, one whose first is empty begins
		// with one: the decoded title then has white space at its edge, which is part of the value
		switch r.Fork(91).Intn(8) {
		case 0:
			title += "\x00"
		case 1:
			title = "\x00" + title
		case 2:
			title = " " + title + "\x00\x00"
		}
		add(fmt.Sprintf("type=PROCTITLE %s proctitle=%s", hdr, Hex([]byte(title))))
	}
	if r.Chance(1, 5) { // SELinux AVC
		add(fmt.Sprintf("type=AVC %s avc:  denied  { read write } for  pid=%s comm=\"%s\" name=\"%s\" dev=\"sda1\" ino=%s scontext=%s:r:t:s0 tcontext=%s:o:f:s0 tclass=file permissive=0", hdr, u.num(), u.word("ac"), u.word("an"), u.num(), u.word("sc"), u.word("tc")))
	}
	if r.Chance(1, 8) { // AppArmor AVC
		add(fmt.Sprintf("type=AVC %s apparmor=\"DENIED\" operation=\"open\" profile=\"%s\" name=\"/etc/%s\" pid=%s comm=\"%s\" requested_mask=\"r\" denied_mask=\"r\" fsuid=%s ouid=%s", hdr, u.word("prof"), u.word("an"), u.num(), u.word("ac"), u.num(), u.num()))
	}
	if r.Chance(1, 6) {
		add(fmt.Sprintf("type=MMAP %s fd=%s flags=0x%s", hdr, u.num(), u.num()))
	}
	if r.Chance(1, 8) {
		add(fmt.Sprintf("type=FD_PAIR %s fd0=%s fd1=%s", hdr, u.num(), u.num()))
	}
	if r.Chance(1, 8) {
		add(fmt.Sprintf("type=OBJ_PID %s opid=%s oauid=%s ouid=%s oses=%s obj=%s:%s:%s:s0 ocomm=\"%s\"", hdr, u.num(), u.num(), u.num(), u.num(), u.word("pu"), u.word("pr"), u.word("pt"), u.word("oc")))
	}
	if r.Chance(1, 8) {
		add(fmt.Sprintf("type=BPRM_FCAPS %s fver=0 fp=%s fi=%s fe=1 old_pp=%s old_pi=%s old_pe=%s new_pp=%s new_pi=%s new_pe=%s", hdr, u.word("a"), u.word("b"), u.word("c"), u.word("d"), u.word("e"), u.word("f"), u.word("g"), u.word("h")))
	}
	if r.Chance(1, 10) {
		add(fmt.Sprintf("type=NETFILTER_PKT %s mark=0x%s saddr=10.%d.0.1 daddr=10.%d.0.2 proto=6", hdr, u.num(), r.Intn(250), r.Intn(250)))
	}
	if r.Chance(1, 10) { // deliberate key collision with the SYSCALL record
		add(fmt.Sprintf("type=CAPSET %s pid=%s cap_pi=%s cap_pp=%s cap_pe=%s comm=\"%s\"", hdr, u.num(), u.word("i"), u.word("p"), u.word("e"), u.word("dupcomm")))
	}
	if r.Chance(1, 8) {
		// a companion record that re-uses keys the coalescer treats specially on the SYSCALL record
		// (items, result via res, ses, syscall, pid, comm, exe, key): collisions in both orders
		t := mon.Pick(r, []string{"NETFILTER_CFG", "MMAP", "CAPSET", "KERN_MODULE", "SECCOMP_X", "TIME_INJOFFSET"})
		if t == "SECCOMP_X" {
			t = "ANOM_LINK"
		}
		l := fmt.Sprintf("type=%s %s items=%s", t, hdr, u.num())
		for _, k := range []string{"ses", "pid", "ppid", "comm", "exe", "syscall", "tty", "a0", "exit", "cwd", "proctitle", "argc", "name", "saddr_x", "auid", "subj_x"} {
			if r.Chance(1, 4) {
				l += fmt.Sprintf(" %s=%s", k, u.word("col"))
			}
		}
		add(l)
	}
	userFirst := ""
	if r.Chance(1, 8) && o.Mode < 0 {
		// a user-space style record in the same event (addr / hostname / terminal / acct fields), often first
		t := mon.Pick(r, []string{"USER_LOGIN", "USER_ERR", "USER_START", "CRYPTO_KEY_USER", "CRYPTO_SESSION", "USER_AUTH", "USER_CMD", "USER_AVC", "CRED_ACQ"})
		l := fmt.Sprintf("type=%s %s pid=%s uid=%s auid=%s ses=%s msg='op=%s acct=\"%s\" exe=\"/usr/sbin/%s\" hostname=%s addr=203.0.%d.%d terminal=%s res=success'",
			t, hdr, u.num(), u.num(), u.num(), u.num(), u.word("op"), u.word("acct"), u.word("ux"), u.word("host"), r.Intn(250), r.Intn(250)+1, u.word("term"))
		if r.Chance(2, 3) {
			userFirst = l
		} else {
			add(l)
		}
	}
	if r.Chance(1, 2) && o.Mode < 0 {
		mon.Shuffle(r, rest)
	}
	g := Group{}
	if fr := r.Fork(92); userFirst == "" && o.Mode < 0 && fr.Chance(1, 12) {
		// the event starts with a record that carries a rule key of its own (auditctl adding a rule while its
		// own sendto is audited): CONFIG_CHANGE ... key="..." first, then the SYSCALL record with another key
		userFirst = fmt.Sprintf("type=CONFIG_CHANGE %s auid=%s ses=%s op=add_rule key=\"%s\" list=4 res=1", hdr, u.num(), u.num(), u.word("cfgkey"))
	}
	if userFirst != "" {
		g.Lines = append(g.Lines, userFirst, sys)
		g.Lines = append(g.Lines, rest...)
		if r.Chance(1, 2) {
			g.Lines = append(g.Lines, fmt.Sprintf("type=EOE %s ", hdr))
		}
		return g
	}
	if r.Chance(1, 6) && len(rest) > 0 && o.Mode < 0 {
		// a non-SYSCALL record first (as SECCOMP/AVC events can be)
		g.Lines = append(g.Lines, rest[0], sys)
		g.Lines = append(g.Lines, rest[1:]...)
	} else {
		g.Lines = append([]string{sys}, rest...)
	}
	if r.Chance(1, 2) {
		g.Lines = append(g.Lines, fmt.Sprintf("type=EOE %s ", hdr))
	}
	return g
}

// GenSingleRecord builds a one-record event of a user-space or kernel type.
func GenSingleRecord(r *mon.Rand) Group {
	u := &uniq{r: r}
	hdr := fmt.Sprintf("msg=audit(%d.%03d:%d):", 1490000000+r.Intn(1e8), r.Intn(1000), r.Uint32())
	userTypes := []string{"USER_AUTH", "USER_ACCT", "CRED_ACQ", "CRED_DISP", "USER_START", "USER_END", "USER_LOGIN", "USER_LOGOUT", "USER_ERR", "USER_CHAUTHTOK", "ADD_USER", "DEL_USER", "ADD_GROUP", "USER_MGMT", "USER_ROLE_CHANGE", "SERVICE_START", "SERVICE_STOP", "CRYPTO_KEY_USER", "CRYPTO_SESSION", "SYSTEM_BOOT", "SYSTEM_SHUTDOWN", "USER_AVC", "GRP_MGMT", "ACCT_LOCK", "TRUSTED_APP", "USER_SELINUX_ERR"}
	switch r.Intn(6) {
	case 0, 1, 2:
		t := mon.Pick(r, userTypes)
		res := mon.Pick(r, []string{"success", "failed"})
		return Group{Lines: []string{fmt.Sprintf("type=%s %s pid=%s uid=%s auid=%s ses=%s subj=%s:%s:%s:s0 msg='op=%s id=%s acct=\"%s\" grantors=%s exe=\"/usr/sbin/%s\" hostname=%s addr=10.%d.%d.%d terminal=%s res=%s'",
			t, hdr, u.num(), u.num(), u.num(), u.num(), u.word("su"), u.word("sr"), u.word("st"), u.word("op"), u.num(), u.word("acct"), u.word("pam"), u.word("exe"), u.word("host"), r.Intn(250), r.Intn(250), r.Intn(250)+1, u.word("tty"), res)}}
	case 3:
		return Group{Lines: []string{fmt.Sprintf("type=CONFIG_CHANGE %s auid=%s ses=%s subj=%s:%s:%s:s0 op=%s key=\"%s\" list=%s res=1", hdr, u.num(), u.num(), u.word("su"), u.word("sr"), u.word("st"), u.word("op"), u.word("key"), u.num())}}
	case 4:
		return Group{Lines: []string{fmt.Sprintf("type=LOGIN %s pid=%s uid=%s subj=%s:%s:%s:s0 old-auid=4294967295 auid=%s tty=(none) old-ses=4294967295 ses=%s res=1", hdr, u.num(), u.num(), u.word("su"), u.word("sr"), u.word("st"), u.num(), u.num())}}
	default:
		t := mon.Pick(r, []string{"ANOM_PROMISCUOUS", "NETFILTER_CFG", "ANOM_ABEND", "SECCOMP", "KERNEL", "MAC_STATUS", "MAC_POLICY_LOAD", "FEATURE_CHANGE", "TTY", "INTEGRITY_RULE"})
		extra := ""
		if t == "SECCOMP" {
			extra = " sig=31 arch=c000003e syscall=2 compat=0"
		}
		return Group{Lines: []string{fmt.Sprintf("type=%s %s dev=%s prom=256 old_prom=0 auid=%s uid=%s gid=%s ses=%s pid=%s comm=\"%s\" exe=\"/bin/%s\" table=%s family=2 entries=%s%s res=1", t, hdr, u.word("eth"), u.num(), u.num(), u.num(), u.num(), u.num(), u.word("c"), u.word("e"), u.word("tbl"), u.num(), extra)}}
	}
}

// NamedTypes lists the names of all record types that have a table name.
func NamedTypes(nameOf func(uint16) string) []string {
	var out []string
	for i := 0; i < 65536; i++ {
		if n := nameOf(uint16(i)); !strings.HasPrefix(n, "UNKNOWN[") {
			out = append(out, n)
		}
	}
	return out
}

// GenTypedCompound builds a compound event whose FIRST record has the given type (user-space style
// fields), followed by a SYSCALL record with a syscall drawn from a wide list and a few companions.
// Several events of the same first type with different syscalls exercise the code that merges the
// record type's normalisation with the syscall's.
func GenTypedCompound(r *mon.Rand, typ string) Group {
	u := &uniq{r: r}
	hdr := fmt.Sprintf("msg=audit(%d.%03d:%d):", 1490000000+r.Intn(1e8), r.Intn(1000), r.Uint32())
	first := fmt.Sprintf("type=%s %s pid=%s uid=%s auid=%s ses=%s msg='op=%s id=%s acct=\"%s\" exe=\"/usr/sbin/%s\" hostname=%s addr=198.51.%d.%d terminal=%s res=%s'",
		typ, hdr, u.num(), u.num(), u.num(), u.num(), u.word("op"), u.num(), u.word("acct"), u.word("ux"), u.word("host"), r.Intn(250), r.Intn(250)+1, u.word("term"), mon.Pick(r, []string{"success", "failed"}))
	sc := mon.Pick(r, []string{"0", "1", "2", "3", "9", "41", "42", "43", "44", "45", "49", "56", "57", "59", "62", "82", "84", "87", "90", "92", "101", "105", "106", "117", "155", "165", "175", "176", "257", "263", "288", "313", "321"})
	sys := fmt.Sprintf("type=SYSCALL %s arch=c000003e syscall=%s success=yes exit=0 a0=%s a1=%s a2=%s a3=%s items=0 ppid=%s pid=%s auid=%s uid=%s gid=%s euid=%s suid=%s fsuid=%s egid=%s sgid=%s fsgid=%s tty=%s ses=%s comm=\"%s\" exe=\"/usr/bin/%s\" key=%s",
		hdr, sc, u.word("x"), u.word("y"), u.word("z"), u.word("w"), u.num(), u.num(), u.num(), u.num(), u.num(), u.num(), u.num(), u.num(), u.num(), u.num(), u.num(), u.word("pts"), u.num(), u.word("comm"), u.word("exe"), u.ruleKey())
	g := Group{Lines: []string{first, sys}}
	if r.Chance(1, 3) {
		g.Lines = append(g.Lines, fmt.Sprintf("type=CWD %s  cwd=\"/home/%s\"", hdr, u.word("cwd")))
	}
	if r.Chance(1, 3) {
		g.Lines = append(g.Lines, fmt.Sprintf("type=PROCTITLE %s proctitle=%s", hdr, Hex([]byte(u.word("title")))))
	}
	if r.Chance(1, 2) {
		g.Lines = append(g.Lines, fmt.Sprintf("type=EOE %s ", hdr))
	}
	return g
}
