package logenc

import (
	"encoding/binary"
	"fmt"
	"strings"
)

const hexUpper = "0123456789ABCDEF"

// Hex is audit_log_n_hex: upper-case hex of every byte.
func Hex(b []byte) string {
	var sb strings.Builder
	sb.Grow(2 * len(b))
	for _, c := range b {
		sb.WriteByte(hexUpper[c>>4])
		sb.WriteByte(hexUpper[c&15])
	}
	return sb.String()
}

// NeedsHex is audit_string_contains_control: a byte outside 0x21..0x7e or a
// double quote forces the hex form.
func NeedsHex(b []byte) bool {
	for _, c := range b {
		if c == '"' || c < 0x21 || c > 0x7e {
			return true
		}
	}
	return false
}

// Untrusted is audit_log_untrustedstring / audit_log_n_untrustedstring:
// "value" in double quotes when safe, upper-case hex otherwise.
func Untrusted(b []byte) string {
	if NeedsHex(b) {
		return Hex(b)
	}
	return `"` + string(b) + `"`
}

// SockaddrInet4 encodes struct sockaddr_in as the kernel logs it (host-order
// family on a little-endian machine, network-order port).
func SockaddrInet4(ip [4]byte, port uint16) string {
	b := make([]byte, 16)
	binary.LittleEndian.PutUint16(b[0:], 2)
	binary.BigEndian.PutUint16(b[2:], port)
	copy(b[4:], ip[:])
	return Hex(b)
}

// SockaddrInet6 encodes struct sockaddr_in6.
func SockaddrInet6(ip [16]byte, port uint16, flow, scope uint32) string {
	b := make([]byte, 28)
	binary.LittleEndian.PutUint16(b[0:], 10)
	binary.BigEndian.PutUint16(b[2:], port)
	binary.BigEndian.PutUint32(b[4:], flow)
	copy(b[8:], ip[:])
	binary.LittleEndian.PutUint32(b[24:], scope)
	return Hex(b)
}

// SockaddrUnix encodes struct sockaddr_un: the path, a NUL and optional
// trailing garbage (the kernel logs the whole address length it was given).
func SockaddrUnix(path []byte, garbage []byte) string {
	b := make([]byte, 2, 2+len(path)+1+len(garbage))
	binary.LittleEndian.PutUint16(b[0:], 1)
	b = append(b, path...)
	if len(path) < 108 {
		b = append(b, 0)
		b = append(b, garbage...)
	}
	if len(b) > 110 {
		b = b[:110]
	}
	return Hex(b)
}

// Header renders the audit(...) header.
func Header(sec int64, msec int, seq uint32) string {
	return fmt.Sprintf("audit(%d.%03d:%d):", sec, msec, seq)
}
