// Package logenc holds the audit-log side generators: the real-record corpus
// (used only as mutation seeds, never as expected outputs), a kernel-style
// record writer (audit_log_untrustedstring / audit_log_n_hex semantics),
// hostile mutators and sockaddr encoders.
package logenc

import (
	"bufio"
	"os"
	"path/filepath"
	"sort"
	"strings"
)

// RepoDir is the go-libaudit tree the corpus is read from.
func RepoDir() string {
	if v := os.Getenv("VERIF_REPO_DIR"); v != "" {
		return v
	}
	return "/repo"
}

// Corpus returns the audit log lines ("type=... msg=audit(...): ...") found
// under the repository's testdata directories, sorted and de-duplicated.
func Corpus() []string {
	seen := map[string]bool{}
	var out []string
	add := func(l string) {
		l = strings.TrimSpace(l)
		if i := strings.Index(l, "type="); i > 0 {
			l = l[i:]
		}
		if strings.HasPrefix(l, "type=") && strings.Contains(l, "msg=audit(") && !seen[l] {
			seen[l] = true
			out = append(out, l)
		}
	}
	filepath.Walk(RepoDir(), func(p string, info os.FileInfo, err error) error {
		if err != nil || info.IsDir() {
			return nil
		}
		if !strings.Contains(p, "testdata") {
			return nil
		}
		ext := filepath.Ext(p)
		if ext != ".log" && ext != ".yaml" && ext != ".yml" {
			return nil
		}
		f, err := os.Open(p)
		if err != nil {
			return nil
		}
		defer f.Close()
		sc := bufio.NewScanner(f)
		sc.Buffer(make([]byte, 1<<20), 1<<20)
		for sc.Scan() {
			l := sc.Text()
			l = strings.TrimLeft(l, " -|")
			add(l)
		}
		return nil
	})
	sort.Strings(out)
	return out
}

// RuleCorpus returns the auditctl-style rule lines under rule/testdata.
func RuleCorpus() []string {
	seen := map[string]bool{}
	var out []string
	files, _ := filepath.Glob(filepath.Join(RepoDir(), "rule", "testdata", "*.rules"))
	for _, p := range files {
		f, err := os.Open(p)
		if err != nil {
			continue
		}
		sc := bufio.NewScanner(f)
		for sc.Scan() {
			l := strings.TrimSpace(sc.Text())
			if l == "" || strings.HasPrefix(l, "#") || seen[l] {
				continue
			}
			seen[l] = true
			out = append(out, l)
		}
		f.Close()
	}
	sort.Strings(out)
	return out
}
