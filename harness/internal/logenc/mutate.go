package logenc

import (
	"fmt"
	"strings"

	"verifharness/internal/mon"
)

// HostileFragments are spliced into corpus records by the mutators.
var HostileFragments = []string{
	// rule keys the kernel hex-encodes because several keys are joined by 0x01: empty components at every place
	"key=0161", "key=61010162", "key=01", "key=6101", "key=010161", "key=0101", "key=610101", "key=(null)", `key=""`,
	`"`, `'`, `msg='`, `msg='op=x`, `key="`, `a0="unterminated`, ` a0=' `, `=`, `==`, `= =`,
	"argc=4294967295", "argc=-1", "argc=3", "argc=99999999999999999999", "argc=0x10", "a0=A", "a0=ABC", "a1=zz", "a2=",
	"exit=-9223372036854775808", "exit=9223372036854775807", "exit=-1", "exit=-0", "exit=--1", "exit=-99999999999999999999",
	"arch=zz", "arch=", "arch=c000003e", "arch=40000003", "arch=ffffffffffffffffff", "syscall=-1", "syscall=99999999999", "syscall=x",
	"subj=:::::", "subj=a", "subj=:", "subj=a:b:c:d:e:f:g", "obj=::", "obj=", "sig=-1", "sig=999", "sig=x", "sig=31",
	"avc:  denied  {  } for  ", "avc:  denied  { read", "avc:  granted  { } for", "avc: denied { a b c } for x=1", "avc:  denied  { read } for  avc:  denied  { w } for  ",
	"old old old old ", "new new new ", "old auid=1 new auid=2", " (hostname=a (hostname=b (hostname=c", "')')')", "res=success')", "res=", "success=", "success=maybe",
	"\x00", "\xff", "\xff\xfe\xfd", "\x00\x00\x00", "\t", "\n", "\r\n",
	"saddr=", "saddr=0", "saddr=01", "saddr=0100", "saddr=0200", "saddr=0A00", "saddr=1000", "saddr=zzzz", "saddr=0200zzzz00000000", "saddr=0A00zz",
	"key=(null)", "key=", "key=\x01", "key=6B31016B32", "key=\"a=b=c\"", "key=\"=\"", "auid=4294967295", "auid=-1", "ses=-1", "old-auid=-1",
	"proctitle=", "proctitle=0", "proctitle=00", "proctitle=G0", "proctitle=\"x", "cmd=", "data=0", "name=(null)", "name=\"", "cwd=2F", "cwd=\"\"", "exe=0", "acct=FF", "acct=\"",
	"type=SYSCALL msg=audit(", "msg=audit(", "audit(", "):", "(", ")", ":", ".",
	// deeply nested msg= values (a value that is itself key=value text is parsed again): empty, '?', free-text and
	// key=value leaves, bare and quoted - the cost must stay linear in the depth
	strings.Repeat("msg=", 30), strings.Repeat("msg=", 44), strings.Repeat("msg=", 64) + "?", strings.Repeat("msg=", 200) + "free text",
	strings.Repeat("msg='", 40), strings.Repeat("msg='", 56) + "op=x" + strings.Repeat("'", 56), strings.Repeat(`msg="`, 48), strings.Repeat("msg=msg='", 30),
	strings.Repeat("msg=", 50) + "a=b", strings.Repeat("msg= ", 40), strings.Repeat("'msg=", 40),
}

// Saddrs returns saddr= fields of every length 0..60 for the interesting families.
func Saddrs() []string {
	var out []string
	for _, fam := range []string{"0100", "0200", "0A00", "1000", "0000", "FFFF", "0a00", "1100"} {
		for n := 0; n <= 60; n++ {
			s := fam + strings.Repeat("7F", 40)
			if n < len(s) {
				s = s[:n]
			}
			out = append(out, "saddr="+s)
		}
	}
	return out
}

// Mutate applies 1-4 seeded mutation operators to a record (line or body).
func Mutate(r *mon.Rand, s string, saddrs []string) string {
	n := r.Range(1, 4)
	for i := 0; i < n; i++ {
		b := []byte(s)
		switch r.Intn(16) {
		case 15: // the record type token
			s = mutateTypeToken(r, s)
		case 14: // a run of white space (not only blanks) after the header, at an end, or at a token boundary
			s = mutateWhitespace(r, s)
		case 12: // a delimited group ({...}, (...), [...], "...", '...'): delete it, empty it, or drop one delimiter
			s = mutateGroup(r, s)
		case 13: // delete a run of 2-4 consecutive tokens
			toks := strings.Split(s, " ")
			if len(toks) > 2 {
				k := r.Intn(len(toks) - 1)
				e := k + r.Range(2, 4)
				if e > len(toks) {
					e = len(toks)
				}
				toks = append(toks[:k], toks[e:]...)
				s = strings.Join(toks, " ")
			}
		case 0: // byte flip
			if len(b) > 0 {
				b[r.Intn(len(b))] ^= byte(1 << r.Intn(8))
			}
			s = string(b)
		case 1: // truncate (right, sometimes left)
			if len(b) > 0 {
				if r.Chance(1, 4) {
					s = string(b[r.Intn(len(b)):])
				} else {
					s = string(b[:r.Intn(len(b))])
				}
			}
		case 2: // delete a token
			toks := strings.Split(s, " ")
			if len(toks) > 1 {
				k := r.Intn(len(toks))
				toks = append(toks[:k], toks[k+1:]...)
				s = strings.Join(toks, " ")
			}
		case 3: // duplicate a token
			toks := strings.Split(s, " ")
			k := r.Intn(len(toks))
			toks = append(toks[:k+1], toks[k:]...)
			s = strings.Join(toks, " ")
		case 4, 5, 6: // splice a hostile fragment at a token boundary or anywhere
			f := mon.Pick(r, HostileFragments)
			if r.Bool() {
				toks := strings.Split(s, " ")
				k := r.Intn(len(toks) + 1)
				toks = append(toks[:k], append([]string{f}, toks[k:]...)...)
				s = strings.Join(toks, " ")
			} else {
				k := r.Intn(len(s) + 1)
				s = s[:k] + f + s[k:]
			}
		case 7: // saddr of every length/family
			s += " " + mon.Pick(r, saddrs)
		case 8: // replace a value by a hostile one
			toks := strings.Split(s, " ")
			k := r.Intn(len(toks))
			if j := strings.Index(toks[k], "="); j >= 0 {
				vals := []string{"", "?", "(null)", "\"", "'", "\"\"", "''", "-1", "4294967295", "0x", "FFFFFFFFFFFFFFFFFFFF", "\"a b\"", "'a \\' b'", "\"a \\\" b\"", "%s%n", strings.Repeat("A", 300)}
				toks[k] = toks[k][:j+1] + mon.Pick(r, vals)
			}
			s = strings.Join(toks, " ")
		case 9: // swap two tokens
			toks := strings.Split(s, " ")
			if len(toks) > 1 {
				a, c := r.Intn(len(toks)), r.Intn(len(toks))
				toks[a], toks[c] = toks[c], toks[a]
			}
			s = strings.Join(toks, " ")
		case 10: // insert random bytes
			k := r.Intn(len(s) + 1)
			s = s[:k] + string(r.Bytes(r.Range(1, 6))) + s[k:]
		case 11: // very long field
			if r.Chance(1, 20) {
				s += fmt.Sprintf(" big=%s", strings.Repeat("41", 32<<10))
			} else {
				s += " " + mon.Pick(r, HostileFragments)
			}
		}
	}
	return s
}

// mutateGroup picks one delimited group of the line and deletes it (with the blank after it), empties it,
// or removes only its opening or closing delimiter: structure the regular-expression based parts of the
// parser (AVC messages, user-space msg='...') take for granted.
func mutateGroup(r *mon.Rand, s string) string {
	type span struct{ a, b int } // s[a] opens, s[b] closes
	closer := map[byte]byte{'{': '}', '(': ')', '[': ']', '"': '"', '\'': '\''}
	var spans []span
	for i := 0; i < len(s); i++ {
		if c, ok := closer[s[i]]; ok {
			if j := strings.IndexByte(s[i+1:], c); j >= 0 {
				spans = append(spans, span{i, i + 1 + j})
				if s[i] == '"' || s[i] == '\'' {
					i += 1 + j
				}
			}
		}
	}
	if len(spans) == 0 {
		return s
	}
	sp := mon.Pick(r, spans)
	switch r.Intn(4) {
	case 0:
		e := sp.b + 1
		for e < len(s) && s[e] == ' ' {
			e++
		}
		return s[:sp.a] + s[e:]
	case 1:
		return s[:sp.a+1] + s[sp.b:]
	case 2:
		return s[:sp.a] + s[sp.a+1:]
	default:
		return s[:sp.b] + s[sp.b+1:]
	}
}

// mutateWhitespace inserts a run of 1-64 white-space characters (LF, CR LF, TAB, VT, FF, NBSP, U+2003 and
// blanks mixed in) right after the audit(...) header, at either end or at a token boundary, and sometimes
// drops everything after the run: the parser trims and measures offsets around such runs.
func mutateWhitespace(r *mon.Rand, s string) string {
	ws := []string{"\n", "\r\n", "\t", "\v", "\f", "\u00a0", "\u2003", " ", " ", "\r"}
	var sb strings.Builder
	one := mon.Pick(r, ws)
	for i, n := 0, mon.Pick(r, []int{1, 2, 3, 8, 27, 28, 29, 40, 64}); i < n; i++ {
		if r.Chance(1, 4) {
			sb.WriteString(mon.Pick(r, ws))
		} else {
			sb.WriteString(one)
		}
	}
	if r.Bool() {
		sb.WriteString(" ")
	}
	run := sb.String()
	pos := 0
	switch r.Intn(4) {
	case 0:
		if i := strings.Index(s, ")"); i >= 0 {
			pos = i + 1
		}
	case 1:
		pos = len(s)
	case 2:
		pos = 0
	default:
		if i := strings.Index(s[r.Intn(len(s)+1):], " "); i >= 0 {
			pos = i
		}
	}
	if r.Chance(1, 2) {
		return s[:pos] + run
	}
	return s[:pos] + run + s[pos:]
}

// mutateTypeToken rewrites the name after "type=" (or puts a type token in front of a raw message): near-misses
// of the UNKNOWN[n] syntax, other letter cases, brackets in the wrong order.
func mutateTypeToken(r *mon.Rand, s string) string {
	names := []string{"UNKNOWN]1329[", "][", "]x[", "]UNKNOWN[1329]", "UNKNOWN[", "UNKNOWN[]", "UNKNOWN[1329", "UNKNOWN1329]", "UNKNOWN[99999]", "UNKNOWN[-1]",
		"UNKNOWN[ 5]", "unknown[5]", "Unknown[1300]", "syscall", "Syscall", "UNKNOWN[1300]x", "[1300]", "a]b[1]", "UNKNOWN[[1]]", "UNKNOWN[1][2]", "", "=", "UNKNOWN[0x10]", "UNKNOWN[٣]"}
	n := mon.Pick(r, names)
	if i := strings.Index(s, "type="); i >= 0 {
		j := strings.IndexByte(s[i:], ' ')
		if j < 0 {
			j = len(s) - i
		}
		return s[:i+5] + n + s[i+j:]
	}
	return "type=" + n + " msg=" + s
}
