package logenc

import "testing"

func TestUntrusted(t *testing.T) {
	cases := map[string]string{
		"/bin/ls": `"/bin/ls"`, "a b": "612062", "q\"x": "712278", "it's": `"it's"`, "\x7f": "7F", "~": `"~"`, "!": `"!"`, " ": "20", "é": "C3A9", "a\x00b": "610062",
	}
	for in, want := range cases {
		if got := Untrusted([]byte(in)); got != want {
			t.Errorf("Untrusted(%q) = %s, want %s", in, got, want)
		}
	}
	if got := SockaddrInet4([4]byte{192, 168, 0, 1}, 80); got != "02000050C0A800010000000000000000" {
		t.Errorf("SockaddrInet4 = %s", got)
	}
	if got := SockaddrUnix([]byte("/run/x"), nil); got != "01002F72756E2F7800" {
		t.Errorf("SockaddrUnix = %s", got)
	}
}
