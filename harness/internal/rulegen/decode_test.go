package rulegen

import (
	"encoding/binary"
	"strings"
	"testing"

	"verifharness/internal/uapi"
)

// A wire image written by hand at the UAPI offsets must be accepted, and every single deviation named.
func handImage() ([]byte, *Expected) {
	b := make([]byte, uapi.RuleOffBuf+8)
	le := binary.LittleEndian
	le.PutUint32(b[uapi.RuleOffFlags:], uapi.FilterExit)
	le.PutUint32(b[uapi.RuleOffAction:], uapi.ActionAlways)
	le.PutUint32(b[uapi.RuleOffFieldCount:], 2)
	le.PutUint32(b[uapi.RuleOffMask+4*1:], 1<<27) // syscall 59
	le.PutUint32(b[uapi.RuleOffFields:], 1)       // uid
	le.PutUint32(b[uapi.RuleOffValues:], 1000)
	le.PutUint32(b[uapi.RuleOffFieldFlags:], 0x40000000)
	le.PutUint32(b[uapi.RuleOffFields+4:], 210) // key
	le.PutUint32(b[uapi.RuleOffValues+4:], 5)
	le.PutUint32(b[uapi.RuleOffFieldFlags+4:], 0x40000000)
	le.PutUint32(b[uapi.RuleOffBufLen:], 5)
	copy(b[uapi.RuleOffBuf:], "mykey")
	e := &Expected{Flags: uapi.FilterExit, Action: uapi.ActionAlways, Syscalls: []int{59},
		Triples: []Triple{{Field: 1, Op: 0x40000000, Value: 1000}, {Field: 210, Op: 0x40000000, Str: "mykey", IsStr: true}}}
	return b, e
}

func TestCompareAcceptsHandImage(t *testing.T) {
	b, e := handImage()
	if d := Compare(b, e); d != "" {
		t.Fatal(d)
	}
}

func TestCompareNamesEveryDeviation(t *testing.T) {
	cases := []struct {
		off  int
		val  uint32
		want string
	}{
		{uapi.RuleOffFlags, 1, "flags"}, {uapi.RuleOffAction, 0, "action"}, {uapi.RuleOffFieldCount, 3, "field_count"},
		{uapi.RuleOffMask, 1, "mask word 0"}, {uapi.RuleOffMask + 4, 1 << 26, "mask word 1"}, {uapi.RuleOffFields, 2, "fields[0]"},
		{uapi.RuleOffValues, 1001, "values[0]"}, {uapi.RuleOffFieldFlags, 0x30000000, "fieldflags[0]"}, {uapi.RuleOffValues + 4, 4, "values[1]"},
		{uapi.RuleOffFields + 8, 7, "unused slot 2"}, {uapi.RuleOffBufLen, 4, "buflen"}, {uapi.RuleOffBuf + 4, 0x01006579, "padding"},
	}
	for _, c := range cases {
		b, e := handImage()
		binary.LittleEndian.PutUint32(b[c.off:], c.val)
		if d := Compare(b, e); !strings.Contains(d, c.want) {
			t.Errorf("offset %d := %#x: got %q, want a difference naming %q", c.off, c.val, d, c.want)
		}
	}
	b, e := handImage()
	if d := Compare(b[:len(b)-4], e); !strings.Contains(d, "total length") && !strings.Contains(d, "string buffer") {
		t.Errorf("truncated image: %q", d)
	}
	if d := Compare(append(b, 0, 0, 0, 0), e); !strings.Contains(d, "total length") {
		t.Errorf("over-long image: %q", d)
	}
}

func TestQuoteRoundTrip(t *testing.T) {
	for _, s := range []string{"", "a", "a b", "it's", "a\tb", "$HOME", `back\slash`, `"q"`, "-F", "x<y"} {
		q := Quote(s)
		if s != "" && !strings.ContainsAny(s, " '\t$\\\"<>!&") && q != s {
			t.Errorf("Quote(%q) = %q, want unchanged", s, q)
		}
		// minimal POSIX unquote of what Quote produces
		var out strings.Builder
		for i := 0; i < len(q); i++ {
			switch {
			case q[i] == '\'':
				j := strings.IndexByte(q[i+1:], '\'')
				out.WriteString(q[i+1 : i+1+j])
				i += j + 1
			case q[i] == '\\':
				i++
				out.WriteByte(q[i])
			default:
				out.WriteByte(q[i])
			}
		}
		if out.String() != s {
			t.Errorf("Quote(%q) = %q unquotes to %q", s, q, out.String())
		}
	}
}
