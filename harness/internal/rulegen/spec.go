package rulegen

import (
	"strconv"
	"strings"

	"github.com/elastic/go-libaudit/v2/auparse"
	"github.com/elastic/go-libaudit/v2/rule"
	"golang.org/x/sys/unix"

	"verifharness/internal/uapi"
)

// Filter is one -F / -C argument with the expectation computed by the harness.
type Filter struct {
	Compare bool   `json:"compare,omitempty"` // -C
	LHS     string `json:"lhs"`
	Op      string `json:"op"`
	RHS     string `json:"rhs"`
	// expectation
	Field uint32 `json:"field"`
	Value uint32 `json:"value"`
	Str   bool   `json:"is_string,omitempty"`
}

// Syscall is one requested syscall (by number or by name).
type Syscall struct {
	Text string `json:"text"`
	Num  int    `json:"num"`
	// Independent: the number came from the harness's own spot table (x/sys/unix), not the published table.
	Independent bool `json:"independent,omitempty"`
}

// Spec is one generated rule request.
type Spec struct {
	Watch    bool      `json:"watch,omitempty"`
	Path     string    `json:"path,omitempty"`
	PathKind string    `json:"path_kind,omitempty"` // "path" or "dir": what the filesystem says
	Perms    string    `json:"perms,omitempty"`
	List     string    `json:"list,omitempty"`
	Action   string    `json:"action,omitempty"`
	Prepend  bool      `json:"prepend,omitempty"`
	ActFirst bool      `json:"action_first,omitempty"` // "-a always,exit" instead of "-a exit,always"
	Filters  []Filter  `json:"filters,omitempty"`
	Syscalls []Syscall `json:"syscalls,omitempty"`
	AllText  bool      `json:"s_all,omitempty"` // explicit "-S all"
	// AllLast: the explicit syscalls are followed by "all" ("-S open,close -S all"): the union is every syscall.
	// ("all" FIRST and explicit ones after it is not generated: the library then keeps only the explicit ones.)
	AllLast bool     `json:"s_all_last,omitempty"`
	Keys    []string `json:"keys,omitempty"`
}

// Quote is POSIX single-quote quoting, written independently of shellquote.
func Quote(s string) string {
	safe := s != ""
	for i := 0; i < len(s) && safe; i++ {
		c := s[i]
		safe = c >= 'a' && c <= 'z' || c >= 'A' && c <= 'Z' || c >= '0' && c <= '9' || strings.IndexByte("_-./=,:+@%", c) >= 0
	}
	if safe {
		return s
	}
	return "'" + strings.ReplaceAll(s, "'", `'\''`) + "'"
}

// Argv returns the argument vector of the request.
func (s *Spec) Argv() []string {
	var a []string
	if s.Watch {
		a = append(a, "-w", s.Path)
		if s.Perms != "" {
			a = append(a, "-p", s.Perms)
		}
		for _, k := range s.Keys {
			a = append(a, "-k", k)
		}
		return a
	}
	flag := "-a"
	if s.Prepend {
		flag = "-A"
	}
	if s.ActFirst {
		a = append(a, flag, s.Action+","+s.List)
	} else {
		a = append(a, flag, s.List+","+s.Action)
	}
	// arch first (as auditctl wants), then syscalls, then the other filters in order
	for _, f := range s.Filters {
		fl := "-F"
		if f.Compare {
			fl = "-C"
		}
		a = append(a, fl, f.LHS+f.Op+f.RHS)
	}
	if s.AllText {
		a = append(a, "-S", "all")
	}
	if len(s.Syscalls) > 0 {
		var names []string
		for _, sc := range s.Syscalls {
			names = append(names, sc.Text)
		}
		if s.AllLast && len(names)%2 == 0 {
			names = append(names, "all") // "... ,all" inside the list
		}
		a = append(a, "-S", strings.Join(names, ","))
		if s.AllLast && len(names)%2 == 1 && names[len(names)-1] != "all" {
			a = append(a, "-S", "all") // or as a flag of its own
		}
	}
	for _, k := range s.Keys {
		a = append(a, "-k", k)
	}
	return a
}

// Text renders the request as one auditctl-style line.
func (s *Spec) Text() string {
	argv := s.Argv()
	q := make([]string, len(argv))
	for i, x := range argv {
		q[i] = Quote(x)
	}
	return strings.Join(q, " ")
}

// Rule builds the request as a Rule struct (bypassing the flag parser).
func (s *Spec) Rule() rule.Rule {
	if s.Watch {
		w := &rule.FileWatchRule{Type: rule.FileWatchRuleType, Path: s.Path, Keys: s.Keys}
		for _, p := range s.Perms {
			switch p {
			case 'r':
				w.Permissions = append(w.Permissions, rule.ReadAccessType)
			case 'w':
				w.Permissions = append(w.Permissions, rule.WriteAccessType)
			case 'x':
				w.Permissions = append(w.Permissions, rule.ExecuteAccessType)
			case 'a':
				w.Permissions = append(w.Permissions, rule.AttributeChangeAccessType)
			}
		}
		return w
	}
	r := &rule.SyscallRule{Type: rule.AppendSyscallRuleType, List: s.List, Action: s.Action, Keys: s.Keys}
	if s.Prepend {
		r.Type = rule.PrependSyscallRuleType
	}
	for _, f := range s.Filters {
		t := rule.ValueFilterType
		if f.Compare {
			t = rule.InterFieldFilterType
		}
		r.Filters = append(r.Filters, rule.FilterSpec{Type: t, LHS: f.LHS, Comparator: f.Op, RHS: f.RHS})
	}
	if s.AllText {
		r.Syscalls = append(r.Syscalls, "all")
	}
	for _, sc := range s.Syscalls {
		r.Syscalls = append(r.Syscalls, sc.Text)
	}
	if s.AllLast && len(s.Syscalls) > 0 {
		r.Syscalls = append(r.Syscalls, "all")
	}
	return r
}

// Expected computes the wire content the request must produce.
func (s *Spec) Expected() *Expected {
	e := &Expected{}
	if s.Watch {
		e.Flags, e.Action, e.AllSyscalls = uapi.FilterExit, uapi.ActionAlways, true
		kind := s.PathKind
		e.Triples = append(e.Triples, Triple{Field: uapi.Fields[kind], Op: uapi.Operators["="], Str: cleanPath(s.Path), IsStr: true})
		perms := s.Perms
		if perms == "" {
			perms = "rwxa"
		}
		var bits uint32
		for i := 0; i < len(perms); i++ {
			bits |= uapi.Perms[perms[i]]
		}
		e.Triples = append(e.Triples, Triple{Field: uapi.Fields["perm"], Op: uapi.Operators["="], Value: bits})
	} else {
		e.Flags, e.Action = uapi.Lists[s.List], uapi.Actions[s.Action]
		for _, f := range s.Filters {
			t := Triple{Field: f.Field, Op: uapi.Operators[f.Op], Value: f.Value}
			if f.Str {
				t.IsStr, t.Str = true, f.RHS
			}
			e.Triples = append(e.Triples, t)
		}
		e.AllSyscalls = len(s.Syscalls) == 0 || s.AllLast
		if !e.AllSyscalls {
			for _, sc := range s.Syscalls {
				e.Syscalls = append(e.Syscalls, sc.Num)
			}
		}
	}
	if len(s.Keys) > 0 {
		e.Triples = append(e.Triples, Triple{Field: uapi.FieldFilterKey, Op: uapi.Operators["="], Str: strings.Join(s.Keys, string(rune(uapi.KeySeparator))), IsStr: true})
	}
	return e
}

// cleanPath is lexical path cleaning as path.Clean does for absolute paths.
func cleanPath(p string) string {
	parts := strings.Split(p, "/")
	var out []string
	for _, x := range parts {
		switch x {
		case "", ".":
		case "..":
			if len(out) > 0 {
				out = out[:len(out)-1]
			}
		default:
			out = append(out, x)
		}
	}
	return "/" + strings.Join(out, "/")
}

// ---- independent value parsers ----

// ErrnoByName maps errno names to numbers using x/sys/unix (linux).
var ErrnoByName = func() map[string]int {
	m := map[string]int{}
	for n := 1; n < 140; n++ {
		if name := unix.ErrnoName(unix.Errno(n)); name != "" {
			// x/sys names some numbers by an alias auditctl does not list (ENOTSUP for EOPNOTSUPP):
			// only names the published table also knows are "must accept"; the number stays x/sys's.
			if _, known := auparse.AuditErrnoToNum[name]; !known {
				continue
			}
			if _, dup := m[name]; !dup {
				m[name] = n
			}
		}
	}
	return m
}()

// ParseU32 parses a number the way auditctl does (base prefixes, negative = two's complement).
func ParseU32(s string) (uint32, bool) {
	if strings.HasPrefix(s, "-") {
		v, err := strconv.ParseInt(s, 0, 32)
		return uint32(v), err == nil
	}
	v, err := strconv.ParseUint(s, 0, 32)
	return uint32(v), err == nil
}

// amd64 syscall numbers from x/sys/unix (independent of the published table).
var SpotX8664 = map[string]int{
	"read": unix.SYS_READ, "write": unix.SYS_WRITE, "open": unix.SYS_OPEN, "close": unix.SYS_CLOSE, "stat": unix.SYS_STAT,
	"mmap": unix.SYS_MMAP, "ioctl": unix.SYS_IOCTL, "socket": unix.SYS_SOCKET, "connect": unix.SYS_CONNECT, "accept": unix.SYS_ACCEPT,
	"bind": unix.SYS_BIND, "clone": unix.SYS_CLONE, "fork": unix.SYS_FORK, "execve": unix.SYS_EXECVE, "kill": unix.SYS_KILL,
	"rename": unix.SYS_RENAME, "mkdir": unix.SYS_MKDIR, "rmdir": unix.SYS_RMDIR, "unlink": unix.SYS_UNLINK, "chmod": unix.SYS_CHMOD,
	"chown": unix.SYS_CHOWN, "ptrace": unix.SYS_PTRACE, "setuid": unix.SYS_SETUID, "setgid": unix.SYS_SETGID, "mount": unix.SYS_MOUNT,
	"init_module": unix.SYS_INIT_MODULE, "delete_module": unix.SYS_DELETE_MODULE, "openat": unix.SYS_OPENAT, "unlinkat": unix.SYS_UNLINKAT,
	"renameat": unix.SYS_RENAMEAT, "execveat": unix.SYS_EXECVEAT, "bpf": unix.SYS_BPF, "finit_module": unix.SYS_FINIT_MODULE,
	"adjtimex": unix.SYS_ADJTIMEX, "settimeofday": unix.SYS_SETTIMEOFDAY, "clock_settime": unix.SYS_CLOCK_SETTIME, "sethostname": unix.SYS_SETHOSTNAME,
	"truncate": unix.SYS_TRUNCATE, "ftruncate": unix.SYS_FTRUNCATE, "creat": unix.SYS_CREAT, "setxattr": unix.SYS_SETXATTR, "fchmodat": unix.SYS_FCHMODAT,
}

// a few i386 numbers, written by hand from arch/x86/entry/syscalls/syscall_32.tbl
var SpotI386 = map[string]int{
	"exit": 1, "fork": 2, "read": 3, "write": 4, "open": 5, "close": 6, "unlink": 10, "execve": 11, "chmod": 15, "mount": 21,
	"setuid": 23, "ptrace": 26, "kill": 37, "rename": 38, "mkdir": 39, "rmdir": 40, "socketcall": 102, "clone": 120, "init_module": 128,
	"delete_module": 129, "openat": 295, "unlinkat": 301, "renameat": 302, "bpf": 357, "execveat": 358, "socket": 359, "connect": 362,
}
