package rulegen

import (
	"fmt"
	"os"
	"sort"
	"strconv"
	"strings"

	"github.com/elastic/go-libaudit/v2/auparse"

	"verifharness/internal/mon"
	"verifharness/internal/uapi"
)

var (
	uidFields     = []string{"uid", "euid", "suid", "fsuid", "auid", "obj_uid"}
	gidFields     = []string{"gid", "egid", "sgid", "fsgid", "obj_gid"}
	numFields     = []string{"pid", "ppid", "pers", "devmajor", "devminor", "success"}
	argFields     = []string{"a0", "a1", "a2", "a3"}
	strFields     = []string{"subj_user", "subj_role", "subj_type", "subj_sen", "subj_clr", "obj_user", "obj_role", "obj_type", "obj_lev_low", "obj_lev_high", "path", "dir", "exe"}
	exitOnly      = map[string]bool{"exit": true, "obj_user": true, "obj_role": true, "obj_type": true, "obj_lev_low": true, "obj_lev_high": true, "path": true, "dir": true, "perm": true, "filetype": true, "inode": true, "devmajor": true, "devminor": true, "success": true, "ppid": true}
	excludeOK     = map[string]bool{"pid": true, "uid": true, "gid": true, "auid": true, "msgtype": true, "subj_user": true, "subj_role": true, "subj_type": true, "subj_sen": true, "subj_clr": true, "exe": true}
	AllOps        = []string{"=", "!=", "<", ">", "<=", ">=", "&", "&="}
	eqOps         = []string{"=", "!="}
	uidValues     = []string{"0", "1", "1000", "65534", "2147483647", "2147483648", "4294967294", "4294967295", "unset", "-1"}
	gidValues     = []string{"0", "1", "1000", "65534", "2147483647", "2147483648", "4294967294", "4294967295"}
	archNames     = []string{"b64", "b32", "x86_64", "i386", "aarch64", "arm", "ppc64", "ppc64le", "ppc", "s390x", "s390"}
	filetypeNames = []string{"file", "dir", "socket", "symlink", "char", "block", "fifo"}
	safeChars     = "abcdefghijklmnopqrstuvwxyzABCDEFGHIJKLMNOPQRSTUVWXYZ0123456789_-./:+@%,"
)

// AllFieldNames lists every auditctl field name of the UAPI table, sorted.
func AllFieldNames() []string {
	var out []string
	for n := range uapi.Fields {
		out = append(out, n)
	}
	sort.Strings(out)
	return out
}

// Opts tunes generation.
type Opts struct {
	// Hostile strings: allow whitespace / quotes / any byte in string values (not for the C07 domain).
	HostileStrings bool
	// WatchDir / WatchFile are an existing directory and regular file for watch rules.
	WatchDir, WatchFile string
	MaxFilters          int
	// KeyVariants puts blanks, tabs, quotes, backslashes, '=' or non-ASCII letters inside some keys
	// (outside C07's domain: ToCommandLine does not quote).
	KeyVariants bool
	// EdgeBlanks puts a blank or tab in front of or behind some string filter values (a filter value is taken
	// verbatim by -F, unlike list items): only for the check that compares the text route byte by byte
	EdgeBlanks bool
	// AllLast sometimes appends "all" after explicit syscalls (outside C07's domain only in so far as the
	// printed form is "-S all"; enabled by C06).
	AllLast bool
}

type idEntry struct {
	name string
	id   uint32
}

// localUsers / localGroups: the names of /etc/passwd and /etc/group with their ids (first entry of a
// name wins, as getpwnam/getgrnam do; purely numeric names are skipped).
var localUsers, localGroups = readIDs("/etc/passwd"), readIDs("/etc/group")

func readIDs(path string) []idEntry {
	b, err := os.ReadFile(path)
	if err != nil {
		return nil
	}
	seen := map[string]bool{}
	var out []idEntry
	for _, l := range strings.Split(string(b), "\n") {
		f := strings.Split(l, ":")
		if len(f) < 3 || f[0] == "" || strings.HasPrefix(f[0], "#") || strings.HasPrefix(f[0], "+") || strings.HasPrefix(f[0], "-") || seen[f[0]] {
			continue
		}
		if _, err := strconv.ParseUint(f[0], 10, 64); err == nil {
			continue
		}
		id, err := strconv.ParseUint(f[2], 10, 32)
		if err != nil {
			continue
		}
		ok := true
		for i := 0; i < len(f[0]); i++ {
			if strings.IndexByte(safeChars, f[0][i]) < 0 || f[0][i] == ',' || f[0][i] == '=' {
				ok = false
			}
		}
		if !ok {
			continue
		}
		seen[f[0]] = true
		out = append(out, idEntry{f[0], uint32(id)})
	}
	return out
}

func randSafe(r *mon.Rand, n int) string {
	b := make([]byte, n)
	for i := range b {
		b[i] = safeChars[r.Intn(len(safeChars))]
	}
	return string(b)
}

// keyVariant sometimes puts blanks, tabs or non-ASCII letters INSIDE a key (a key is an arbitrary
// string; only blanks around a list item are trimmed by the flag parser, and commas separate keys).
func keyVariant(r *mon.Rand, k string) string {
	if len(k) < 3 || len(k) > 200 || !r.Chance(1, 5) {
		return k
	}
	i := r.Range(1, len(k)-1)
	return k[:i] + mon.Pick(r, []string{" ", "  ", "\t", " \t ", "é", "=", "'", "\"", "\\"}) + k[i:]
}

func randString(r *mon.Rand, o *Opts, maxLen int) string {
	n := r.Range(1, 24)
	switch r.Intn(12) {
	case 0:
		n = maxLen
	case 1:
		n = r.Range(1, maxLen)
	case 2:
		n = 1
	}
	if o.HostileStrings && r.Chance(1, 3) {
		b := r.Bytes(n)
		for i := range b {
			if b[i] == 0 {
				b[i] = ' '
			}
		}
		return string(b)
	}
	return randSafe(r, n)
}

// value generates (text, expected value) for a non-string field class. ok=false when the field takes strings.
func value(r *mon.Rand, field string, list string) (rhs string, val uint32, ops []string) {
	ops = AllOps
	switch {
	case contains(uidFields, field) && len(localUsers) > 0 && r.Chance(1, 6):
		// a user name: resolved through the passwd database (the harness reads /etc/passwd itself)
		e := mon.Pick(r, localUsers)
		rhs, val = e.name, e.id
	case contains(gidFields, field) && len(localGroups) > 0 && r.Chance(1, 5):
		// a group name: resolved through the GROUP database - a user of the same name may have another id
		e := mon.Pick(r, localGroups)
		rhs, val = e.name, e.id
	case contains(uidFields, field):
		rhs = mon.Pick(r, uidValues)
		if r.Chance(1, 3) {
			rhs = strconv.FormatUint(uint64(r.Uint32()), 10)
		}
		if rhs == "unset" || rhs == "-1" {
			val = 4294967295
		} else {
			v, _ := strconv.ParseUint(rhs, 10, 32)
			val = uint32(v)
		}
	case contains(gidFields, field):
		rhs = mon.Pick(r, gidValues)
		if r.Chance(1, 3) {
			rhs = strconv.FormatUint(uint64(r.Uint32()), 10)
		}
		v, _ := strconv.ParseUint(rhs, 10, 32)
		val = uint32(v)
	case field == "exit":
		switch r.Intn(4) {
		case 0:
			n := mon.Pick(r, []int64{0, 1, -1, 2147483647, -2147483648, 255, -4095, 133})
			rhs, val = strconv.FormatInt(n, 10), uint32(int32(n))
		case 1:
			n := int32(r.Uint32())
			rhs, val = strconv.FormatInt(int64(n), 10), uint32(n)
		default:
			names := make([]string, 0, len(ErrnoByName))
			for n := range ErrnoByName {
				names = append(names, n)
			}
			sort.Strings(names)
			name := mon.Pick(r, names)
			if r.Bool() {
				rhs, val = "-"+name, uint32(int32(-ErrnoByName[name]))
			} else {
				rhs, val = name, uint32(ErrnoByName[name])
			}
		}
	case field == "msgtype":
		switch r.Intn(3) {
		case 0:
			names := make([]string, 0, len(uapi.MsgTypes))
			for n := range uapi.MsgTypes {
				names = append(names, n)
			}
			sort.Strings(names)
			name := mon.Pick(r, names)
			rhs, val = name, uapi.MsgTypes[name]
			if r.Chance(1, 4) {
				rhs = strings.ToLower(name)
			}
		case 1:
			n := mon.Pick(r, []uint32{0, 1, 1000, 1100, 1300, 2999, 65535, 65536, 70000, 4294967295})
			rhs, val = strconv.FormatUint(uint64(n), 10), n
		default:
			n := uint32(r.Intn(3000))
			rhs, val = strconv.FormatUint(uint64(n), 10), n
		}
	case field == "arch":
		rhs = mon.Pick(r, archNames)
		switch rhs {
		case "b64":
			val = uapi.Arches["x86_64"]
		case "b32":
			val = uapi.Arches["i386"]
		default:
			val = uapi.Arches[rhs]
		}
		ops = eqOps
	case field == "perm":
		letters := []byte("rwxa")
		var sb []byte
		n := r.Range(1, 4)
		mon.Shuffle(r, letters)
		sb = letters[:n]
		if r.Chance(1, 8) {
			sb = append(sb, sb[0]) // a repeated letter is harmless
		}
		rhs = string(sb)
		for _, c := range sb {
			val |= uapi.Perms[c]
		}
		ops = []string{"="}
	case field == "filetype":
		rhs = mon.Pick(r, filetypeNames)
		val = uapi.Filetypes[rhs]
	case contains(argFields, field):
		switch r.Intn(4) {
		case 0:
			n := r.Uint32()
			rhs, val = strconv.FormatUint(uint64(n), 10), n
		case 1:
			n := r.Uint32()
			rhs, val = fmt.Sprintf("0x%x", n), n
		case 2:
			n := -int64(r.Intn(1 << 31))
			rhs, val = strconv.FormatInt(n, 10), uint32(int32(n))
		default:
			n := mon.Pick(r, []uint32{0, 1, 2147483647, 2147483648, 4294967295})
			rhs, val = strconv.FormatUint(uint64(n), 10), n
		}
	case field == "inode":
		n := mon.Pick(r, []uint32{0, 1, 2, 4294967295, 123456})
		if r.Bool() {
			n = r.Uint32()
		}
		rhs, val = strconv.FormatUint(uint64(n), 10), n
		ops = eqOps
	case field == "saddr_fam":
		n := mon.Pick(r, []uint32{2, 10})
		rhs, val = strconv.FormatUint(uint64(n), 10), n
	default: // plain numeric
		n := mon.Pick(r, []uint32{0, 1, 2, 255, 65535, 2147483647, 2147483648, 4294967295})
		if r.Bool() {
			n = r.Uint32()
		}
		if field == "success" {
			n = uint32(r.Intn(2))
		}
		rhs, val = strconv.FormatUint(uint64(n), 10), n
	}
	return
}

func contains(xs []string, s string) bool {
	for _, x := range xs {
		if x == s {
			return true
		}
	}
	return false
}

// FieldsFor lists the field names the library admits on a list (value filters).
func FieldsFor(list string) []string {
	var out []string
	for _, f := range AllFieldNames() {
		if f == "key" && list == "exclude" {
			continue // the kernel (and the library) refuse keys on the exclude list
		}
		if list == "exclude" && !excludeOK[f] {
			continue
		}
		if exitOnly[f] && list != "exit" {
			continue
		}
		if f == "msgtype" && list != "user" && list != "exclude" {
			continue
		}
		out = append(out, f)
	}
	return out
}

// GenFilter builds one value filter for the given field (ok=false if impossible).
func GenFilter(r *mon.Rand, o *Opts, list, field string) Filter {
	f := Filter{LHS: field, Field: uapi.Fields[field]}
	if uapi.StringFields[f.Field] {
		f.Str = true
		max := 4096
		if field == "key" {
			max = 256 // AUDIT_MAX_KEY_LEN; a key may also be given as a filter (-F key=..., any operator)
		}
		f.RHS = randString(r, o, max)
		if fr := r.Fork(23); o.EdgeBlanks && len(f.RHS) < max-2 && fr.Chance(1, 10) {
			if fr.Bool() {
				f.RHS = mon.Pick(fr, []string{" ", "\t", "  "}) + f.RHS
			} else {
				f.RHS += mon.Pick(fr, []string{" ", "\t"})
			}
		}
		f.Op = mon.Pick(r, AllOps)
		if r.Chance(2, 3) {
			f.Op = mon.Pick(r, eqOps)
		}
		return f
	}
	rhs, val, ops := value(r, field, list)
	f.RHS, f.Value, f.Op = rhs, val, mon.Pick(r, ops)
	return f
}

// GenCompare builds one -C comparison.
func GenCompare(r *mon.Rand) Filter {
	pairs := make([]uapi.Pair, 0, len(uapi.Comparisons))
	for p := range uapi.Comparisons {
		pairs = append(pairs, p)
	}
	sort.Slice(pairs, func(i, j int) bool { return pairs[i].A+pairs[i].B < pairs[j].A+pairs[j].B })
	p := mon.Pick(r, pairs)
	a, b := p.A, p.B
	if r.Bool() {
		a, b = b, a
	}
	return Filter{Compare: true, LHS: a, Op: mon.Pick(r, eqOps), RHS: b, Field: uapi.FieldCompare, Value: uapi.Comparisons[p]}
}

// syscallTableFor returns the (name -> number) table used for names under an arch filter ("" = runtime x86_64).
func syscallNum(r *mon.Rand, arch string) Syscall {
	tableName := "x86_64"
	switch arch {
	case "", "b64", "x86_64":
	case "b32", "i386":
		tableName = "i386"
	default:
		tableName = arch
	}
	if r.Chance(1, 2) {
		var spot map[string]int
		switch tableName {
		case "x86_64":
			spot = SpotX8664
		case "i386":
			spot = SpotI386
		}
		if spot != nil {
			names := make([]string, 0, len(spot))
			for n := range spot {
				names = append(names, n)
			}
			sort.Strings(names)
			n := mon.Pick(r, names)
			return Syscall{Text: n, Num: spot[n], Independent: true}
		}
	}
	pub := auparse.AuditSyscalls[tableName]
	if len(pub) == 0 {
		n := r.Intn(400)
		return Syscall{Text: strconv.Itoa(n), Num: n, Independent: true}
	}
	nums := make([]int, 0, len(pub))
	for n := range pub {
		nums = append(nums, n)
	}
	sort.Ints(nums)
	n := mon.Pick(r, nums)
	// a name may be listed under several numbers only if the table is inconsistent (C20); skip ambiguous names
	return Syscall{Text: pub[n], Num: n}
}

// Random builds one random rule request that the library is expected to accept.
func Random(r *mon.Rand, o *Opts) *Spec {
	if o.WatchFile != "" && r.Chance(1, 10) {
		s := &Spec{Watch: true}
		if r.Bool() {
			s.Path, s.PathKind = o.WatchFile, "path"
		} else {
			s.Path, s.PathKind = o.WatchDir, "dir"
		}
		if r.Chance(1, 6) {
			// the component must stay below /nonexistent after cleaning: no '/', no "." / ".." (that would name "/", a directory)
			s.Path, s.PathKind = "/nonexistent/n"+strings.NewReplacer("/", "_", ".", "_").Replace(randSafe(r, r.Range(1, 20))), "path"
		}
		if r.Chance(4, 5) {
			letters := []byte("rwxa")
			mon.Shuffle(r, letters)
			s.Perms = string(letters[:r.Range(1, 4)])
		}
		for i, n := 0, r.Intn(3); i < n; i++ {
			k := randSafe(r, r.Range(1, 20))
			if o.KeyVariants {
				k = keyVariant(r, k)
			}
			s.Keys = append(s.Keys, k)
		}
		return s
	}
	s := &Spec{List: mon.Pick(r, []string{"exit", "exit", "exit", "task", "user", "exclude"}), Action: mon.Pick(r, []string{"always", "never"}), Prepend: r.Chance(1, 5), ActFirst: r.Bool()}
	fields := FieldsFor(s.List)
	maxF := o.MaxFilters
	if maxF == 0 {
		maxF = 8
	}
	nf := r.Intn(maxF + 1)
	if r.Chance(1, 40) {
		nf = r.Range(55, 63) // close to the 64-slot limit
	}
	arch := ""
	bufTotal := 0
	for i := 0; i < nf; i++ {
		if r.Chance(1, 8) && s.List != "exclude" {
			s.Filters = append(s.Filters, GenCompare(r))
			continue
		}
		field := mon.Pick(r, fields)
		if field == "arch" && arch != "" {
			continue // one arch filter per rule
		}
		f := GenFilter(r, o, s.List, field)
		if f.Str {
			bufTotal += len(f.RHS)
		}
		if field == "arch" {
			arch = f.RHS
		}
		s.Filters = append(s.Filters, f)
	}
	// syscalls
	switch r.Intn(5) {
	case 0: // none: all syscalls
	case 1:
		s.AllText = true
	default:
		seen := map[int]bool{}
		for i, n := 0, r.Range(1, 6); i < n; i++ {
			var sc Syscall
			if r.Chance(1, 2) {
				num := r.Intn(2048)
				if r.Chance(1, 4) {
					num = mon.Pick(r, []int{0, 31, 32, 63, 64, 1023, 1024, 2015, 2016, 2046, 2047})
				}
				sc = Syscall{Text: strconv.Itoa(num), Num: num, Independent: true}
			} else {
				sc = syscallNum(r, arch)
			}
			if !seen[sc.Num] {
				seen[sc.Num] = true
				s.Syscalls = append(s.Syscalls, sc)
			}
		}
	}
	// every syscall number of one whole mask word (32 numbers), so that single words of the mask are all ones
	// although the rule is not an "all syscalls" rule: the last word a decoder looks at (62), the first, others
	if fr := r.Fork(56); len(s.Syscalls) > 0 && fr.Chance(1, 25) {
		for _, w := range [][]int{{62}, {0}, {61, 62}, {63}, {fr.Intn(64)}, {0, 62}, {1, 62}}[fr.Intn(7)] {
			for b := 0; b < 32; b++ {
				n := w*32 + b
				s.Syscalls = append(s.Syscalls, Syscall{Text: strconv.Itoa(n), Num: n, Independent: true})
			}
		}
	}
	// a syscall may be requested more than once (-S open -S 2, -S open,close,open): the mask is a set of bits
	if fr := r.Fork(55); len(s.Syscalls) > 0 && fr.Chance(1, 6) {
		for i, n := 0, fr.Range(1, 3); i < n; i++ {
			d := mon.Pick(fr, s.Syscalls)
			if fr.Bool() {
				d = Syscall{Text: strconv.Itoa(d.Num), Num: d.Num, Independent: d.Independent}
			}
			s.Syscalls = append(s.Syscalls, d)
		}
	}
	if len(s.Syscalls) > 0 && o.AllLast && r.Chance(1, 8) {
		s.AllLast = true
	}
	// keys (joined length <= 256)
	if len(s.Filters) < 64 && s.List != "exclude" { // the kernel (and the library) refuse keys on the exclude list
		total := 0
		for i, n := 0, r.Intn(4); i < n; i++ {
			k := randSafe(r, r.Range(1, 30))
			if r.Chance(1, 20) && total < 250 {
				k = randSafe(r, 256-total-1)
			} else if o.KeyVariants {
				k = keyVariant(r, k)
			}
			if total+len(k)+1 > 256 || len(k) == 0 {
				break
			}
			k = strings.ReplaceAll(k, ",", "_") // -k splits on commas
			total += len(k) + 1
			s.Keys = append(s.Keys, k)
		}
	}
	return s
}
