// Package rulegen generates audit rules (as auditctl-style text and as Rule
// structs) together with the wire image the request must produce, computed
// independently from the hand-written UAPI tables, and decodes wire bytes at
// the UAPI offsets (little-endian).
package rulegen

import (
	"encoding/binary"
	"fmt"

	"verifharness/internal/uapi"
)

// Decoded is struct audit_rule_data read at fixed offsets.
type Decoded struct {
	Flags, Action, FieldCount  uint32
	Mask                       [64]uint32
	Fields, Values, FieldFlags [64]uint32
	BufLen                     uint32
	Buf                        []byte
	Tail                       []byte // bytes after header+buflen (padding)
	Len                        int
}

// Decode reads a wire image. It fails only when the image is shorter than the header.
func Decode(b []byte) (*Decoded, error) {
	if len(b) < uapi.RuleOffBuf {
		return nil, fmt.Errorf("wire image has %d bytes, header needs %d", len(b), uapi.RuleOffBuf)
	}
	le := binary.LittleEndian
	d := &Decoded{Len: len(b)}
	d.Flags, d.Action, d.FieldCount = le.Uint32(b[uapi.RuleOffFlags:]), le.Uint32(b[uapi.RuleOffAction:]), le.Uint32(b[uapi.RuleOffFieldCount:])
	for i := 0; i < 64; i++ {
		d.Mask[i] = le.Uint32(b[uapi.RuleOffMask+4*i:])
		d.Fields[i] = le.Uint32(b[uapi.RuleOffFields+4*i:])
		d.Values[i] = le.Uint32(b[uapi.RuleOffValues+4*i:])
		d.FieldFlags[i] = le.Uint32(b[uapi.RuleOffFieldFlags+4*i:])
	}
	d.BufLen = le.Uint32(b[uapi.RuleOffBufLen:])
	rest := b[uapi.RuleOffBuf:]
	if int(d.BufLen) <= len(rest) {
		d.Buf, d.Tail = rest[:d.BufLen], rest[d.BufLen:]
	} else {
		d.Buf = rest
	}
	return d, nil
}

// Triple is one (field, operator, value) slot, with its string for string fields.
type Triple struct {
	Field, Op, Value uint32
	Str              string
	IsStr            bool
}

// Expected is the wire content a request must produce.
type Expected struct {
	Flags, Action uint32
	Triples       []Triple
	AllSyscalls   bool
	Syscalls      []int
}

// Compare checks a wire image against the expectation; it returns "" or the first difference.
func Compare(b []byte, e *Expected) string {
	d, err := Decode(b)
	if err != nil {
		return err.Error()
	}
	if d.Flags != e.Flags {
		return fmt.Sprintf("flags (list) = %d, want %d", d.Flags, e.Flags)
	}
	if d.Action != e.Action {
		return fmt.Sprintf("action = %d, want %d", d.Action, e.Action)
	}
	if int(d.FieldCount) != len(e.Triples) {
		return fmt.Sprintf("field_count = %d, want %d", d.FieldCount, len(e.Triples))
	}
	var buf []byte
	for i, t := range e.Triples {
		if d.Fields[i] != t.Field {
			return fmt.Sprintf("fields[%d] = %d, want %d", i, d.Fields[i], t.Field)
		}
		if d.FieldFlags[i] != t.Op {
			return fmt.Sprintf("fieldflags[%d] = %#x, want %#x", i, d.FieldFlags[i], t.Op)
		}
		want := t.Value
		if t.IsStr {
			want = uint32(len(t.Str))
			buf = append(buf, t.Str...)
		}
		if d.Values[i] != want {
			return fmt.Sprintf("values[%d] = %d (%#x), want %d (%#x)", i, d.Values[i], d.Values[i], want, want)
		}
	}
	for i := len(e.Triples); i < 64; i++ {
		if d.Fields[i] != 0 || d.Values[i] != 0 || d.FieldFlags[i] != 0 {
			return fmt.Sprintf("unused slot %d is not zero (%d,%d,%#x)", i, d.Fields[i], d.Values[i], d.FieldFlags[i])
		}
	}
	if int(d.BufLen) != len(buf) {
		return fmt.Sprintf("buflen = %d, want the sum of the string lengths %d", d.BufLen, len(buf))
	}
	if string(d.Buf) != string(buf) {
		return fmt.Sprintf("string buffer = %q, want the strings back-to-back %q", clip(string(d.Buf), 80), clip(string(buf), 80))
	}
	wantLen := uapi.RuleOffBuf + len(buf)
	wantLen += (4 - wantLen%4) % 4
	if d.Len != wantLen {
		return fmt.Sprintf("total length = %d, want %d (header + buflen padded to 4)", d.Len, wantLen)
	}
	for _, c := range d.Tail {
		if c != 0 {
			return "padding bytes are not zero"
		}
	}
	if e.AllSyscalls {
		all1, all2 := true, true
		for i, w := range d.Mask {
			if w != 0xFFFFFFFF {
				all1 = false
			}
			if (i < 63 && w != 0xFFFFFFFF) || (i == 63 && w != 0x0000FFFF) {
				all2 = false
			}
		}
		if !all1 && !all2 {
			return fmt.Sprintf("syscall mask is not an all-syscalls pattern (word0=%#x word63=%#x)", d.Mask[0], d.Mask[63])
		}
	} else {
		var want [64]uint32
		for _, n := range e.Syscalls {
			want[n/32] |= 1 << (uint(n) % 32)
		}
		if d.Mask != want {
			for i := range want {
				if d.Mask[i] != want[i] {
					return fmt.Sprintf("syscall mask word %d = %#x, want %#x (requested syscalls %v)", i, d.Mask[i], want[i], e.Syscalls)
				}
			}
		}
	}
	return ""
}

func clip(s string, n int) string {
	if len(s) > n {
		return s[:n] + "…"
	}
	return s
}
