// Package simkernel is a simulated kernel behind the exported
// AuditClient.Netlink field (libaudit.NetlinkSendReceiver). It allocates
// request sequence numbers, answers every request with a scripted list of
// datagrams and transient receive failures, reuses ONE receive buffer that is
// overwritten with garbage before every delivery, and logs every Send,
// Receive and Close it sees.
package simkernel

import (
	"encoding/binary"
	"fmt"
	"os"
	"sync"
	"syscall"

	libaudit "github.com/elastic/go-libaudit/v2"
)

// Step is one outcome of a Receive call: a transient/permanent error or a datagram.
type Step struct {
	Err   syscall.Errno
	Dgram []byte
}

// SentMsg is one message handed to Send.
type SentMsg struct {
	Type, Flags uint16
	Seq, Pid    uint32
	Data        []byte
	RecvBefore  int // number of Receive calls made before this Send
}

// Sim implements libaudit.NetlinkSendReceiver.
type Sim struct {
	mu sync.Mutex

	NextSeq uint32
	// AllowSeqZero lets the transport hand out request sequence number 0.
	AllowSeqZero bool
	// OnSend scripts the kernel's reaction to the idx-th request.
	OnSend func(s *Sim, idx int, m SentMsg) []Step
	// Place, if set, positions the datagram (e.g. at a guard page) and returns the slice handed to the parser.
	Place func(d []byte) []byte

	Queue    []Step
	Sent     []SentMsg
	NRecv    int // Receive calls
	NDeliver int // datagrams handed to the parser
	NEmpty   int // Receive calls that found nothing queued (EAGAIN)
	NClose   int
	CloseErr error
	SendErr  error
	// WrapRecvErr: 0 = receive errors are bare errnos, 1 = *os.SyscallError, 2 = fmt.Errorf("%w")
	WrapRecvErr int
	// SendErrFn, when set, decides per Send call (counted from 0, refused ones included) whether the
	// transport refuses it.
	SendErrFn  func(nth int) error
	NSendCalls int
	Delivered  [][]byte // copies of delivered datagrams (in order)

	buf   []byte
	stamp byte
}

var _ libaudit.NetlinkSendReceiver = (*Sim)(nil)

// wrap returns the receive error the way the configured transport reports it: the bare errno, an
// *os.SyscallError around it, or a %w-wrapped error (a NetlinkSendReceiver may do any of these).
func (s *Sim) wrap(e syscall.Errno) error {
	switch s.WrapRecvErr {
	case 1:
		return &os.SyscallError{Syscall: "recvfrom", Err: e}
	case 2:
		return fmt.Errorf("netlink receive failed: %w", e)
	}
	return e
}

// New returns a simulator whose first request gets sequence number startSeq.
func New(startSeq uint32) *Sim {
	return &Sim{NextSeq: startSeq, buf: make([]byte, 16+8970+64)}
}

func (s *Sim) Send(msg syscall.NetlinkMessage) (uint32, error) {
	s.mu.Lock()
	defer s.mu.Unlock()
	if s.SendErr != nil {
		return 0, s.SendErr
	}
	s.NSendCalls++
	if s.SendErrFn != nil {
		if err := s.SendErrFn(s.NSendCalls - 1); err != nil {
			return 0, err
		}
	}
	if s.NextSeq == 0 && !s.AllowSeqZero {
		// A request numbered 0 cannot be told apart from an unsolicited event (sequence 0);
		// like the C libaudit transport the simulated transport skips it.
		s.NextSeq = 1
	}
	seq := s.NextSeq
	s.NextSeq++
	m := SentMsg{Type: msg.Header.Type, Flags: msg.Header.Flags, Seq: seq, Pid: msg.Header.Pid, Data: append([]byte(nil), msg.Data...), RecvBefore: s.NRecv}
	idx := len(s.Sent)
	s.Sent = append(s.Sent, m)
	if s.OnSend != nil {
		s.Queue = append(s.Queue, s.OnSend(s, idx, m)...)
	}
	return seq, nil
}

func (s *Sim) Receive(nonBlocking bool, p libaudit.NetlinkParser) ([]syscall.NetlinkMessage, error) {
	s.mu.Lock()
	defer s.mu.Unlock()
	s.NRecv++
	if len(s.Queue) == 0 {
		s.NEmpty++
		return nil, s.wrap(syscall.EAGAIN)
	}
	st := s.Queue[0]
	s.Queue = s.Queue[1:]
	if st.Err != 0 {
		return nil, s.wrap(st.Err)
	}
	// the one receive buffer is reused: everything handed out earlier is overwritten first
	s.stamp += 0x35
	for i := range s.buf {
		s.buf[i] = s.stamp ^ byte(i*7)
	}
	n := copy(s.buf, st.Dgram)
	s.NDeliver++
	s.Delivered = append(s.Delivered, append([]byte(nil), st.Dgram...))
	d := s.buf[:n]
	if s.Place != nil {
		d = s.Place(st.Dgram)
	}
	return p(d)
}

func (s *Sim) Close() error {
	s.mu.Lock()
	defer s.mu.Unlock()
	s.NClose++
	return s.CloseErr
}

// ---- datagram builders ----

// Dgram builds one netlink datagram (header + payload).
func Dgram(typ, flags uint16, seq, pid uint32, payload []byte) []byte {
	b := make([]byte, 16+len(payload))
	binary.LittleEndian.PutUint32(b[0:], uint32(len(b)))
	binary.LittleEndian.PutUint16(b[4:], typ)
	binary.LittleEndian.PutUint16(b[6:], flags)
	binary.LittleEndian.PutUint32(b[8:], seq)
	binary.LittleEndian.PutUint32(b[12:], pid)
	copy(b[16:], payload)
	return b
}

// Ack builds the kernel's NLMSG_ERROR acknowledgement of request m: a negative
// errno followed by the request's header (and payload when errno != 0).
func Ack(m SentMsg, errno syscall.Errno) []byte {
	p := make([]byte, 4+16)
	binary.LittleEndian.PutUint32(p[0:], uint32(-int32(errno)))
	binary.LittleEndian.PutUint32(p[4:], uint32(16+len(m.Data)))
	binary.LittleEndian.PutUint16(p[8:], m.Type)
	binary.LittleEndian.PutUint16(p[10:], m.Flags)
	binary.LittleEndian.PutUint32(p[12:], m.Seq)
	binary.LittleEndian.PutUint32(p[16:], m.Pid)
	if errno != 0 {
		p = append(p, m.Data...)
	}
	return Dgram(2 /* NLMSG_ERROR */, 0, m.Seq, m.Pid, p)
}

// Event builds an unsolicited audit record (sequence 0).
func Event(typ uint16, text string) []byte { return Dgram(typ, 0, 0, 0, []byte(text)) }
