package simkernel

import (
	"encoding/binary"
	"syscall"
	"testing"
)

func TestAckLayoutAndBufferReuse(t *testing.T) {
	m := SentMsg{Type: 1001, Flags: 5, Seq: 42, Pid: 7, Data: []byte{1, 2, 3, 4}}
	a := Ack(m, syscall.EPERM)
	if binary.LittleEndian.Uint16(a[4:]) != 2 || binary.LittleEndian.Uint32(a[8:]) != 42 {
		t.Fatalf("outer header wrong: %x", a[:16])
	}
	if int32(binary.LittleEndian.Uint32(a[16:])) != -1 || binary.LittleEndian.Uint32(a[20:]) != 20 || binary.LittleEndian.Uint16(a[24:]) != 1001 || len(a) != 16+4+16+4 {
		t.Fatalf("ack payload wrong: %x", a[16:])
	}
	s := New(0xFFFFFFFF)
	s.Queue = []Step{{Dgram: Dgram(1300, 0, 0, 0, []byte("first"))}, {Err: syscall.EINTR}, {Dgram: Dgram(1300, 0, 0, 0, []byte("second"))}}
	var first []byte
	p := func(b []byte) ([]syscall.NetlinkMessage, error) {
		if first == nil {
			first = b[16:]
		}
		return []syscall.NetlinkMessage{{Data: b[16:]}}, nil
	}
	s.Receive(true, p)
	if _, err := s.Receive(true, p); err != syscall.EINTR {
		t.Fatal("scripted transient error not returned")
	}
	s.Receive(true, p)
	if string(first[:5]) == "first" {
		t.Fatal("the receive buffer was not reused/overwritten")
	}
	if _, err := s.Receive(true, p); err != syscall.EAGAIN || s.NEmpty != 1 {
		t.Fatal("empty queue must give EAGAIN")
	}
	if seq, _ := s.Send(syscall.NetlinkMessage{}); seq != 0xFFFFFFFF {
		t.Fatal(seq)
	}
	if seq, _ := s.Send(syscall.NetlinkMessage{}); seq != 1 { // 0 is skipped
		t.Fatal(seq)
	}
}
