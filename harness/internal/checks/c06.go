package checks

import (
	"bytes"
	"encoding/json"
	"fmt"
	"os"
	"path/filepath"
	"sort"
	"strconv"
	"strings"

	"github.com/elastic/go-libaudit/v2/auparse"
	"github.com/elastic/go-libaudit/v2/rule"
	"github.com/elastic/go-libaudit/v2/rule/flags"

	"verifharness/internal/mon"
	"verifharness/internal/rulegen"
	"verifharness/internal/uapi"
)

// C06: built rules are byte-exact audit_rule_data for what was asked.

func watchTargets(c *mon.Ctx) (dir, file string) {
	dir = filepath.Join(c.WorkDir, "watch-dir")
	file = filepath.Join(c.WorkDir, "watch-file")
	os.MkdirAll(dir, 0o755)
	os.WriteFile(file, []byte("x"), 0o644)
	// symbolic links: the kind of a watch follows what the path resolves to (stat, as auditctl does)
	for name, target := range map[string]string{"link-to-dir": dir, "link-to-file": file, "dangling-link": filepath.Join(c.WorkDir, "no-such-target")} {
		p := filepath.Join(c.WorkDir, name)
		os.Remove(p)
		os.Symlink(target, p)
	}
	os.MkdirAll(filepath.Join(dir, "sub"), 0o755)
	return
}

func firstField(s *rulegen.Spec) string {
	if s.Watch {
		return "watch"
	}
	if len(s.Filters) == 1 {
		return s.Filters[0].LHS
	}
	return "multi"
}

func safeForText(s *rulegen.Spec) bool {
	// The line is written with the harness's own POSIX single-quote quoting, so any byte string can be
	// an argument. Excluded: empty values, NUL, and - for keys and watch paths - blanks at either end (the flag
	// parser trims blanks around list items by design); keys must not contain the list separator.
	ok := func(v string) bool {
		return v != "" && strings.IndexByte(v, 0) < 0 && strings.TrimSpace(v) == v
	}
	for _, f := range s.Filters {
		// a filter value is everything after the operator, blanks at either end included
		if f.Str && (f.RHS == "" || strings.IndexByte(f.RHS, 0) >= 0) {
			return false
		}
		// "f<" + "=x" reads as f <= x: the text form cannot express a value that starts with '=' after <, > or &
		if (f.Op == "<" || f.Op == ">" || f.Op == "&") && strings.HasPrefix(f.RHS, "=") {
			return false
		}
	}
	for _, k := range s.Keys {
		if !ok(k) || strings.Contains(k, ",") {
			return false
		}
	}
	return !s.Watch || ok(s.Path)
}

// c06One evaluates one request through both routes.
func c06One(c *mon.Ctx, s *rulegen.Spec) {
	exp := s.Expected()
	var viaStruct, viaText []byte
	var errS, errT error
	var parsed rule.Rule
	var rebuilt []byte
	var rebuiltErr error
	rebuildDiffers := false
	text := s.Text()
	p, st := mon.Try(func() {
		var w rule.WireFormat
		rl := s.Rule()
		w, errS = rule.Build(rl)
		viaStruct = w
		// the same Rule value built again gives the same bytes (Build must not change what it is given)
		if errS == nil {
			if w2, err2 := rule.Build(rl); err2 != nil || !bytes.Equal(w, w2) {
				rebuilt, rebuiltErr = w2, err2
				rebuildDiffers = true
			}
		}
		if safeForText(s) {
			parsed, errT = flags.Parse(text)
			if errT == nil {
				w, errT = rule.Build(parsed)
				viaText = w
			}
		}
	})
	if p != nil {
		c.Violation("panic", fmt.Sprintf("panic %v for rule %q\n%s", p, clipStr(text, 300), st), s)
		return
	}
	if errS != nil {
		c.Violation("valid-rule-rejected:"+firstField(s), fmt.Sprintf("Build rejected a valid request: %v\n  rule: %s", errS, clipStr(text, 400)), s)
		return
	}
	if rebuildDiffers {
		c.Violation("second-build-differs:"+firstField(s), fmt.Sprintf("building the SAME Rule value a second time gives different wire data (%d bytes, err=%v; first build %d bytes): %s\n  rule: %s", len(rebuilt), rebuiltErr, len(viaStruct), rulegen.Compare(rebuilt, exp), clipStr(text, 400)), s)
		return
	}
	if d := rulegen.Compare(viaStruct, exp); d != "" {
		c.Violation("wire-mismatch:"+firstField(s), fmt.Sprintf("wire data differs from the request (Rule struct route): %s\n  rule: %s", d, clipStr(text, 400)), s)
		return
	}
	c.Add("struct_route_ok", 1)
	if safeForText(s) {
		if errT != nil {
			c.Violation("valid-text-rejected:"+firstField(s), fmt.Sprintf("flags.Parse/Build rejected a valid line: %v\n  rule: %s", errT, clipStr(text, 400)), s)
			return
		}
		if d := rulegen.Compare(viaText, exp); d != "" {
			c.Violation("wire-mismatch-text:"+firstField(s), fmt.Sprintf("wire data differs from the request (text route): %s\n  rule: %s", d, clipStr(text, 400)), s)
			return
		}
		if !bytes.Equal(viaText, viaStruct) {
			c.Violation("routes-disagree", fmt.Sprintf("text and struct routes give different bytes\n  rule: %s", clipStr(text, 400)), s)
		}
		c.Add("text_route_ok", 1)
	}
}

func c06Run(c *mon.Ctx) {
	dir, file := watchTargets(c)
	ev := c.Counter("evaluations")
	nt := c.DistinctSet("nontrivial")
	run := func(s *rulegen.Spec) {
		c06One(c, s)
		ev.Add(1)
		nt.AddString(s.Text())
		if c.WantSample() {
			c.Sample(map[string]any{"rule": clipStr(s.Text(), 300)})
		}
	}
	// (1) grid: every list x action x admitted field x admitted operator x several values
	type cell struct{ list, action, field, op string }
	var cells []cell
	for _, l := range []string{"exit", "task", "user", "exclude"} {
		for _, a := range []string{"always", "never"} {
			for _, f := range rulegen.FieldsFor(l) {
				for _, op := range rulegen.AllOps {
					cells = append(cells, cell{l, a, f, op})
				}
			}
		}
	}
	vals := c.Pick(5, 100)
	c.ForEach(len(cells)*vals, func(w, i int) {
		ce := cells[i/vals]
		r := c.Rand(1, uint64(i))
		o := &rulegen.Opts{}
		f := rulegen.GenFilter(r, o, ce.list, ce.field)
		// operator admitted by the field class?
		switch ce.field {
		case "arch", "inode":
			if ce.op != "=" && ce.op != "!=" {
				return
			}
		case "perm":
			if ce.op != "=" {
				return
			}
		}
		f.Op = ce.op
		s := &rulegen.Spec{List: ce.list, Action: ce.action, Filters: []rulegen.Filter{f}}
		run(s)
		c.Add("grid_cells", 1)
	})
	// (2) every inter-field comparison both ways x {=, !=}
	for p, code := range uapi.Comparisons {
		for _, op := range []string{"=", "!="} {
			for _, sw := range []bool{false, true} {
				a, b := p.A, p.B
				if sw {
					a, b = b, a
				}
				run(&rulegen.Spec{List: "exit", Action: "always", Filters: []rulegen.Filter{{Compare: true, LHS: a, Op: op, RHS: b, Field: uapi.FieldCompare, Value: code}}})
				c.Add("comparison_cells", 1)
			}
		}
	}
	// (3) every single syscall bit 0..2047
	c.ForEach(2048, func(w, i int) {
		run(&rulegen.Spec{List: "exit", Action: "always", Syscalls: []rulegen.Syscall{{Text: strconv.Itoa(i), Num: i, Independent: true}}})
		c.Add("syscall_bits", 1)
	})
	// (3b) a syscall NAME means a number of the rule's architecture: a name that this architecture's table does not
	// have (but another one has, the host's in particular) has no bit there, so the rule cannot be built as asked
	{
		archs := make([]string, 0, len(auparse.AuditSyscalls))
		for a := range auparse.AuditSyscalls {
			archs = append(archs, a)
		}
		sort.Strings(archs)
		byArch := map[string]map[string]int{}
		allNames := map[string]bool{}
		for _, a := range archs {
			byArch[a] = map[string]int{}
			for n, name := range auparse.AuditSyscalls[a] {
				byArch[a][name] = n
				allNames[name] = true
			}
		}
		names := make([]string, 0, len(allNames))
		for n := range allNames {
			names = append(names, n)
		}
		sort.Strings(names)
		type job struct{ arch, table, name string }
		var jobs []job
		for _, a := range archs {
			for _, n := range names {
				if _, ok := byArch[a][n]; !ok {
					jobs = append(jobs, job{a, a, n})
					if a == "i386" {
						jobs = append(jobs, job{"b32", a, n})
					}
				}
			}
		}
		c.ForEach(len(jobs), func(w, i int) {
			j := jobs[i]
			s := &rulegen.Spec{List: "exit", Action: "always", Filters: []rulegen.Filter{{LHS: "arch", Op: "=", RHS: j.arch, Field: uapi.Fields["arch"]}}, Syscalls: []rulegen.Syscall{{Text: j.name, Num: -1}}}
			ev.Add(1)
			c.Add("syscall_names_foreign_to_the_rule_arch", 1)
			var wire rule.WireFormat
			var err error
			if p, st := mon.Try(func() { wire, err = rule.Build(s.Rule()) }); p != nil {
				c.Violation("panic", fmt.Sprintf("Build panicked for -F arch=%s -S %s: %v\n%s", j.arch, j.name, p, st), s)
			} else if err == nil {
				d, _ := rulegen.Decode(wire)
				var bits []int
				for b := 0; b < 2048; b++ {
					if d.Mask[b/32]&(1<<(uint(b)%32)) != 0 {
						bits = append(bits, b)
					}
				}
				c.Violation("syscall-name-not-in-arch-accepted", fmt.Sprintf("-F arch=%s -S %s was accepted although the %s syscall table has no %s; mask bits set: %v (under that architecture these are other syscalls)", j.arch, j.name, j.table, j.name, bits), s)
			}
		})
	}
	// (3c) one spelling, one number: a numeric value written with a leading zero, a radix prefix or digit
	// separators means the same number in every numeric field that accepts the spelling (which spellings are
	// accepted, and in which radix a leading zero is read, is the library's choice - but it cannot be octal in
	// a0 and decimal in msgtype: the value word would not be "what was asked" in one of them)
	{
		type cell struct{ list, field string }
		cells := []cell{{"exit", "a0"}, {"exit", "a3"}, {"exit", "pid"}, {"exit", "ppid"}, {"exit", "inode"}, {"exit", "devmajor"}, {"exit", "exit"}, {"exit", "sessionid"}, {"exit", "pers"},
			{"exclude", "msgtype"}, {"user", "msgtype"}, {"exclude", "pid"}, {"user", "pid"}, {"task", "pid"}}
		for _, lit := range []string{"1300", "01300", "02424", "0x514", "0X514", "0b10100010100", "0o2424", "1_300", "0_1300", "007", "010", "0x10", "1e3", "1300 ", "+1300", "00", "0x0", "01309", "1100", "0x44c", "02114"} {
			got := map[uint32][]string{}
			for _, cl := range cells {
				if _, known := uapi.Fields[cl.field]; !known {
					continue
				}
				s := &rulegen.Spec{List: cl.list, Action: "always", Filters: []rulegen.Filter{{LHS: cl.field, Op: "=", RHS: lit, Field: uapi.Fields[cl.field]}}}
				var wire rule.WireFormat
				var err error
				ev.Add(1)
				if p, st := mon.Try(func() { wire, err = rule.Build(s.Rule()) }); p != nil {
					c.Violation("panic", fmt.Sprintf("Build panicked for -F %s=%s: %v\n%s", cl.field, lit, p, st), s)
					continue
				}
				if err != nil {
					continue
				}
				d, _ := rulegen.Decode(wire)
				if d.FieldCount == 1 {
					got[d.Values[0]] = append(got[d.Values[0]], cl.list+":"+cl.field)
				}
			}
			c.Add("numeric_spellings_compared_across_fields", 1)
			if len(got) > 1 {
				c.Violation("spelling-means-different-numbers", fmt.Sprintf("the value %q is encoded as different numbers depending on the field: %v", lit, got), &rulegen.Spec{List: "exit", Action: "always", Filters: []rulegen.Filter{{LHS: "a0", Op: "=", RHS: lit}}})
			}
		}
	}
	// (4) 0..64 filters accepted, 65 must be rejected (a field count of 65 cannot be represented)
	for n := 0; n <= 66; n++ {
		s := &rulegen.Spec{List: "exit", Action: "always"}
		for i := 0; i < n; i++ {
			s.Filters = append(s.Filters, rulegen.Filter{LHS: "pid", Op: "=", RHS: strconv.Itoa(i), Field: 0, Value: uint32(i)})
		}
		if n <= 64 {
			run(s)
			continue
		}
		w, err := rule.Build(s.Rule())
		ev.Add(1)
		if err == nil {
			c.Violation("too-many-fields-accepted", fmt.Sprintf("Build accepted %d filters (field_count would be %d > 64); got %d bytes", n, n, len(w)), s)
		}
	}
	// 63 filters + key = 64 accepted; 64 filters + key rejected
	for _, n := range []int{63, 64} {
		s := &rulegen.Spec{List: "exit", Action: "always", Keys: []string{"k"}}
		for i := 0; i < n; i++ {
			s.Filters = append(s.Filters, rulegen.Filter{LHS: "pid", Op: "=", RHS: strconv.Itoa(i), Field: 0, Value: uint32(i)})
		}
		if n == 63 {
			run(s)
		} else {
			var err error
			if p, st := mon.Try(func() { _, err = rule.Build(s.Rule()) }); p != nil {
				c.Violation("panic", fmt.Sprintf("Build panicked for 64 filters + a key: %v\n%s", p, st), s)
			} else if err == nil {
				c.Violation("too-many-fields-accepted", "Build accepted 64 filters + a key (65 slots)", s)
			}
		}
	}
	// (4b) values that do not fit the 32-bit value slot cannot be encoded as asked: they must be refused
	for _, l := range []string{"exit", "user", "task", "exclude"} {
		for _, f := range rulegen.FieldsFor(l) {
			if uapi.StringFields[uapi.Fields[f]] || f == "arch" || f == "perm" || f == "filetype" {
				continue
			}
			for _, v := range []string{"4294967296", "4294967297", "4294967298", "4294967306", "-2147483649", "-4294967295", "-4294967296", "9223372036854775807", "-9223372036854775808", "18446744073709551615", "18446744073709551616", "99999999999", "0x100000000", "0x10000000a"} {
				if f == "exit" && strings.HasPrefix(v, "-") && len(v) <= 11 && v != "-2147483649" && v != "-4294967295" && v != "-4294967296" {
					continue
				}
				s := &rulegen.Spec{List: l, Action: "always", Filters: []rulegen.Filter{{LHS: f, Op: "=", RHS: v, Field: uapi.Fields[f]}}}
				w, err := rule.Build(s.Rule())
				ev.Add(1)
				c.Add("unrepresentable_values", 1)
				if err == nil {
					d, _ := rulegen.Decode(w)
					c.Violation("unrepresentable-value-accepted:"+f, fmt.Sprintf("Build accepted %s=%s, which does not fit the 32-bit value slot, and encoded it as %d (%#x): the rule is not what was asked", f, v, d.Values[0], d.Values[0]), s)
				}
			}
		}
	}
	// (5) key length limit: joined keys of 256 bytes accepted
	run(&rulegen.Spec{List: "exit", Action: "always", Keys: []string{strings.Repeat("k", 256)}})
	run(&rulegen.Spec{List: "exit", Action: "always", Keys: []string{strings.Repeat("a", 100), strings.Repeat("b", 100), strings.Repeat("c", 54)}})
	// (6) string fields of every boundary length
	for _, f := range []string{"path", "dir", "exe", "subj_user", "obj_type", "obj_lev_high"} {
		for _, n := range []int{1, 2, 3, 4, 5, 255, 256, 1023, 4095, 4096} {
			run(&rulegen.Spec{List: "exit", Action: "always", Filters: []rulegen.Filter{{LHS: f, Op: "=", RHS: strings.Repeat("s", n), Field: uapi.Fields[f], Str: true}}})
		}
	}
	// (7) watches: file and directory with every permission subset
	wd := filepath.Dir(dir)
	for _, target := range []struct{ p, kind string }{{file, "path"}, {dir, "dir"}, {"/nonexistent/verif", "path"}, {dir + "/../watch-dir/.", "dir"},
		{wd + "/link-to-dir", "dir"}, {wd + "/link-to-file", "path"}, {wd + "/dangling-link", "path"}, {wd + "/link-to-dir/sub", "dir"}, {wd + "/link-to-dir/", "dir"}} {
		for m := 0; m < 16; m++ {
			perms := ""
			for i, l := range "rwxa" {
				if m&(1<<i) != 0 {
					perms += string(l)
				}
			}
			for _, keys := range [][]string{nil, {"k1"}, {"k1", "k2"}} {
				run(&rulegen.Spec{Watch: true, Path: target.p, PathKind: target.kind, Perms: perms, Keys: keys})
				c.Add("watch_cells", 1)
			}
		}
	}
	// (7b) permission letters may repeat: the value is the set of the letters given, however many there are
	for _, target := range []struct{ p, kind string }{{file, "path"}, {dir, "dir"}} {
		for _, perms := range []string{"ww", "waw", "wawa", "rrrr", "xxxxx", "rwrwrw", "aaaaaaaa", "rwxr", "rwxarwxa", "wwwwa", "rxrxrxrxrx"} {
			run(&rulegen.Spec{Watch: true, Path: target.p, PathKind: target.kind, Perms: perms, Keys: []string{"k"}})
			c.Add("watch_cells_with_repeated_permission_letters", 1)
		}
	}
	// (8) random rules (safe strings: both routes; hostile strings: struct route)
	n := c.Pick(60_000, 20_000_000)
	c.ForEach(n, func(w, i int) {
		r := c.Rand(2, uint64(i))
		o := &rulegen.Opts{WatchDir: dir, WatchFile: file, HostileStrings: i%4 == 0, KeyVariants: true, AllLast: true, EdgeBlanks: true}
		run(rulegen.Random(r, o))
	})
	c.Require("struct_route_ok", 1000)
	c.Require("text_route_ok", 1000)
	c.Require("grid_cells", 1000)
}

func init() {
	register(&mon.CheckSpec{
		ID: "C06", Level: "exploration",
		Rule: "cases = (1) grid: every list x action x every field name the library admits on that list x every operator the field class admits x V seeded boundary/random values (uids/gids at 0, 2^31-1, 2^31, 2^32-2, unset, -1; exit codes by number and errno name; msgtype by name and number; every perm subset; every filetype; arch names; a0-a3 decimal/hex/negative; string lengths 1-4096), (2) every inter-field comparison in both orders x {=,!=}, (3) every single syscall bit 0..2047, (3b) every (architecture with a syscall table, syscall name of some other table that this table lacks) pair - incl. b32 - must be refused, (3c) 21 numeric spellings (leading zeros, 0x / 0b / 0o prefixes, digit separators, exponent, sign, trailing blank) in 14 (list, numeric field) cells - a0, pid, inode, exit, msgtype, ... -: every field that accepts a spelling must encode the same number for it, (4) 0..64 filters (65 must be rejected), (5) key-length limit, (6) string boundary lengths, (7) watches on an existing file, an existing directory, a missing path, symbolic links to a directory / to a file / dangling, and a directory reached through a link, with every permission subset (and permission strings that repeat letters, 2-10 long) and 0-2 keys, (8) seeded random multi-filter rules with syscall sets by number and by name and 0-3 keys. Every request goes through Build from a Rule struct and (when its strings are shell-safe) through flags.Parse+Build from text; the bytes are decoded at the UAPI offsets by an independent little-endian decoder and compared with the request. distinct_nontrivial = distinct requests (by text).",
		Assumptions: []string{
			"expected codes come from internal/uapi (hand-written from linux/audit.h, self-tested against /usr/include/linux/audit.h in setup)",
			"expected values are computed by the harness's own parsers; syscall names resolve through an x/sys/unix spot table where available, otherwise through the published table",
			"either all-syscalls mask pattern is accepted; explicit syscalls followed by 'all' mean every syscall; 'all' followed by explicit syscalls is not generated (the library then keeps only the explicit ones - auditctl would keep all)",
			"little-endian host (amd64)",
		},
		Phases: plainPhase("encode"),
		Run:    c06Run,
		Replay: func(c *mon.Ctx, kase json.RawMessage) {
			var s rulegen.Spec
			if json.Unmarshal(kase, &s) != nil {
				return
			}
			fmt.Println("replay: rule:", s.Text())
			c06One(c, &s)
		},
	})
}
