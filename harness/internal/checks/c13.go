package checks

import (
	"encoding/binary"
	"encoding/json"
	"fmt"
	"net"
	"os"
	"path/filepath"
	"runtime"
	"runtime/debug"
	"strings"
	"syscall"
	"time"

	"github.com/elastic/go-libaudit/v2/rule"
	"github.com/elastic/go-libaudit/v2/rule/flags"

	"verifharness/internal/logenc"
	"verifharness/internal/mon"
	"verifharness/internal/rulegen"
	"verifharness/internal/uapi"
)

// C13: rule encoder, decoder and flag parser never panic, hang or allocate in
// proportion to numbers found in the input; ToCommandLine succeeds only on
// structurally valid rules.

type c13Case struct {
	Kind string          `json:"kind"` // decode | build | parse
	Wire []byte          `json:"wire,omitempty"`
	Line string          `json:"line,omitempty"`
	Rule *c13Rule        `json:"rule,omitempty"`
	Note string          `json:"note,omitempty"`
	Raw  json.RawMessage `json:"-"`
}

type c13Rule struct {
	Form     string            `json:"form"` // syscall | watch | nil | typed-nil-syscall | typed-nil-watch | foreign | deleteall
	List     string            `json:"list"`
	Action   string            `json:"action"`
	Filters  []rule.FilterSpec `json:"filters"`
	Syscalls []string          `json:"syscalls"`
	Keys     []string          `json:"keys"`
	Path     string            `json:"path"`
	Perms    []rule.AccessType `json:"perms"`
}

type foreignRule struct{}

func (foreignRule) TypeOf() rule.Type { return rule.AppendSyscallRuleType }

func (r *c13Rule) value() rule.Rule {
	switch r.Form {
	case "nil":
		return nil
	case "typed-nil-syscall":
		return (*rule.SyscallRule)(nil)
	case "typed-nil-watch":
		return (*rule.FileWatchRule)(nil)
	case "foreign":
		return foreignRule{}
	case "deleteall":
		return &rule.DeleteAllRule{Type: rule.DeleteAllRuleType, Keys: r.Keys}
	case "watch":
		return &rule.FileWatchRule{Type: rule.FileWatchRuleType, Path: r.Path, Permissions: r.Perms, Keys: r.Keys}
	}
	return &rule.SyscallRule{Type: rule.AppendSyscallRuleType, List: r.List, Action: r.Action, Filters: r.Filters, Syscalls: r.Syscalls, Keys: r.Keys}
}

var c13SyscallNums = []string{"-1", "0", "31", "32", "2047", "2048", "2049", "2063", "2079", "2080", "2111", "2112", "4095", "4096", "65535", "2147483647", "2147483648", "4294967295", "4294967296", "1000000000000000000000000000000", "-2147483648", "0x7ff", "0x800", "0x81f", "all", "", " ", "open", "nosuchcall", "٣"}

// c13Soup concatenates 1-5 fragments of the punctuation the value parsers of the rule package look for
// (bracketed type numbers, signs, base prefixes, errno names, separators): near-misses of every
// structured value syntax, e.g. "][", "UNKNOWN]1329[", "-E", "0x-1", "[[1]".
func c13Soup(r *mon.Rand) string {
	frags := []string{"UNKNOWN", "[", "]", "[", "]", "1329", "1", "-", "+", "0x", "E", "EPERM", "x", " ", ",", "=", "b", "64", "unset", "\x00", "'", "65536", "4294967296"}
	var sb strings.Builder
	for i, n := 0, r.Range(1, 5); i < n; i++ {
		sb.WriteString(mon.Pick(r, frags))
	}
	return sb.String()
}

func c13HostileString(r *mon.Rand) string {
	switch r.Intn(12) {
	case 10, 11:
		return c13Soup(r)
	case 0:
		return ""
	case 1:
		return string(r.Bytes(r.Range(1, 12)))
	case 2:
		return strings.Repeat("A", mon.Pick(r, []int{255, 256, 257, 4095, 4096, 4097, 70000}))
	case 3:
		return mon.Pick(r, c13SyscallNums)
	case 4:
		return mon.Pick(r, []string{"exit", "always", "never", "task", "user", "exclude", "entry", "possible", "filesystem"})
	case 5:
		return mon.Pick(r, rulegen.AllFieldNames())
	case 6:
		return mon.Pick(r, []string{"=", "!=", "<", ">", "<=", ">=", "&", "&=", "==", "=>", "!", ""})
	case 7:
		return mon.Pick(r, []string{"root", "nobody", "-EPERM", "EPERM", "-E", "b64", "b32", "x86_64", "zz", "rwxa", "rwxaq", "file", "socket", "UNKNOWN[1]", "UNKNOWN[99999999]", "0x", "-0x1", "1e9", "+5", " 5", "5 "})
	default:
		return fmt.Sprint(r.Uint32())
	}
}

func c13GenRule(r *mon.Rand) *c13Rule {
	switch r.Intn(40) {
	case 0:
		return &c13Rule{Form: "nil"}
	case 1:
		return &c13Rule{Form: "typed-nil-syscall"}
	case 2:
		return &c13Rule{Form: "typed-nil-watch"}
	case 3:
		return &c13Rule{Form: "foreign"}
	case 4:
		return &c13Rule{Form: "deleteall", Keys: []string{c13HostileString(r)}}
	case 5, 6, 7:
		w := &c13Rule{Form: "watch", Path: mon.Pick(r, []string{"", "/", "relative/path", "/tmp", "/a/../../..", "/" + strings.Repeat("p", 5000), "/x\x00y", c13HostileString(r)})}
		for i, n := 0, r.Intn(6); i < n; i++ {
			w.Perms = append(w.Perms, rule.AccessType(r.Intn(7)))
		}
		for i, n := 0, r.Intn(3); i < n; i++ {
			w.Keys = append(w.Keys, c13HostileString(r))
		}
		return w
	}
	s := &c13Rule{Form: "syscall", List: mon.Pick(r, []string{"exit", "exit", "task", "user", "exclude", "", "entry", c13HostileString(r)}), Action: mon.Pick(r, []string{"always", "never", "", "possible", c13HostileString(r)})}
	nf := r.Intn(6)
	if r.Chance(1, 15) {
		nf = r.Range(60, 200)
	}
	fields := rulegen.AllFieldNames()
	for i := 0; i < nf; i++ {
		f := rule.FilterSpec{Type: rule.FilterType(r.Intn(4)), LHS: mon.Pick(r, fields), Comparator: mon.Pick(r, rulegen.AllOps), RHS: c13HostileString(r)}
		if r.Chance(1, 3) {
			// the fields whose values go through a parser of their own
			f.LHS = mon.Pick(r, []string{"msgtype", "exit", "arch", "perm", "filetype", "uid", "gid", "auid", "a0", "success", "inode", "devmajor", "pers", "saddr_fam", "sessionid", "field_compare"})
		}
		if r.Chance(1, 5) {
			f.LHS = c13HostileString(r)
		}
		if r.Chance(1, 8) {
			f.Comparator = c13HostileString(r)
		}
		if r.Chance(1, 3) {
			f.RHS = fmt.Sprint(r.Intn(100))
		}
		s.Filters = append(s.Filters, f)
	}
	for i, n := 0, r.Intn(5); i < n; i++ {
		if r.Chance(2, 3) {
			s.Syscalls = append(s.Syscalls, mon.Pick(r, c13SyscallNums))
		} else {
			s.Syscalls = append(s.Syscalls, c13HostileString(r))
		}
	}
	for i, n := 0, r.Intn(4); i < n; i++ {
		s.Keys = append(s.Keys, c13HostileString(r))
	}
	return s
}

var c13WordValues = []uint32{0, 1, 63, 64, 65, 255, 256, 1 << 16, 1<<31 - 1, 1 << 31, 1<<32 - 1, 1<<32 - 2, 1<<32 - 64}

// c13Postcondition: when ToCommandLine succeeded the input must be structurally valid.
func c13Postcondition(wire []byte) string {
	d, err := rulegen.Decode(wire)
	if err != nil {
		return "input shorter than the header"
	}
	if d.FieldCount > 64 {
		return fmt.Sprintf("field_count = %d > 64", d.FieldCount)
	}
	if int64(d.BufLen) > int64(len(wire)-uapi.RuleOffBuf) {
		return fmt.Sprintf("buflen = %d exceeds the %d bytes that follow the header", d.BufLen, len(wire)-uapi.RuleOffBuf)
	}
	var sum uint64
	for i := 0; i < int(d.FieldCount); i++ {
		if uapi.StringFields[d.Fields[i]] {
			sum += uint64(d.Values[i])
		}
	}
	if sum > uint64(d.BufLen) {
		return fmt.Sprintf("string lengths sum to %d > buflen %d", sum, d.BufLen)
	}
	return ""
}

type c13Env struct {
	c     *mon.Ctx
	hw    *mon.HangWatch
	inf   *mon.Inflight
	guard []*mon.Guard
	alloc bool
}

func (e *c13Env) measure(w int, inputLen int, f func()) (p any, st string, over string) {
	var m0, m1 runtime.MemStats
	if e.alloc {
		runtime.ReadMemStats(&m0)
	}
	p, st = mon.Try(f)
	if e.alloc {
		runtime.ReadMemStats(&m1)
		delta := m1.TotalAlloc - m0.TotalAlloc
		bound := uint64(64*inputLen + 1<<20)
		e.c.Max("max_bytes_allocated_by_one_call", int64(delta))
		if delta > bound {
			over = fmt.Sprintf("one call allocated %d bytes for an input of %d bytes (bound 64*len+1MiB = %d)", delta, inputLen, bound)
		}
	}
	return
}

func (e *c13Env) decode(w int, wire []byte, note string) {
	c := e.c
	k := &c13Case{Kind: "decode", Wire: wire, Note: note}
	e.inf.Set(w, 'd', wire)
	e.hw.Begin(w, k)
	defer e.hw.End(w)
	placed := wire
	if e.guard != nil && e.guard[w] != nil {
		placed = e.guard[w].Place(wire)
	}
	var text string
	var err error
	p, st, over := e.measure(w, len(wire), func() { text, err = rule.ToCommandLine(rule.WireFormat(placed), false) })
	c.Add("decode_calls", 1)
	if p != nil {
		sig := "decode-panic:" + mon.PanicSite(st)
		if strings.Contains(fmt.Sprint(p), "fault") {
			sig = "decode-read-outside-buffer"
		}
		c.Violation(sig, fmt.Sprintf("ToCommandLine panicked: %v (%s; input %d bytes)\n%s", p, note, len(wire), st), k)
		return
	}
	if over != "" {
		c.Violation("decode-over-allocation", over+" ("+note+")", k)
	}
	if err == nil {
		c.Add("decode_successes", 1)
		if msg := c13Postcondition(wire); msg != "" {
			c.Violation("decode-accepts-invalid", fmt.Sprintf("ToCommandLine succeeded (%q) on a structurally invalid rule: %s (%s)", clipStr(text, 120), msg, note), k)
		}
	} else {
		c.Add("decode_errors", 1)
	}
}

func (e *c13Env) build(w int, r *c13Rule) {
	c := e.c
	k := &c13Case{Kind: "build", Rule: r}
	b, _ := json.Marshal(r)
	e.inf.Set(w, 'b', b)
	e.hw.Begin(w, k)
	defer e.hw.End(w)
	var wf rule.WireFormat
	var err error
	p, st, over := e.measure(w, len(b), func() { wf, err = rule.Build(r.value()) })
	c.Add("build_calls", 1)
	if p != nil {
		sig := "build-panic:" + mon.PanicSite(st)
		if strings.HasPrefix(r.Form, "typed-nil") {
			sig = "build-panic-typed-nil"
		}
		c.Violation(sig, fmt.Sprintf("Build panicked: %v (form %s syscalls %v)\n%s", p, r.Form, r.Syscalls, st), k)
		return
	}
	if over != "" {
		c.Violation("build-over-allocation", over, k)
	}
	if (wf == nil) == (err == nil) {
		c.Violation("build-nil-xor-error", fmt.Sprintf("Build returned wire=%v err=%v", wf != nil, err), k)
	}
	if err == nil {
		c.Add("build_successes", 1)
		// what Build accepts must itself be structurally valid
		if msg := c13Postcondition(wf); msg != "" {
			c.Violation("build-emits-invalid", "Build produced a structurally invalid rule: "+msg, k)
		}
	} else {
		c.Add("build_errors", 1)
	}
}

func (e *c13Env) parse(w int, line string) {
	c := e.c
	k := &c13Case{Kind: "parse", Line: line}
	e.inf.Set(w, 'p', []byte(line))
	e.hw.Begin(w, k)
	defer e.hw.End(w)
	var r rule.Rule
	var err error
	p, st, over := e.measure(w, len(line), func() {
		r, err = flags.Parse(line)
		if err == nil && r != nil {
			rule.Build(r) // whatever the parser returns must be safe to build
		}
	})
	c.Add("parse_calls", 1)
	if p != nil {
		c.Violation("parse-panic:"+mon.PanicSite(st), fmt.Sprintf("flags.Parse (+Build) panicked: %v on %q\n%s", p, clipStr(line, 300), st), k)
		return
	}
	if over != "" {
		c.Violation("parse-over-allocation", over, k)
	}
	if (r == nil) == (err == nil) {
		c.Violation("parse-nil-xor-error", fmt.Sprintf("flags.Parse returned rule=%v err=%v for %q", r != nil, err, clipStr(line, 200)), k)
	}
	if err == nil {
		c.Add("parse_successes", 1)
	} else {
		c.Add("parse_errors", 1)
	}
}

func putWord(b []byte, word int, v uint32) []byte {
	o := append([]byte(nil), b...)
	binary.LittleEndian.PutUint32(o[word*4:], v)
	return o
}

func c13Run(c *mon.Ctx) {
	alloc := c.Phase == "alloc"
	e := &c13Env{c: c, hw: c.NewHangWatch(30*time.Second, true), inf: c.NewInflight(), alloc: alloc}
	defer e.hw.Stop()
	e.guard = make([]*mon.Guard, c.Workers)
	for i := range e.guard {
		e.guard[i] = mon.NewGuard(1 << 17)
	}
	ev := c.Counter("evaluations")
	nt := c.DistinctSet("nontrivial")
	dir, file := watchTargets(c)
	rulesCorpus := logenc.RuleCorpus()

	// base rules: valid wire images to corrupt
	var bases [][]byte
	for i := 0; len(bases) < c.Pick(12, 60); i++ {
		r := c.Rand(1, uint64(i))
		s := rulegen.Random(r, &rulegen.Opts{WatchDir: dir, WatchFile: file})
		if w, err := rule.Build(s.Rule()); err == nil {
			bases = append(bases, w)
		}
	}
	// rules that use 62, 63 and all 64 field slots (with and without strings): a wrong field-count word in such
	// an image leaves no zero slot behind it for the decoder to stumble over
	for _, nf := range []int{62, 63, 64} {
		for _, withKey := range []bool{false, true} {
			sr := &rule.SyscallRule{Type: rule.AppendSyscallRuleType, List: "exit", Action: "always"}
			n := nf
			if withKey {
				n--
				sr.Keys = []string{"full"}
			}
			for i := 0; i < n; i++ {
				f := rule.FilterSpec{Type: rule.ValueFilterType, LHS: "pid", Comparator: "!=", RHS: fmt.Sprint(1000 + i)}
				if i%9 == 4 {
					f = rule.FilterSpec{Type: rule.ValueFilterType, LHS: "exe", Comparator: "!=", RHS: fmt.Sprintf("/bin/x%d", i)}
				}
				sr.Filters = append(sr.Filters, f)
			}
			if w, err := rule.Build(sr); err == nil {
				bases = append(bases, w)
				c.Add("base_rules_using_62_to_64_field_slots", 1)
			}
		}
	}
	setFault := func() { debug.SetPanicOnFault(true) }

	// (b1) every header word x boundary values
	nWords := uapi.RuleOffBuf / 4
	type job struct {
		base, word int
		val        uint32
	}
	var jobs []job
	for bi := range bases {
		d, _ := rulegen.Decode(bases[bi])
		vals := append(append([]uint32{}, c13WordValues...), d.BufLen+1, d.BufLen-1, uint32(len(bases[bi])))
		for wd := 0; wd < nWords; wd++ {
			for _, v := range vals {
				jobs = append(jobs, job{bi, wd, v})
			}
		}
	}
	if alloc && len(jobs) > 60000 {
		jobs = jobs[:60000]
	}
	c.ForEach(len(jobs), func(w, i int) {
		setFault()
		j := jobs[i]
		wire := putWord(bases[j.base], j.word, j.val)
		e.decode(w, wire, fmt.Sprintf("base rule %d, header word %d (%s) := %#x", j.base, j.word, wordName(j.word), j.val))
		ev.Add(1)
		c.Add("header_word_mutants", 1)
		nt.AddBytes(wire)
	})
	// (b2) every truncation length of every base rule (quick: a stride)
	for bi := range bases {
		b := bases[bi]
		stride := c.Pick(7, 1)
		c.ForEach((len(b)+1)/stride+1, func(w, i int) {
			setFault()
			n := i * stride
			if n > len(b) {
				n = len(b)
			}
			e.decode(w, append([]byte(nil), b[:n]...), fmt.Sprintf("base rule %d truncated to %d bytes", bi, n))
			ev.Add(1)
		})
	}
	// (b3) multi-word mutants, bit flips, random bytes
	n := c.Pick(150_000, 6_000_000)
	if alloc {
		n = c.Pick(40_000, 400_000)
	}
	c.ForEach(n, func(w, i int) {
		setFault()
		r := c.Rand(2, uint64(i))
		var wire []byte
		note := ""
		switch r.Intn(4) {
		case 0:
			wire = append([]byte(nil), mon.Pick(r, bases)...)
			for k, m := 0, r.Range(1, 4); k < m; k++ {
				wd := r.Intn(nWords)
				if r.Bool() {
					wd = mon.Pick(r, []int{0, 1, 2, 259, 67 + r.Intn(6), 131 + r.Intn(6), 195 + r.Intn(6)})
				}
				binary.LittleEndian.PutUint32(wire[wd*4:], mon.Pick(r, c13WordValues))
			}
			note = "multi-word mutant"
		case 1:
			wire = append([]byte(nil), mon.Pick(r, bases)...)
			for k, m := 0, r.Range(1, 8); k < m; k++ {
				wire[r.Intn(len(wire))] ^= 1 << r.Intn(8)
			}
			note = "bit flips"
		case 2:
			wire = r.Bytes(mon.Pick(r, []int{0, 1, 1039, 1040, 1041, 1044, 1100, r.Intn(3000)}))
			note = "random bytes"
		default:
			// header says: string fields whose lengths wrap around
			wire = append([]byte(nil), mon.Pick(r, bases)...)
			nf := r.Range(1, 64)
			binary.LittleEndian.PutUint32(wire[uapi.RuleOffFieldCount:], uint32(nf))
			for k := 0; k < nf; k++ {
				binary.LittleEndian.PutUint32(wire[uapi.RuleOffFields+4*k:], mon.Pick(r, []uint32{105, 107, 210, 112, 13, 0, 11, 106}))
				binary.LittleEndian.PutUint32(wire[uapi.RuleOffValues+4*k:], mon.Pick(r, []uint32{0, 1, 4, 0xFFFFFFFF, 0xFFFFFFFC, 0x80000000, 5}))
				binary.LittleEndian.PutUint32(wire[uapi.RuleOffFieldFlags+4*k:], 0x40000000)
			}
			note = "string-length wrap-around"
		}
		e.decode(w, wire, note)
		ev.Add(1)
		nt.AddBytes(wire)
	})
	// (a0) otherwise valid single-filter rules whose VALUE is hostile: every field name x every list x
	// hostile strings, so that each field's own value parser is reached directly (in a rule that is wrong
	// in several places Build gives up at the first one)
	if !alloc {
		fieldsAll := rulegen.AllFieldNames()
		lists := []string{"exit", "user", "exclude", "task"}
		fixed := []string{"][", "]1[", "UNKNOWN]1329[", "a]b[1]", "[", "]", "UNKNOWN[", "UNKNOWN[]", "UNKNOWN[1", "UNKNOWN1]", "UNKNOWN[-1]", "UNKNOWN[65536]", "UNKNOWN[ 1]", "[1]", "-", "--1", "-E", "-EPERM ", "0x", "-0x", "0x-1", "+", "1e3", "٣", " ", "\x00", "unset ", "b", "b6", "rwxaa", ",", "="}
		per := c.Pick(40, 3000)
		c.ForEach(len(fieldsAll)*len(lists)*per, func(w, i int) {
			r := c.Rand(8, uint64(i))
			f := fieldsAll[i/(len(lists)*per)]
			l := lists[(i/per)%len(lists)]
			v := c13Soup(r)
			if j := i % per; j < len(fixed) {
				v = fixed[j]
			} else if r.Chance(1, 4) {
				v = c13HostileString(r)
			}
			rl := &c13Rule{Form: "syscall", List: l, Action: "always", Filters: []rule.FilterSpec{{Type: rule.ValueFilterType, LHS: f, Comparator: mon.Pick(r, []string{"=", "=", "!=", "&"}), RHS: v}}}
			if r.Chance(1, 4) {
				rl.Filters = append([]rule.FilterSpec{{Type: rule.ValueFilterType, LHS: "arch", Comparator: "=", RHS: mon.Pick(r, []string{"b64", "b32", "x86_64", "aarch64"})}}, rl.Filters...)
			}
			e.build(w, rl)
			ev.Add(1)
			c.Add("single_hostile_value_builds", 1)
		})
	}
	// (a1) watches on special files: classifying the target must not open it (a named pipe without a writer
	// blocks an open for ever; a device or socket may have side effects)
	if !alloc {
		fifo := filepath.Join(c.WorkDir, "watch-fifo")
		os.Remove(fifo)
		syscall.Mkfifo(fifo, 0o600)
		sock := filepath.Join(c.WorkDir, "watch-sock")
		os.Remove(sock)
		if l, err := net.Listen("unix", sock); err == nil {
			defer l.Close()
		}
		for i, p := range []string{fifo, sock, "/dev/null", "/dev/tty", "/dev/full", "/proc/self/fd/0", "/proc/self/mem", "/dev/stdin", fifo + "/x", "/dev/null/x"} {
			for _, perms := range [][]rule.AccessType{nil, {rule.ReadAccessType}, {rule.WriteAccessType, rule.AttributeChangeAccessType}} {
				e.build(i%c.Workers, &c13Rule{Form: "watch", Path: p, Perms: perms, Keys: []string{"k"}})
				ev.Add(1)
				c.Add("watches_on_special_files", 1)
			}
		}
	}
	// (a) hostile Rule values
	nb := c.Pick(100_000, 3_000_000)
	if alloc {
		nb = c.Pick(20_000, 200_000)
	}
	c.ForEach(nb, func(w, i int) {
		r := c.Rand(3, uint64(i))
		rl := c13GenRule(r)
		e.build(w, rl)
		ev.Add(1)
		if c.WantSample() {
			c.Sample(map[string]any{"kind": "build", "form": rl.Form, "syscalls": rl.Syscalls, "filters": len(rl.Filters)})
		}
	})
	// the 64-slot limit from both sides: n valid filters (value and inter-field) x 0-3 keys, and watches with keys
	for n := 56; n <= 72; n++ {
		for nk := 0; nk <= 3; nk++ {
			for _, inter := range []bool{false, true} {
				rl := &c13Rule{Form: "syscall", List: "exit", Action: "always"}
				for i := 0; i < n; i++ {
					if inter && i%2 == 1 {
						rl.Filters = append(rl.Filters, rule.FilterSpec{Type: rule.InterFieldFilterType, LHS: "uid", Comparator: "=", RHS: "euid"})
					} else {
						rl.Filters = append(rl.Filters, rule.FilterSpec{Type: rule.ValueFilterType, LHS: "pid", Comparator: "=", RHS: fmt.Sprint(i)})
					}
				}
				for i := 0; i < nk; i++ {
					rl.Keys = append(rl.Keys, fmt.Sprintf("k%d", i))
				}
				e.build(0, rl)
				ev.Add(1)
				c.Add("field_limit_boundary_builds", 1)
			}
		}
	}
	// every syscall number around each mask-word boundary, alone
	for _, sc := range c13SyscallNums {
		e.build(0, &c13Rule{Form: "syscall", List: "exit", Action: "always", Syscalls: []string{sc}})
		ev.Add(1)
	}
	for nsc := 2000; nsc < 2200; nsc++ {
		e.build(0, &c13Rule{Form: "syscall", List: "exit", Action: "always", Syscalls: []string{fmt.Sprint(nsc)}})
		ev.Add(1)
	}
	// (c) flag parser on mutated and random lines
	np := c.Pick(100_000, 3_000_000)
	if alloc {
		np = c.Pick(20_000, 200_000)
	}
	frag := []string{"-a", "-A", "-F", "-C", "-S", "-k", "-p", "-w", "-D", "--", "-h", "-help", "--help", "-x", "-", "'", "\"", "\\", "exit,always", "always,exit,task", ",", "=", "uid=0", "uid!=", "=0", "a0&=0xffffffffff", "-S all", "-F arch=b64", "perm=rwxa", "'unterminated", "\"unterminated", "\\", "$(x)", "`x`", "\x00", "\xff\xfe"}
	c.ForEach(np, func(w, i int) {
		r := c.Rand(4, uint64(i))
		var line string
		switch {
		case i < len(rulesCorpus):
			line = rulesCorpus[i]
		case r.Chance(1, 8):
			line = string(r.Bytes(r.Range(0, 80)))
		default:
			toks := strings.Fields(mon.Pick(r, rulesCorpus))
			for k, m := 0, r.Range(1, 4); k < m; k++ {
				switch r.Intn(5) {
				case 0:
					if len(toks) > 0 {
						p := r.Intn(len(toks))
						toks = append(toks[:p], toks[p+1:]...)
					}
				case 1:
					p := r.Intn(len(toks) + 1)
					toks = append(toks[:p], append([]string{mon.Pick(r, frag)}, toks[p:]...)...)
				case 2:
					if len(toks) > 0 {
						p := r.Intn(len(toks))
						toks[p] = c13HostileString(r)
					}
				case 3:
					if len(toks) > 0 {
						p := r.Intn(len(toks))
						b := []byte(toks[p])
						if len(b) > 0 {
							b[r.Intn(len(b))] ^= 1 << r.Intn(7)
						}
						toks[p] = string(b)
					}
				case 4:
					toks = append(toks, toks...)
				}
			}
			line = strings.Join(toks, " ")
		}
		e.parse(w, line)
		ev.Add(1)
		nt.AddString(line)
	})
	// (c2) enumerated: every flag that takes a value x tiny values made of quoting characters, written so that the
	// character survives the line's own tokenizer (inside single quotes, inside double quotes, backslash-escaped)
	{
		vals := []string{`"`, `'`, `\\`, `""`, `''`, `"'`, `="`, `"=`, `=`, `!`, `!=`, `&`, `,`, `-`, `x"`, `"x`, `" "`, `\\"`}
		wrap := func(v string) []string {
			out := []string{"'" + strings.ReplaceAll(v, "'", `'\\''`) + "'"}
			if !strings.ContainsAny(v, "\"\\`$") {
				out = append(out, `"`+v+`"`)
			}
			esc := ""
			for _, ch := range v {
				esc += `\\` + string(ch)
			}
			return append(out, esc)
		}
		n := 0
		for _, v := range vals {
			for _, fld := range []string{"path", "dir", "uid", "exit", "arch", "msgtype", "key", "perm", "a0", "obj_type", "filetype", "auid"} {
				for _, op := range []string{"=", "!=", ">", "&="} {
					for _, w := range wrap(fld + op + v) {
						e.parse(0, "-a always,exit -F "+w)
						e.parse(0, "-a always,exit -S open -F "+w+" -k x")
						n += 2
					}
				}
			}
			for _, w := range wrap(v) {
				for _, fl := range []string{"-S", "-k", "-p", "-w", "-a", "-A", "-C", "-F"} {
					e.parse(0, fl+" "+w)
					e.parse(0, "-a always,exit "+fl+" "+w)
					e.parse(0, "-w /etc/passwd "+fl+" "+w)
					n += 3
				}
			}
		}
		ev.Add(int64(n))
		c.Add("tiny_quoting_values_parsed", int64(n))
	}
	c.Require("decode_calls", 1000)
	c.Require("decode_successes", 10)
	c.Require("decode_errors", 100)
	c.Require("build_successes", 10)
	c.Require("build_errors", 100)
	c.Require("parse_successes", 10)
	c.Require("parse_errors", 100)
}

func init() {
	register(&mon.CheckSpec{
		ID: "C13", Level: "exploration",
		Rule: "cases = (a0) Build on otherwise valid single-filter rules - every field name x every list - whose value is a near-miss of a structured value syntax (bracketed type numbers, signs, base prefixes, errno names; punctuation soup); (a1) watches on a named pipe, a unix socket, devices and /proc files (Build must classify the target without opening it); (a) Build on hostile Rule values (arbitrary strings for list/action/field/operator/value/keys, syscall numbers at and beyond every mask-word boundary incl. 2047..2112, 2^31, 2^32, 10^30, every number 2000..2199 alone, 0-200 filters, nil / typed-nil / foreign Rule implementations, hostile watch paths and access types); (b) ToCommandLine on valid wire images with EACH of the 260 header words replaced by boundary values {0,1,63,64,65,255,2^16,2^31-1,2^31,2^32-1,buflen+-1,...}, every truncation length, multi-word mutants, bit flips, random bytes, string-length wrap-around headers - inputs placed so they end at a PROT_NONE guard page; (c) flags.Parse (+Build of what it returns) on mutated real rule lines and random strings, and on every value-taking flag x 18 one- and two-character values made of quoting characters (written so that they survive the tokenizer). Monitors: recovered panic, 30 s hang bound, guard-page fault, per-call allocation bound 64*len+1MiB measured in single-worker child processes under ulimit -v, and the post-condition that ToCommandLine succeeds only on structurally valid input. distinct_nontrivial = distinct corrupted wire images and distinct hostile lines.",
		Assumptions: []string{
			"allocation is measured with runtime.MemStats.TotalAlloc around each call in processes that run one worker, so the delta belongs to the call",
			"a read past the input is observed only when it crosses the end of the slice into the guard page (plus ASan in the thorough tier)",
		},
		Phases: func(tier string) []mon.PhaseSpec {
			ph := []mon.PhaseSpec{
				{Name: "hostile", Flavour: "plain", UlimitVKB: 16 << 20}, // 16 GiB of address space: a decoder that allocates from input numbers dies here instead of exhausting the machine
				{Name: "alloc", Flavour: "plain", UlimitVKB: 3 << 20, Shards: 8, Env: []string{"GOMAXPROCS=2", "VERIF_WORKERS=1"}},
			}
			if tier == "thorough" {
				ph = append(ph, mon.PhaseSpec{Name: "asan", Flavour: "asan", SecondPass: true})
			}
			return ph
		},
		Run: c13Run,
		Replay: func(c *mon.Ctx, kase json.RawMessage) {
			var k c13Case
			if json.Unmarshal(kase, &k) != nil {
				return
			}
			debug.SetPanicOnFault(true)
			e := &c13Env{c: c, hw: c.NewHangWatch(30*time.Second, true), inf: &mon.Inflight{}, guard: []*mon.Guard{mon.NewGuard(1 << 17)}, alloc: true}
			defer e.hw.Stop()
			fmt.Printf("replay: kind=%s note=%s\n", k.Kind, k.Note)
			switch k.Kind {
			case "decode":
				e.decode(0, k.Wire, k.Note)
			case "build":
				e.build(0, k.Rule)
			case "parse":
				e.parse(0, k.Line)
			}
		},
		ReplayInflight: func(c *mon.Ctx, rec mon.InflightRecord) {
			if len(rec.Parts) == 0 {
				return
			}
			fmt.Printf("replay: in-flight %c input of %d bytes: re-running it in this process may kill it (that is the reproduction)\n", rec.Tag, len(rec.Parts[0]))
			e := &c13Env{c: c, hw: c.NewHangWatch(30*time.Second, true), inf: &mon.Inflight{}, guard: []*mon.Guard{mon.NewGuard(1 << 17)}, alloc: true}
			defer e.hw.Stop()
			switch rec.Tag {
			case 'd':
				e.decode(0, rec.Parts[0], "in-flight")
			case 'p':
				e.parse(0, string(rec.Parts[0]))
			case 'b':
				var r c13Rule
				if json.Unmarshal(rec.Parts[0], &r) == nil {
					e.build(0, &r)
				}
			}
		},
	})
}
