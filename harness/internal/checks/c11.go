package checks

import (
	"encoding/json"
	"fmt"
	"runtime"
	"sync"
	"sync/atomic"
	"time"

	"verifharness/internal/mon"
	"verifharness/internal/sched"
)

// C11: Reassembler under concurrent Push / Maintain / Close.
//  phase "schedules" (plain build): systematic enumeration of every interleaving of small programs
//  phase "stress"    (-race build): randomised multi-goroutine runs under the race detector

const seqA, seqB = 7, 9

func progFromIndex(idx int, alphabet []sched.POp, shape []int, max, reenter int) *sched.Program {
	p := &sched.Program{Max: max, Reenter: reenter}
	for _, n := range shape {
		var t []sched.POp
		for i := 0; i < n; i++ {
			t = append(t, alphabet[idx%len(alphabet)])
			idx /= len(alphabet)
		}
		p.Threads = append(p.Threads, t)
	}
	return p
}

func pow(b, e int) int {
	n := 1
	for i := 0; i < e; i++ {
		n *= b
	}
	return n
}

var alphaOneSeq = []sched.POp{{Kind: sched.PushNC, Seq: seqA}, {Kind: sched.PushC, Seq: seqA}, {Kind: sched.PushEOE, Seq: seqA}, {Kind: sched.Maintain}, {Kind: sched.Close}}
var alphaTwoSeq = []sched.POp{{Kind: sched.PushNC, Seq: seqA}, {Kind: sched.PushNC, Seq: seqB}, {Kind: sched.PushC, Seq: seqA}, {Kind: sched.PushC, Seq: seqB},
	{Kind: sched.PushEOE, Seq: seqA}, {Kind: sched.PushEOE, Seq: seqB}, {Kind: sched.Maintain}, {Kind: sched.Close}}

type c11Case struct {
	Program *sched.Program `json:"program"`
	Choices []int          `json:"choices"`
	Bound   int            `json:"preemption_bound"`
}

func c11Schedules(c *mon.Ctx) {
	ev := c.Counter("evaluations")
	progs := c.Counter("programs")
	maxDepth := c.Counter("max_choice_depth")
	sumDepth := c.Counter("sum_choice_depth")
	truncated := c.Counter("programs_truncated_by_schedule_cap")
	traces := c.DistinctSet("nontrivial")
	var stop atomic.Bool
	var mu sync.Mutex
	var prunedTotal atomic.Int64
	explore := func(cat string, p *sched.Program, bound int, cap int64) {
		if stop.Load() {
			return
		}
		c.Add("programs_"+cat, 1)
		res := sched.Explore(p, bound, cap)
		progs.Add(1)
		ev.Add(res.Schedules)
		sumDepth.Add(res.SumDepth)
		c.Max("max_choice_depth", int64(res.MaxDepth))
		_ = maxDepth
		if res.Truncated {
			truncated.Add(1)
		}
		ph := sched.Hash(p.String())
		for t := range res.Traces {
			traces.AddHash(t ^ ph)
		}
		c.Add("schedules_pruned_lock_held_by_parked_worker", res.Pruned)
		if prunedTotal.Add(res.Pruned) > 400 && !stop.Load() {
			// every dropped schedule costs a goroutine dump and leaves blocked goroutines behind: a tree that
			// holds a lock across yield points is not explored further by this process
			stop.Store(true)
			if c.Violations() == 0 && !res.Deadlock && len(res.Findings) == 0 {
				c.Inconclusive("more than 400 schedules dropped in this process because a go-libaudit lock is held across a yield point or callback (the chosen worker waits for a lock whose holder is parked); last program " + p.String())
			}
		}
		if res.BlockedBehindParked && !res.Deadlock && len(res.Findings) == 0 {
			c.Inconclusive("more than 3000 schedules of one program dropped: " + "a worker waits for a go-libaudit lock while another worker is parked at a yield point inside an operation: a lock is held across a yield point/callback, which the controlled scheduler cannot schedule (the re-entrant programs decide whether it deadlocks); program " + p.String())
			stop.Store(true)
			return
		}
		if res.Timeout && !res.Deadlock && len(res.Findings) == 0 {
			c.Inconclusive("a scheduled worker did not reach its next yield point within 10s and the goroutine dump shows no go-libaudit lock wait; program " + p.String())
			return
		}
		kase := c11Case{Program: p, Choices: res.FailChoice, Bound: bound}
		if res.Deadlock {
			mu.Lock()
			c.Violation("deadlock", fmt.Sprintf("worker blocked on a mutex inside go-libaudit while every other worker is parked; program %s choices %v\n%s", p.String(), res.FailChoice, clipStr(res.Dump, 1500)), kase)
			mu.Unlock()
			stop.Store(true) // blocked goroutines are leaked; stop exploring in this process
		}
		for _, f := range res.Findings {
			if f.Sig == "close-flush-out-of-order" {
				c.Add("close_flush_order_findings_left_to_C19", 1) // order of the Close flush is C19's clause, decided by its concurrent-close phase
				continue
			}
			c.Violation(f.Sig, fmt.Sprintf("%s\n  program: %s\n  schedule (choice sequence): %v", f.What, p.String(), res.FailChoice), kase)
		}
		if c.WantSample() {
			c.Sample(map[string]any{"program": p.String(), "schedules": res.Schedules, "distinct_yield_traces": len(res.Traces), "max_depth": res.MaxDepth})
		}
	}
	// (1) re-entrant callbacks first (a lock held across a callback self-deadlocks in the very first schedule):
	// 2x2 programs, four variants (callbacks calling Close / Maintain / PushMessage), maxInFlight 0 (every push delivers) - all interleavings
	n := pow(len(alphaOneSeq), 4)
	for _, re := range []int{sched.ReClose, sched.ReMaintain, sched.RePush, sched.ReLostMaintain} {
		re := re
		stride := c.Pick(8, 1)
		c.ForEach(n/stride, func(w, i int) {
			explore("2x2_reentrant_exhaustive", progFromIndex(i*stride+i%stride, alphaOneSeq, []int{2, 2}, 0, re), -1, 0)
		})
	}
	// (2) every program of 2 goroutines x 2 ops over one sequence: all interleavings
	c.ForEach(n, func(w, i int) {
		explore("2x2_one_seq_exhaustive", progFromIndex(i, alphaOneSeq, []int{2, 2}, 1, sched.ReNone), -1, 0)
	})
	if c.Thorough {
		// (3) two sequences, maxInFlight 0/1/2, 2x2: all interleavings
		n2 := pow(len(alphaTwoSeq), 4)
		for _, max := range []int{0, 1, 2} {
			max := max
			c.ForEach(n2, func(w, i int) {
				explore("2x2_two_seq_exhaustive", progFromIndex(i, alphaTwoSeq, []int{2, 2}, max, sched.ReNone), -1, 0)
			})
		}
		// (4) 2 goroutines x 3 ops, one sequence, preemption bound 3
		n3 := pow(len(alphaOneSeq), 6)
		c.ForEach(n3/4, func(w, i int) {
			explore("2x3_preemption_bound3", progFromIndex(i*4+i%4, alphaOneSeq, []int{3, 3}, 1, sched.ReNone), 3, 60000)
		})
		// (5) 3 goroutines x 2 ops, preemption bound 2
		c.ForEach(n3/6, func(w, i int) {
			explore("3x2_preemption_bound2", progFromIndex(i*6+i%6, alphaOneSeq, []int{2, 2, 2}, 1, sched.ReNone), 2, 40000)
		})
	} else {
		// quick: a slice of the 3-goroutine space with preemption bound 2
		n3 := pow(len(alphaOneSeq), 6)
		c.ForEach(96, func(w, i int) {
			r := c.Rand(3, uint64(i))
			explore("3x2_preemption_bound2", progFromIndex(r.Intn(n3), alphaOneSeq, []int{2, 2, 2}, mon.Pick(r, []int{0, 1, 2}), sched.ReNone), 2, 20000)
		})
	}
	// (6) seeded random schedules of larger programs
	nr := c.Pick(20000, 1500000)
	c.ForEach(nr, func(w, i int) {
		if stop.Load() {
			return
		}
		r := c.Rand(4, uint64(i))
		shape := make([]int, r.Range(2, 4))
		for k := range shape {
			shape[k] = r.Range(1, 4)
		}
		p := &sched.Program{Max: mon.Pick(r, []int{0, 1, 2, 3}), Reenter: mon.Pick(r, []int{0, 0, 1, 2, 3, 4})}
		for _, n := range shape {
			var t []sched.POp
			for k := 0; k < n; k++ {
				t = append(t, mon.Pick(r, alphaTwoSeq))
			}
			p.Threads = append(p.Threads, t)
		}
		run := sched.Execute(p, nil, func(depth, n int) int { return r.Intn(n) })
		ev.Add(1)
		c.Add("random_schedules", 1)
		if run.InternalPreempts > 0 {
			traces.AddHash(run.TraceH ^ sched.Hash(p.String()))
		}
		kase := c11Case{Program: p, Choices: run.Choices, Bound: -1}
		if run.Timeout {
			if run.Deadlock {
				c.Violation("deadlock", fmt.Sprintf("worker blocked on a mutex inside go-libaudit; program %s choices %v\n%s", p.String(), run.Choices, clipStr(run.Dump, 1500)), kase)
				stop.Store(true)
			} else if run.BlockedBehindParked {
				// infeasible random choice, see Explore; every one leaves blocked goroutines behind
				c.Add("schedules_pruned_lock_held_by_parked_worker", 1)
				if prunedTotal.Add(1) > 400 && !stop.Load() {
					stop.Store(true)
					if c.Violations() == 0 {
						c.Inconclusive("more than 400 schedules dropped in this process because a go-libaudit lock is held across a yield point or callback; last program " + p.String())
					}
				}
			} else {
				c.Inconclusive("random schedule: worker did not reach its next yield point within 10s; program " + p.String())
			}
		}
		for _, f := range run.Findings {
			if f.Sig == "close-flush-out-of-order" {
				c.Add("close_flush_order_findings_left_to_C19", 1)
				continue
			}
			c.Violation(f.Sig, fmt.Sprintf("%s\n  program: %s\n  schedule: %v", f.What, p.String(), run.Choices), kase)
		}
	})
	c.Require("evaluations", 1000)
}

func clipStr(s string, n int) string {
	if len(s) > n {
		return s[:n] + "…"
	}
	return s
}

func c11Stress(c *mon.Ctx) {
	sched.Chaos = 1
	reps := c.Pick(6, 120)
	ops := c.Pick(4000, 30000)
	ev := c.Counter("evaluations")
	for rep := 0; rep < reps; rep++ {
		r := c.Rand(9, uint64(rep))
		var res *sched.StressResult
		done := make(chan struct{})
		go func() { res = sched.Stress(r, ops); close(done) }()
		select {
		case <-done:
		case <-time.After(120 * time.Second):
			buf := make([]byte, 4<<20)
			buf = buf[:runtime.Stack(buf, true)]
			if sched.IsLibauditLockWait(string(buf)) {
				c.Violation("deadlock", fmt.Sprintf("stress repetition %d made no progress for 120s and goroutines are blocked on a mutex inside go-libaudit:\n%s", rep, clipStr(string(buf), 2500)), map[string]any{"stress_rep": rep})
			} else {
				c.Inconclusive(fmt.Sprintf("stress repetition %d did not finish within 120s (no go-libaudit lock wait in the dump)", rep))
			}
			return // goroutines are stuck; end the phase
		}
		ev.Add(1)
		c.Add("pushes", res.Pushes)
		c.Add("messages_delivered", res.Delivered)
		c.Add("callbacks", res.Callbacks)
		c.Add("records_pushed_from_callbacks", res.Reentrant)
		c.Add("pushes_returned_before_close", res.BeforeClose)
		c.Nontrivial(res.Config)
		c.Sample(map[string]any{"stress_config": res.Config, "pushes": res.Pushes, "delivered": res.Delivered, "callbacks": res.Callbacks, "pushes_before_close": res.BeforeClose})
		for _, f := range res.Findings {
			c.Violation(f.Sig, f.What+"\n  stress run: "+res.Config, map[string]any{"stress_rep": rep, "config": res.Config})
		}
	}
	// close storms: the window between "is it closed?" and "mark closed" has no yield point, so only real
	// parallelism can hit it: many fresh Reassemblers, each closed by several goroutines released together
	for _, G := range []int{2, 8, 16} {
		rounds, fs := sched.CloseStorm(c.Pick(6000, 200000), G)
		c.Add("close_storm_rounds", rounds)
		ev.Add(rounds)
		for _, f := range fs {
			c.Violation(f.Sig, f.What+fmt.Sprintf("\n  close storm with %d goroutines", G), map[string]any{"close_storm_goroutines": G})
		}
	}
	// descending push storms: new, lower heads keep appearing while Close flushes
	for _, G := range []int{2, 8} {
		rounds, fs := sched.DescendingPushStorm(c.Pick(800, 60000), G)
		c.Add("descending_push_storm_rounds", rounds)
		ev.Add(rounds)
		for _, f := range fs {
			c.Violation(f.Sig, f.What+fmt.Sprintf("\n  descending push storm with %d pushers", G), map[string]any{"descending_push_storm_goroutines": G})
		}
	}
	c.Nontrivial("close-storms")
	c.Require("pushes_returned_before_close", 1)
	c.Require("messages_delivered", 1)
	c.Require("close_storm_rounds", 1000)
}

func init() {
	register(&mon.CheckSpec{
		ID: "C11", Level: "exploration",
		Rule: "phase schedules (plain build, controlled scheduler on the verif yield hook): for each small program (2-3 goroutines x 1-3 ops from {Push non-completing, Push completing, Push EOE, Maintain, Close}; re-entrant callback variants; maxInFlight 0-3) EVERY interleaving at the granularity of the Reassembler's atomic steps is executed by a stateless DFS (3-goroutine and 3-op programs with a preemption bound), plus seeded random schedules of larger programs; evaluations = schedules executed, distinct_nontrivial = distinct (program, yield-point trace) pairs among the schedules that switch goroutines at least once while the running one is parked INSIDE an operation (a real interleaving of two library calls, not just a reordering of whole calls). phase stress (-race build, no scheduler, hook injects Gosched/spins only): 4-16 goroutines pushing thousands of records over a rolling sequence window with a Maintain ticker, re-entrant callbacks and 1-3 concurrent closers; violations = race detector reports, fatal runtime errors, or failed at-most-once / exactly-once-before-Close / one-Close checks.",
		Assumptions: []string{
			"the yield points are placed between the Reassembler's locked regions (hook commit in /repo); interleavings inside a locked region are reached only by the stress phase",
			"the controlled scheduler serialises workers through channels, so race detection is done in the separate stress phase whose hook adds no synchronisation",
			"deadlock = the scheduled worker's own stack (polled from 5 ms on) shows it waiting on a mutex under a go-libaudit frame while every other worker is finished or parked between operations; if another worker is parked INSIDE an operation the choice is infeasible (lock held across a yield point) and the schedule is dropped and counted; no yield point reached within 10 s without a lock wait is inconclusive",
		},
		Phases: func(tier string) []mon.PhaseSpec {
			// one single-threaded process per core: goroutine hand-offs stay on one OS thread (23 us per schedule)
			return []mon.PhaseSpec{
				{Name: "schedules", Flavour: "plain", Shards: runtime.NumCPU(), Env: []string{"GOMAXPROCS=1", "VERIF_WORKERS=1"}},
				{Name: "stress", Flavour: "race"}}
		},
		Run: func(c *mon.Ctx) {
			if c.Phase == "stress" {
				c11Stress(c)
			} else {
				c11Schedules(c)
			}
		},
		Replay: func(c *mon.Ctx, kase json.RawMessage) {
			var k c11Case
			if err := json.Unmarshal(kase, &k); err != nil || k.Program == nil {
				fmt.Println("replay: stress/race witnesses are replayed by re-running the phase with the same VERIF_SEED")
				return
			}
			fmt.Println("replay: program:", k.Program.String(), "choices:", k.Choices)
			run := sched.Execute(k.Program, k.Choices, nil)
			if run.Deadlock {
				c.Violation("deadlock", "deadlock reproduced\n"+clipStr(run.Dump, 3000), k)
			}
			for _, f := range run.Findings {
				c.Violation(f.Sig, f.What, k)
			}
		},
	})
}
