package checks

import (
	"fmt"
	"strings"
	"time"

	libaudit "github.com/elastic/go-libaudit/v2"
	"github.com/elastic/go-libaudit/v2/auparse"

	"verifharness/internal/mon"
)

// C02 with a Stream that fails: the order clause is stated for every delivery, also for those made after a
// callback of the caller's Stream panicked and the caller recovered (a consumer whose handler panics and is
// restarted).  Events handed to the Stream before, at and after the panic must still come in ascending order,
// late arrivals excepted.  What happens to events that were evicted together with the one whose callback
// panicked is NOT asserted (the pinned code drops them; C01 does not cover a failing Stream): only the order of
// what IS delivered is judged, by the statement's own rule.

type c02pOp struct {
	Kind string `json:"k"` // push | maintain | close
	Seq  uint32 `json:"seq,omitempty"`
	Type uint16 `json:"type,omitempty"`
}

type c02pCase struct {
	Kind    string   `json:"kind"` // "panicking-stream"
	Max     int      `json:"max_in_flight"`
	Ops     []c02pOp `json:"ops"`
	PanicAt []int    `json:"stream_panics_at_callback"` // indices of ReassemblyComplete callbacks (0-based, whole history)
}

func (k *c02pCase) String() string {
	var sb strings.Builder
	fmt.Fprintf(&sb, "max=%d panics at delivery callbacks %v:", k.Max, k.PanicAt)
	for _, o := range k.Ops {
		if o.Kind == "push" {
			fmt.Fprintf(&sb, " push(%d,t%d)", o.Seq, o.Type)
		} else {
			sb.WriteString(" " + o.Kind)
		}
	}
	return sb.String()
}

type c02pDelivery struct {
	seq uint32
	op  int
}

type c02pStream struct {
	k    *c02pCase
	op   int
	n    int
	dels []c02pDelivery
}

func (s *c02pStream) ReassemblyComplete(msgs []*auparse.AuditMessage) {
	if len(msgs) > 0 && msgs[0] != nil {
		s.dels = append(s.dels, c02pDelivery{msgs[0].Sequence, s.op})
	}
	n := s.n
	s.n++
	for _, p := range s.k.PanicAt {
		if p == n {
			panic("verif: the Stream's ReassemblyComplete fails")
		}
	}
}
func (s *c02pStream) EventsLost(int) {}

// c02PanicOne executes one case; returns the number of panics that really fired.
func c02PanicOne(c *mon.Ctx, k *c02pCase) int {
	s := &c02pStream{k: k}
	r, err := libaudit.NewReassembler(k.Max, time.Hour, s)
	if err != nil {
		c.Violation("new-error", "NewReassembler returned "+err.Error(), k)
		return 0
	}
	first := map[uint32]int{}
	fired := 0
	for i, o := range k.Ops {
		s.op = i
		func() {
			defer func() {
				if p := recover(); p != nil {
					if str, ok := p.(string); ok && strings.HasPrefix(str, "verif:") {
						fired++
						return
					}
					c.Violation("panic", fmt.Sprintf("op %d panicked with something else than the Stream's own panic: %v\n  history: %s", i, p, k), k)
				}
			}()
			switch o.Kind {
			case "push":
				if _, ok := first[o.Seq]; !ok && o.Type != 1320 {
					first[o.Seq] = i
				}
				r.PushMessage(&auparse.AuditMessage{RecordType: auparse.AuditMessageType(o.Type), Sequence: o.Seq, Timestamp: time.Unix(1700000000, 0), RawData: fmt.Sprintf("audit(1700000000.000:%d): op=%d", o.Seq, i)})
			case "maintain":
				r.Maintain()
			case "close":
				r.Close()
			}
		}()
	}
	// the statement's rule, literally: a delivery after a delivery of a higher sequence number is allowed only if
	// the event's first record was pushed after that higher-numbered event had been delivered
	for j := 1; j < len(s.dels); j++ {
		for i := 0; i < j; i++ {
			hi, lo := s.dels[i], s.dels[j]
			if int32(hi.seq-lo.seq) > 0 && !(first[lo.seq] > hi.op) {
				var order []uint32
				for _, d := range s.dels {
					order = append(order, d.seq)
				}
				c.Violation("out-of-order-after-stream-panic", fmt.Sprintf("event %d was delivered (during op %d) after event %d (delivered during op %d) although its first record had been pushed by op %d, before that delivery; deliveries in order: %v\n  history: %s", lo.seq, lo.op, hi.seq, hi.op, first[lo.seq], order, k), k)
				return fired
			}
		}
	}
	return fired
}

func c02PanicHistories(c *mon.Ctx) {
	ev := c.Counter("evaluations")
	var cases []*c02pCase
	// structured: n complete events wait behind an open head; the head completes and the whole batch is evicted
	// by one call; the Stream panics at the j-th callback of that batch; then more events arrive
	for _, base := range []uint32{1, 100, 0xFFFFFFFC} {
		for n := 1; n <= 5; n++ {
			for j := 0; j <= n; j++ {
				for follow := 0; follow < 4; follow++ {
					for _, headBy := range []uint16{1320, 1327} {
						k := &c02pCase{Kind: "panicking-stream", Max: 64, PanicAt: []int{j}}
						k.Ops = append(k.Ops, c02pOp{"push", base, 1300})
						for i := 1; i <= n; i++ {
							k.Ops = append(k.Ops, c02pOp{"push", base + uint32(i), 1327})
						}
						k.Ops = append(k.Ops, c02pOp{"push", base, headBy})
						nx := base + uint32(n) + 1
						switch follow {
						case 0:
							k.Ops = append(k.Ops, c02pOp{"push", nx, 1327})
						case 1:
							k.Ops = append(k.Ops, c02pOp{"maintain", 0, 0}, c02pOp{"push", nx, 1300})
						case 2:
							k.Ops = append(k.Ops, c02pOp{"push", nx, 1300}, c02pOp{"push", nx + 1, 1327}, c02pOp{"push", nx, 1320})
						}
						k.Ops = append(k.Ops, c02pOp{"close", 0, 0})
						cases = append(cases, k)
					}
				}
			}
		}
	}
	nStruct := len(cases)
	for i, m := 0, c.Pick(6000, 600000); i < m; i++ {
		r := c.Rand(11, uint64(i))
		k := &c02pCase{Kind: "panicking-stream", Max: 64}
		base := mon.Pick(r, []uint32{1, 1000, 0xFFFFFFF8})
		nseq := r.Range(3, 10)
		done := make([]bool, nseq)
		for j, nn := 0, r.Range(4, 30); j < nn; j++ {
			if r.Chance(1, 12) {
				k.Ops = append(k.Ops, c02pOp{"maintain", 0, 0})
				continue
			}
			q := r.Intn(nseq)
			if done[q] { // a completed event is never pushed again: "its first record" stays unambiguous
				continue
			}
			t := mon.Pick(r, []uint16{1300, 1302, 1307, 1327, 1320, 1300})
			if t == 1327 || t == 1320 {
				done[q] = true
			}
			if t == 1320 && r.Chance(1, 2) {
				k.Ops = append(k.Ops, c02pOp{"push", base + uint32(q), 1300})
			}
			k.Ops = append(k.Ops, c02pOp{"push", base + uint32(q), t})
		}
		k.Ops = append(k.Ops, c02pOp{"close", 0, 0})
		for j, nn := 0, r.Range(1, 3); j < nn; j++ {
			k.PanicAt = append(k.PanicAt, r.Intn(6))
		}
		cases = append(cases, k)
	}
	var fired, multi int64
	for _, k := range cases {
		f := c02PanicOne(c, k)
		ev.Add(1)
		if f > 0 {
			fired++
			c.Nontrivial("panic:" + k.String())
		}
		if f > 1 {
			multi++
		}
	}
	c.Add("panicking_stream_histories", int64(len(cases)))
	c.Add("panicking_stream_histories_enumerated", int64(nStruct))
	c.Add("panicking_stream_histories_where_a_panic_fired", fired)
	c.Add("panicking_stream_histories_with_several_panics", multi)
	c.Require("panicking_stream_histories_where_a_panic_fired", 100)
}
