package checks

import (
	"encoding/json"
	"fmt"
	"reflect"
	"strconv"
	"strings"
	"time"

	"github.com/elastic/go-libaudit/v2/auparse"

	"verifharness/internal/mon"
)

// C04: the parsed header equals the header that was written.

type c04Case struct {
	Type    uint16 `json:"type"`
	Lower   bool   `json:"lower_case_name"`
	Sec     int64  `json:"sec"`
	Msec    int    `json:"msec"`
	Seq     uint64 `json:"seq"`
	Body    string `json:"body"`
	Blanks  int    `json:"blanks_after_msg"`
	Corrupt string `json:"corrupt,omitempty"` // name of the corruption applied (error side)
	CorrArg int    `json:"corrupt_arg,omitempty"`
}

var c04Secs = []int64{0, 1, 1<<31 - 1, 1 << 31, 1<<32 - 1, 1 << 32, 1<<34 - 1, 1492798541}
var c04Seqs = []uint64{0, 1, 1<<31 - 1, 1 << 31, 1<<32 - 2, 1<<32 - 1, 19469538}

var c04Bodies = []string{
	"",
	"arch=c000003e syscall=59 success=yes exit=0 a0=1 items=2 ppid=1 pid=2 auid=1000 uid=0 comm=\"ls\" exe=\"/bin/ls\" key=(null)",
	"record_type=FAKE sequence=99 raw_msg=forged @timestamp=never tags=x error=none timestamp=1",
	"pid=1 msg='op=login acct=\"root\" exe=\"/usr/sbin/sshd\" hostname=? addr=1.2.3.4 terminal=ssh res=failed'",
	"msg=audit(1.001:5): nested=header",
	"x=(a.b:c) y=) z=( w=: v=. msg=",
	"avc:  denied  { read write } for  pid=1 comm=\"x\" scontext=a:b:c:s0 tcontext=d:e:f:s0 tclass=file",
	"argc=3 a0=\"ls\" a1=2D6C a2=\"/tmp\"",
	"saddr=02000050C0A80001000000000000000",
	" leading=space  double=  space trailing=space ",
	"proctitle=2F62696E2F7368002D63006C73",
	"name=\"/a b\" inode=1 dev=08:01 mode=0100644 ouid=0 ogid=0 rdev=00:00 nametype=NORMAL",
	"\xff\xfe non-utf8=\x80\x81 key=\"v\"",
	"old auid=1 new auid=2 old ses=3 new ses=4 res=1",
	strings.Repeat("k=v ", 400),
	"type=SYSCALL msg=audit(9.009:9): confusing=body",
	"msg='first' msg=second msg=audit(3.003:3): msg=fourth",
	"op=x msg=\"a\" res=1 msg=b",
}

const c04Structural = "(.:)"

// render writes the line and returns (line, text after the first "msg=").
func (k *c04Case) render() (line, afterMsg string) {
	name := auparse.AuditMessageType(k.Type).String()
	if k.Lower {
		name = strings.ToLower(name)
	}
	hdr := fmt.Sprintf("audit(%d.%03d:%d):", k.Sec, k.Msec, k.Seq)
	afterMsg = strings.Repeat(" ", k.Blanks) + hdr
	if k.Body != "" {
		afterMsg += " " + k.Body
	}
	return "type=" + name + " msg=" + afterMsg, afterMsg
}

// corrupt applies the named corruption and returns the damaged line ("" if not applicable).
func (k *c04Case) corrupt() string {
	line, _ := k.render()
	hdrStart := strings.Index(line, "msg=") + 4 + k.Blanks
	closeIdx := hdrStart + strings.Index(line[hdrStart:], ")")
	bodyClean := !strings.ContainsAny(k.Body, c04Structural)
	switch k.Corrupt {
	case "truncate":
		// any prefix that ends before the header's ')'
		n := k.CorrArg % closeIdx
		return line[:n]
	case "drop-structural":
		if !bodyClean {
			return ""
		}
		pos := []int{hdrStart + strings.Index(line[hdrStart:], "("), hdrStart + strings.Index(line[hdrStart:], "."),
			hdrStart + strings.Index(line[hdrStart:closeIdx], ":"), closeIdx}
		p := pos[k.CorrArg%4]
		// the ':' right after ')' must not let a damaged header parse: only valid when the body has no structural char
		return line[:p] + line[p+1:]
	case "letter-for-digit":
		var digits []int
		for i := hdrStart; i < closeIdx; i++ {
			if line[i] >= '0' && line[i] <= '9' {
				digits = append(digits, i)
			}
		}
		p := digits[k.CorrArg%len(digits)]
		return line[:p] + "x" + line[p+1:]
	case "empty-field":
		// a whole number of the header is missing, or the dot sits at either end of the time digits
		name := auparse.AuditMessageType(k.Type).String()
		secs, ms, seq := fmt.Sprint(k.Sec), fmt.Sprintf("%03d", k.Msec), fmt.Sprint(k.Seq)
		hdr := []string{
			"audit(" + secs + ".:" + seq + "):", "audit(." + ms + ":" + seq + "):", "audit(." + secs + ms + ":" + seq + "):", "audit(" + secs + ms + ".:" + seq + "):",
			"audit(-." + ms + ":" + seq + "):", "audit(.:" + seq + "):", "audit(" + secs + "." + ms + ":):", "audit(:" + seq + "):",
			// (numbers written with an explicit sign - "+1490137971.011", ".-520" - are accepted by the pinned parser
			// and not asserted here: whether a signed number is malformed is not settled by the statement)
		}[k.CorrArg%8]
		return "type=" + name + " msg=" + hdr + " " + k.Body
	case "literal-number":
		// one number of the header is spelt like a programming-language literal: digit separators, radix
		// prefixes, an exponent. The header's numbers are plain decimal digits; such a token is corrupt.
		name := auparse.AuditMessageType(k.Type).String()
		secs, ms, seq := fmt.Sprint(k.Sec), fmt.Sprintf("%03d", k.Msec), fmt.Sprint(k.Seq)
		lit := func(d string) string {
			switch k.CorrArg / 3 % 8 {
			case 0:
				if len(d) < 2 {
					d = "1" + d
				}
				return d[:1] + "_" + d[1:]
			case 1:
				return "0x" + d
			case 2:
				return "0b" + strings.Map(func(r rune) rune { return '0' + (r-'0')%2 }, d)
			case 3:
				return "0o" + strings.Map(func(r rune) rune { return '0' + (r-'0')%8 }, d)
			case 4:
				return "0X" + d
			case 5:
				return d + "e0"
			case 6:
				return "0_" + d
			}
			return "0x_" + d
		}
		switch k.CorrArg % 3 {
		case 0:
			seq = lit(seq)
		case 1:
			secs = lit(secs)
		case 2:
			ms = lit(ms)
		}
		return "type=" + name + " msg=audit(" + secs + "." + ms + ":" + seq + "): " + k.Body
	case "seq-overflow":
		big := uint64(1<<32) + uint64(k.CorrArg)
		name := auparse.AuditMessageType(k.Type).String()
		return fmt.Sprintf("type=%s msg=audit(%d.%03d:%d): %s", name, k.Sec, k.Msec, big, k.Body)
	case "bad-type-name":
		names := []string{"NOPE_NOT_A_TYPE", "UNKNOWN[65536]", "UNKNOWN[-1]", "UNKNOWN[x]", "UNKNOWN[", "UNKNOWN]", "SYSCALLS", "", "UNKNOWN[99999999999]", "SYS CALL",
			// brackets in the wrong order or unbalanced
			"UNKNOWN]1329[", "][", "]", "[", "[]", "]1329[", "UNKNOWN]]", "UNKNOWN[[", "]UNKNOWN[", "UNKNOWN]1329", "UNKNOWN[]", "[1329"}
		_, after := k.render()
		return "type=" + names[k.CorrArg%len(names)] + " msg=" + after
	case "left-truncate":
		// the beginning of the line is lost (1 .. everything before "msg="); also "type=msg=..." (name and blank lost)
		mi := strings.Index(line, "msg=")
		n := 1 + k.CorrArg%mi
		out := line[n:]
		if k.CorrArg%7 == 0 {
			out = "type=" + line[mi:]
		}
		// not asserted when the damaged prefix still leaves a resolvable type name
		if j := strings.Index(out, "msg="); j >= 6 {
			if _, err := auparse.GetAuditMessageType(out[5 : j-1]); err == nil {
				return ""
			}
		}
		return out
	case "no-msg-token":
		_, after := k.render()
		if strings.Contains(k.Body, "msg=") {
			return ""
		}
		return "type=" + auparse.AuditMessageType(k.Type).String() + " " + after
	}
	return ""
}

var c04Corruptions = []string{"truncate", "drop-structural", "letter-for-digit", "seq-overflow", "bad-type-name", "no-msg-token", "left-truncate", "empty-field", "literal-number"}

func sameTimestampText(got string, want time.Time) bool {
	if got == want.UTC().String() {
		return true
	}
	for _, layout := range []string{time.RFC3339Nano, "2006-01-02 15:04:05.999999999 -0700 MST", "2006-01-02T15:04:05.000Z"} {
		if t, err := time.Parse(layout, got); err == nil && t.Equal(want) {
			return true
		}
	}
	return false
}

func c04Check(c *mon.Ctx, k *c04Case) {
	if k.Corrupt != "" {
		line := k.corrupt()
		if line == "" {
			return
		}
		c.Add("error_side_lines", 1)
		var m *auparse.AuditMessage
		var err error
		if p, st := mon.Try(func() { m, err = auparse.ParseLogLine(line) }); p != nil {
			c.Violation("panic", fmt.Sprintf("ParseLogLine panicked on %q: %v\n%s", line, p, st), k)
			return
		}
		if err == nil || m != nil {
			c.Violation("malformed-header-accepted:"+k.Corrupt, fmt.Sprintf("corruption %s: ParseLogLine(%q) returned (%v, %v); a malformed header must yield an error and no message", k.Corrupt, line, m != nil, err), k)
		}
		return
	}
	line, after := k.render()
	T := auparse.AuditMessageType(k.Type)
	want := time.Unix(k.Sec, int64(k.Msec)*1e6)
	var m, m2 *auparse.AuditMessage
	var err, err2 error
	if p, st := mon.Try(func() { m, err = auparse.ParseLogLine(line); m2, err2 = auparse.Parse(T, after) }); p != nil {
		c.Violation("panic", fmt.Sprintf("parser panicked on %q: %v\n%s", line, p, st), k)
		return
	}
	if err != nil || m == nil {
		c.Violation("valid-line-rejected", fmt.Sprintf("ParseLogLine(%q) = (%v, %v)", line, m, err), k)
		return
	}
	if err2 != nil || m2 == nil {
		c.Violation("valid-message-rejected", fmt.Sprintf("Parse(%d, %q) = (%v, %v)", k.Type, after, m2, err2), k)
		return
	}
	fail := func(sig, f string, a ...any) {
		c.Violation(sig, fmt.Sprintf(f, a...)+fmt.Sprintf("\n  line: %q", clipStr(line, 300)), k)
	}
	if m.RecordType != T {
		fail("record-type", "RecordType = %d, written %d", m.RecordType, k.Type)
	}
	if !m.Timestamp.Equal(want) {
		fail("timestamp", "Timestamp = %s, written %d.%03d (= %s)", m.Timestamp, k.Sec, k.Msec, want.UTC())
	}
	if m.Timestamp.Location() != time.UTC {
		fail("timestamp-location", "Timestamp location = %s, want UTC", m.Timestamp.Location())
	}
	if uint64(m.Sequence) != k.Seq {
		fail("sequence", "Sequence = %d, written %d", m.Sequence, k.Seq)
	}
	if wantRaw := strings.TrimSpace(after); m.RawData != wantRaw {
		fail("raw-data", "RawData = %q, want the trimmed text after msg= %q", clipStr(m.RawData, 200), clipStr(wantRaw, 200))
	}
	// ParseLogLine and Parse agree
	if m.RecordType != m2.RecordType || !m.Timestamp.Equal(m2.Timestamp) || m.Sequence != m2.Sequence || m.RawData != m2.RawData {
		fail("parse-disagrees", "ParseLogLine and Parse disagree: %v/%v/%d/%q vs %v/%v/%d/%q", m.RecordType, m.Timestamp, m.Sequence, clipStr(m.RawData, 80), m2.RecordType, m2.Timestamp, m2.Sequence, clipStr(m2.RawData, 80))
	}
	var d1, d2 map[string]string
	var e1, e2 error
	var ms map[string]interface{}
	if p, st := mon.Try(func() { d1, e1 = m.Data(); d2, e2 = m2.Data(); ms = m.ToMapStr() }); p != nil {
		c.Violation("panic", fmt.Sprintf("Data/ToMapStr panicked on %q: %v\n%s", line, p, st), k)
		return
	}
	if !reflect.DeepEqual(d1, d2) || (e1 == nil) != (e2 == nil) || (e1 != nil && e1.Error() != e2.Error()) {
		fail("data-disagrees", "Data() of ParseLogLine and Parse results differ: %v (%v) vs %v (%v)", d1, e1, d2, e2)
	}
	if got := ms["record_type"]; got != T.String() {
		fail("mapstr-record-type", "ToMapStr record_type = %v, want %s", got, T.String())
	}
	if got, _ := ms["sequence"].(string); got != strconv.FormatUint(k.Seq, 10) {
		fail("mapstr-sequence", "ToMapStr sequence = %v, want %d", ms["sequence"], k.Seq)
	}
	if got := ms["raw_msg"]; got != m.RawData {
		fail("mapstr-raw-msg", "ToMapStr raw_msg = %v, want RawData", got)
	}
	if got, _ := ms["@timestamp"].(string); !sameTimestampText(got, want) {
		fail("mapstr-timestamp", "ToMapStr @timestamp = %v, want %s", ms["@timestamp"], want.UTC())
	}
	// "always": also on a second call, after the caller has done what it likes with the first map
	delete(ms, "raw_msg")
	delete(ms, "@timestamp")
	ms["record_type"], ms["sequence"] = "changed-by-caller", "changed-by-caller"
	ms["added-by-caller"] = 1
	var ms2 map[string]interface{}
	if p, st := mon.Try(func() { ms2 = m.ToMapStr() }); p != nil {
		c.Violation("panic", fmt.Sprintf("second ToMapStr panicked on %q: %v\n%s", line, p, st), k)
		return
	}
	ts2, _ := ms2["@timestamp"].(string)
	seq2, _ := ms2["sequence"].(string)
	if ms2["record_type"] != T.String() || seq2 != strconv.FormatUint(k.Seq, 10) || ms2["raw_msg"] != m.RawData || !sameTimestampText(ts2, want) {
		fail("mapstr-second-call", "a second ToMapStr (after the caller changed the first map) reports record_type=%v sequence=%v @timestamp=%v raw_msg present=%v; want the header's %s / %d / %s", ms2["record_type"], ms2["sequence"], ms2["@timestamp"], ms2["raw_msg"] != nil, T.String(), k.Seq, want.UTC())
	}
	if _, leaked := ms2["added-by-caller"]; leaked {
		fail("mapstr-second-call", "a key the caller added to the first ToMapStr result shows up in the second result")
	}
}

func c04Gen(r *mon.Rand, typ uint16, variant int) *c04Case {
	k := &c04Case{Type: typ, Lower: r.Chance(1, 3), Msec: r.Intn(1000)}
	if r.Chance(1, 2) {
		k.Sec = mon.Pick(r, c04Secs)
	} else {
		k.Sec = r.Int63n(1 << 34)
	}
	if r.Chance(1, 2) {
		k.Seq = mon.Pick(r, c04Seqs)
	} else {
		k.Seq = uint64(r.Uint32())
	}
	if r.Chance(1, 6) {
		k.Blanks = r.Range(1, 3)
	}
	k.Body = c04Bodies[(int(typ)+variant)%len(c04Bodies)]
	if r.Chance(1, 10) {
		k.Body = string(r.Bytes(r.Range(0, 40)))
		k.Body = strings.NewReplacer("\n", " ", "\r", " ").Replace(k.Body)
	}
	return k
}

func init() {
	register(&mon.CheckSpec{
		ID: "C04", Level: "exploration",
		Rule: "cases = generated lines 'type=<name> msg=audit(S.mmm:N): body' for ALL 65536 record type codes (name as the library prints it, upper or lower case; V variants per code), seconds from {0,1,2^31-1,2^31,2^32-1,2^32,2^34-1} and random in [0,2^34), every millisecond value, sequence numbers at the uint32 boundaries and random, 18 hostile bodies (containing msg=, ( ) : . and the well-known key names, non-UTF-8, long) plus random bytes, optional blanks after msg=; for each valid line a sample of single corruptions from a closed list (truncation before ')', the beginning of the line lost, structural character removed, letter for a digit, N >= 2^32, unknown type name, msg= missing) must be rejected. distinct_nontrivial = distinct lines (by content) that are corrupted, or whose type has no table name, or that use a lower-case name, blanks after msg=, seconds or sequence >= 2^31, or a body containing structural characters or key=value text.",
		Assumptions: []string{
			"type names are printed with the library's own AuditMessageType.String(); name->number->name consistency of that table is C20's subject",
			"@timestamp is accepted in Go's default time format or RFC3339 as long as it denotes the header's instant",
		},
		Phases: plainPhase("headers"),
		Run: func(c *mon.Ctx) {
			variants := c.Pick(4, 800)
			ev := c.Counter("evaluations")
			nt := c.DistinctSet("nontrivial")
			msSeen := c.DistinctSet("millisecond_values")
			c.ForEach(65536*variants, func(w, i int) {
				typ := uint16(i % 65536)
				v := i / 65536
				r := c.Rand(1, uint64(i))
				k := c04Gen(r, typ, v)
				c04Check(c, k)
				ev.Add(1)
				msSeen.AddHash(uint64(k.Msec))
				line, _ := k.render()
				if k.Lower || k.Blanks > 0 || k.Sec >= 1<<31 || k.Seq >= 1<<31 || strings.HasPrefix(auparse.AuditMessageType(k.Type).String(), "UNKNOWN[") || strings.ContainsAny(k.Body, "(.:)=") {
					nt.AddString(line)
				}
				if c.WantSample() {
					c.Sample(map[string]any{"line": clipStr(line, 200)})
				}
				// error side: two corruptions of this line
				for j := 0; j < 2; j++ {
					kc := *k
					kc.Corrupt = mon.Pick(r, c04Corruptions)
					kc.CorrArg = r.Intn(1 << 20)
					if l := kc.corrupt(); l != "" {
						c04Check(c, &kc)
						ev.Add(1)
						nt.AddString(l)
					}
				}
			})
			c.Add("type_codes_covered", 65536)
			c.Add("distinct_millisecond_values", msSeen.Len())
			c.Require("error_side_lines", 1000)
		},
		Replay: func(c *mon.Ctx, kase json.RawMessage) {
			var k c04Case
			if json.Unmarshal(kase, &k) != nil {
				return
			}
			l, _ := k.render()
			if k.Corrupt != "" {
				l = k.corrupt()
			}
			fmt.Printf("replay: line %q\n", l)
			c04Check(c, &k)
		},
	})
}
