package checks

import (
	"bytes"
	"encoding/json"
	"fmt"
	"os"
	"path/filepath"
	"sort"
	"strings"

	"github.com/elastic/go-libaudit/v2/rule"
	"github.com/elastic/go-libaudit/v2/rule/flags"

	"verifharness/internal/mon"
	"verifharness/internal/rulegen"
	"verifharness/internal/uapi"
)

// C07: ToCommandLine(Build(r)) re-parses and re-encodes to the same bytes.

func wordName(i int) string {
	off := i * 4
	switch {
	case off == uapi.RuleOffFlags:
		return "list"
	case off == uapi.RuleOffAction:
		return "action"
	case off == uapi.RuleOffFieldCount:
		return "field_count"
	case off < uapi.RuleOffFields:
		return fmt.Sprintf("mask[%d]", (off-uapi.RuleOffMask)/4)
	case off < uapi.RuleOffValues:
		return fmt.Sprintf("fields[%d]", (off-uapi.RuleOffFields)/4)
	case off < uapi.RuleOffFieldFlags:
		return fmt.Sprintf("values[%d]", (off-uapi.RuleOffValues)/4)
	case off < uapi.RuleOffBufLen:
		return fmt.Sprintf("fieldflags[%d]", (off-uapi.RuleOffFieldFlags)/4)
	case off == uapi.RuleOffBufLen:
		return "buflen"
	}
	return fmt.Sprintf("buf+%d", off-uapi.RuleOffBuf)
}

func firstDiff(a, b []byte) string {
	n := len(a)
	if len(b) < n {
		n = len(b)
	}
	for i := 0; i+4 <= n; i += 4 {
		if !bytes.Equal(a[i:i+4], b[i:i+4]) {
			return fmt.Sprintf("%s: %x -> %x", wordName(i/4), a[i:i+4], b[i:i+4])
		}
	}
	return fmt.Sprintf("length %d -> %d", len(a), len(b))
}

// sameUpToArchFirst reports whether two images are the same rule with the only
// difference that the arch triple moved to slot 0 (K6): equal list, action,
// mask, and equal multisets of (field, operator, value, string).
func sameUpToArchFirst(a, b []byte) bool {
	da, ea := rulegen.Decode(a)
	db, eb := rulegen.Decode(b)
	if ea != nil || eb != nil || da.Flags != db.Flags || da.Action != db.Action || da.FieldCount != db.FieldCount || da.Mask != db.Mask || da.BufLen != db.BufLen || da.FieldCount > 64 {
		return false
	}
	triples := func(d *rulegen.Decoded) ([]string, bool) {
		var out []string
		off := 0
		for i := 0; i < int(d.FieldCount); i++ {
			s := ""
			if uapi.StringFields[d.Fields[i]] {
				end := off + int(d.Values[i])
				if end > len(d.Buf) {
					return nil, false
				}
				s = string(d.Buf[off:end])
				off = end
			}
			out = append(out, fmt.Sprintf("%d/%x/%d/%s", d.Fields[i], d.FieldFlags[i], d.Values[i], s))
		}
		return out, true
	}
	ta, ok1 := triples(da)
	tb, ok2 := triples(db)
	if !ok1 || !ok2 {
		return false
	}
	// b must have arch first, and removing the arch triple from both must give the same ORDERED list
	archAt := func(d *rulegen.Decoded) int {
		for i := 0; i < int(d.FieldCount); i++ {
			if d.Fields[i] == uapi.Fields["arch"] {
				return i
			}
		}
		return -1
	}
	ia, ib := archAt(da), archAt(db)
	if ia <= 0 || ib != 0 {
		return false
	}
	ra := append(append([]string{}, ta[:ia]...), ta[ia+1:]...)
	rb := tb[1:]
	if ta[ia] != tb[0] || len(ra) != len(rb) {
		return false
	}
	for i := range ra {
		if ra[i] != rb[i] {
			return false
		}
	}
	_ = sort.Strings
	return true
}

func c07Class(s *rulegen.Spec) string {
	if s.Watch {
		return "watch"
	}
	var cl []string
	for _, f := range s.Filters {
		cl = append(cl, f.LHS)
	}
	if len(cl) == 1 {
		return cl[0]
	}
	return "multi"
}

// c07InDomain: the statement excludes watch-shaped rules that disagree with the filesystem (path= naming a
// directory, dir= naming something that is not an existing directory), because the -w form re-derives the
// kind by stat. A rule can only be watch-shaped when all its filters are path/dir/perm/key.
func c07InDomain(s *rulegen.Spec) bool {
	if s.Watch {
		return true
	}
	for _, f := range s.Filters {
		if f.LHS != "path" && f.LHS != "dir" && f.LHS != "perm" && f.LHS != "key" {
			return true
		}
	}
	for _, f := range s.Filters {
		st, err := os.Stat(f.RHS)
		if f.LHS == "path" && err == nil && st.IsDir() {
			return false
		}
		if f.LHS == "dir" && (err != nil || !st.IsDir()) {
			return false
		}
	}
	return true
}

func c07One(c *mon.Ctx, s *rulegen.Spec) {
	var w, w2 rule.WireFormat
	var text, text2 string
	var errB, errC, errP, errB2, errC2 error
	p, st := mon.Try(func() {
		w, errB = rule.Build(s.Rule())
		if errB != nil {
			return
		}
		text, errC = rule.ToCommandLine(w, false)
		if errC != nil {
			return
		}
		var r2 rule.Rule
		r2, errP = flags.Parse(text)
		if errP != nil {
			return
		}
		w2, errB2 = rule.Build(r2)
		if errB2 != nil {
			return
		}
		text2, errC2 = rule.ToCommandLine(w2, false)
	})
	req := clipStr(s.Text(), 300)
	if p != nil {
		c.Violation("panic", fmt.Sprintf("panic %v for %s\n%s", p, req, st), s)
		return
	}
	if errB != nil {
		c.Add("not_accepted_by_build", 1)
		return // outside the domain ("every rule that Build accepts")
	}
	c.Add("rules_built", 1)
	cls := c07Class(s)
	switch {
	case errC != nil:
		c.Violation("decode-error:"+cls, fmt.Sprintf("ToCommandLine failed on Build's own output: %v\n  request: %s", errC, req), s)
	case errP != nil:
		c.Violation("reparse-error:"+cls, fmt.Sprintf("flags.Parse rejects the text ToCommandLine printed: %v\n  request: %s\n  printed: %s", errP, req, clipStr(text, 300)), s)
	case errB2 != nil:
		c.Violation("rebuild-error:"+cls, fmt.Sprintf("Build rejects the re-parsed rule: %v\n  request: %s\n  printed: %s", errB2, req, clipStr(text, 300)), s)
	case !bytes.Equal(w, w2):
		if sameUpToArchFirst(w, w2) {
			c.Violation("arch-not-first-permutation", fmt.Sprintf("re-encoding moves the arch filter to slot 0 (same rule, different bytes)\n  request: %s\n  printed: %s", req, clipStr(text, 300)), s)
			return
		}
		c.Violation("bytes-differ:"+cls, fmt.Sprintf("re-encoded rule differs at %s\n  request: %s\n  printed: %s", firstDiff(w, w2), req, clipStr(text, 300)), s)
	case errC2 != nil || text2 != text:
		c.Violation("text-not-stable:"+cls, fmt.Sprintf("ToCommandLine of the re-encoded bytes gives %q (%v), first time %q", clipStr(text2, 200), errC2, clipStr(text, 200)), s)
	default:
		c.Add("round_trips_ok", 1)
	}
}

func c07Run(c *mon.Ctx) {
	dir, file := watchTargets(c)
	ev := c.Counter("evaluations")
	nt := c.DistinctSet("nontrivial")
	run := func(s *rulegen.Spec) {
		if !c07InDomain(s) {
			c.Add("requests_outside_the_domain_skipped", 1)
			return
		}
		c07One(c, s)
		ev.Add(1)
		nt.AddString(s.Text())
		if c.WantSample() {
			c.Sample(map[string]any{"rule": clipStr(s.Text(), 300)})
		}
	}
	// grid over single filters (same cells as C06)
	type cell struct{ list, action, field, op string }
	var cells []cell
	for _, l := range []string{"exit", "task", "user", "exclude"} {
		for _, a := range []string{"always", "never"} {
			for _, f := range rulegen.FieldsFor(l) {
				for _, op := range rulegen.AllOps {
					cells = append(cells, cell{l, a, f, op})
				}
			}
		}
	}
	vals := c.Pick(5, 100)
	c.ForEach(len(cells)*vals, func(w, i int) {
		ce := cells[i/vals]
		r := c.Rand(1, uint64(i))
		f := rulegen.GenFilter(r, &rulegen.Opts{}, ce.list, ce.field)
		f.Op = ce.op
		s := &rulegen.Spec{List: ce.list, Action: ce.action, Filters: []rulegen.Filter{f}}
		if f.LHS != "arch" && r.Bool() {
			s.Syscalls = []rulegen.Syscall{{Text: "open", Num: 2}, {Text: "59", Num: 59}}
		}
		run(s)
	})
	for p, code := range uapi.Comparisons {
		for _, op := range []string{"=", "!="} {
			for _, sw := range []bool{false, true} {
				a, b := p.A, p.B
				if sw {
					a, b = b, a
				}
				run(&rulegen.Spec{List: "exit", Action: "always", Filters: []rulegen.Filter{{Compare: true, LHS: a, Op: op, RHS: b, Field: uapi.FieldCompare, Value: code}}})
			}
		}
	}
	// every syscall number 0..2047 by number
	c.ForEach(2048, func(w, i int) {
		run(&rulegen.Spec{List: "exit", Action: "always", Syscalls: []rulegen.Syscall{{Text: fmt.Sprint(i), Num: i}}})
	})
	// watches
	wd := filepath.Dir(dir)
	// the kind of a watch is re-derived from the filesystem when the text is parsed again: also through
	// symbolic links (a link to a directory IS an existing directory for stat)
	for _, target := range []struct{ p, kind string }{{file, "path"}, {dir, "dir"}, {wd + "/link-to-dir", "dir"}, {wd + "/link-to-file", "path"}, {wd + "/dangling-link", "path"}, {wd + "/link-to-dir/sub", "dir"}} {
		for m := 0; m < 16; m++ {
			perms := ""
			for i, l := range "rwxa" {
				if m&(1<<i) != 0 {
					perms += string(l)
				}
			}
			for _, keys := range [][]string{nil, {"k1"}, {"k1", "k2"}} {
				run(&rulegen.Spec{Watch: true, Path: target.p, PathKind: target.kind, Perms: perms, Keys: keys})
			}
		}
	}
	// watch-shaped syscall rules (path/dir + perm [+ key], all syscalls) in every order / action / operator,
	// with the key given with -k and as a filter with every operator
	// path values below a regular file (stat says ENOTDIR) and with an over-long component (ENAMETOOLONG): they
	// name no directory, so path= is right and the -w form must be accepted again
	for _, tv := range [][2]string{{file, dir}, {wd + "/link-to-file", wd + "/link-to-dir"}, {file + "/below-a-file", dir}, {"/" + strings.Repeat("n", 300), dir}} {
		file, dir := tv[0], tv[1]
		for _, act := range []string{"always", "never"} {
			for _, op := range []string{"=", "!="} {
				for _, order := range [][]string{{"path", "perm"}, {"perm", "path"}, {"dir", "perm"}, {"perm", "dir"}, {"perm"}, {"path", "perm", "perm"}, {"path", "perm", "key"}, {"dir", "perm", "key"}, {"key", "path", "perm"}, {"path", "key", "perm"}, {"path", "perm", "key", "key"}} {
					for _, keys := range [][]string{nil, {"k"}, {"k1", "k2"}} {
						for _, keyOp := range rulegen.AllOps {
							hasKeyFilter := false
							s := &rulegen.Spec{List: "exit", Action: act, Keys: keys}
							for _, fn := range order {
								switch fn {
								case "path":
									s.Filters = append(s.Filters, rulegen.Filter{LHS: "path", Op: op, RHS: file, Field: uapi.Fields["path"], Str: true})
								case "dir":
									s.Filters = append(s.Filters, rulegen.Filter{LHS: "dir", Op: op, RHS: dir, Field: uapi.Fields["dir"], Str: true})
								case "perm":
									s.Filters = append(s.Filters, rulegen.Filter{LHS: "perm", Op: "=", RHS: "wa", Field: uapi.Fields["perm"], Value: 10})
								case "key":
									hasKeyFilter = true
									s.Filters = append(s.Filters, rulegen.Filter{LHS: "key", Op: keyOp, RHS: "kf", Field: uapi.Fields["key"], Str: true})
								}
							}
							if !hasKeyFilter && keyOp != "=" {
								continue
							}
							run(s)
							c.Add("watch_shaped_syscall_rules", 1)
						}
					}
				}
			}
		}
	}
	n := c.Pick(60_000, 20_000_000)
	c.ForEach(n, func(w, i int) {
		r := c.Rand(2, uint64(i))
		run(rulegen.Random(r, &rulegen.Opts{WatchDir: dir, WatchFile: file}))
	})
	c.Require("rules_built", 1000)
}

func init() {
	register(&mon.CheckSpec{
		ID: "C07", Level: "exploration",
		Rule: "cases = the C06 request generator restricted to the statement's domain (string values without whitespace/quotes, watches on an existing file/directory, runtime architecture amd64, resolveIds=false): the single-filter grid (list x action x field x operator x V values, half of them with a syscall list), every inter-field comparison, every syscall number 0..2047, file and directory watches (also through symbolic links to a directory / a file / nothing) with every permission subset and 0-2 keys, watch-SHAPED syscall rules (path/dir + perm in every order, action, operator, with and without keys), and seeded random multi-filter rules. For each rule Build accepts: ToCommandLine must succeed, its text must re-parse and re-build to byte-identical wire data, and decoding those bytes must print the same text. distinct_nontrivial = distinct requests (by text).",
		Assumptions: []string{
			"requests Build rejects are outside the domain and only counted",
			"a difference that is exactly 'the arch triple moved to slot 0, nothing else changed' is classified separately (known finding K6); every other difference is a violation",
		},
		Phases: plainPhase("roundtrip"),
		Run:    c07Run,
		Replay: func(c *mon.Ctx, kase json.RawMessage) {
			var s rulegen.Spec
			if json.Unmarshal(kase, &s) != nil {
				return
			}
			fmt.Println("replay: request:", s.Text())
			if !c07InDomain(&s) {
				fmt.Println("replay: the request is outside the property's domain on this filesystem (a watch-shaped rule whose path=/dir= disagrees with what stat says): not a violation")
				return
			}
			if w, err := rule.Build(s.Rule()); err == nil {
				t, err := rule.ToCommandLine(w, false)
				fmt.Printf("replay: printed: %q err=%v\n", t, err)
			}
			c07One(c, &s)
		},
	})
	_ = strings.Join
}
