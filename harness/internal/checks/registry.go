// Package checks holds one CheckSpec per property.
package checks

import (
	"verifharness/internal/logenc"
	"verifharness/internal/mon"
)

var registry []*mon.CheckSpec

func register(c *mon.CheckSpec) { registry = append(registry, c) }

// All returns every registered check.
func All() []*mon.CheckSpec { return registry }

// Find looks a check up by property id.
func Find(id string) *mon.CheckSpec {
	for _, c := range registry {
		if c.ID == id {
			return c
		}
	}
	return nil
}

func plainPhase(name string) func(string) []mon.PhaseSpec {
	return func(string) []mon.PhaseSpec { return []mon.PhaseSpec{{Name: name, Flavour: "plain"}} }
}

func logencRuleCorpus() []string { return logenc.RuleCorpus() }
