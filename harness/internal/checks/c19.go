package checks

import (
	"encoding/json"
	"fmt"
	"sync"
	"time"

	libaudit "github.com/elastic/go-libaudit/v2"

	"verifharness/internal/mon"
	"verifharness/internal/reasm"
)

// C19: time behaviour of the Reassembler, decided with an interval-bracketed
// expiry oracle (sound under arbitrary scheduling delay) on histories that
// contain real sleeps.

var c19Timeouts = []time.Duration{-time.Second, 0, 2 * time.Millisecond, 5 * time.Millisecond, 20 * time.Millisecond, time.Hour}

func genC19(r *mon.Rand) *reasm.History {
	T := mon.Pick(r, c19Timeouts)
	h := &reasm.History{MaxInFlight: mon.Pick(r, []int{0, 1, 3, 8}), TimeoutNs: int64(T), Base: mon.Pick(r, []uint32{1, 0xFFFFFFFD, 1000})}
	unit := T
	if T <= 0 || T == time.Hour {
		unit = 2 * time.Millisecond
	}
	sleeps := []time.Duration{0, unit / 2, 2 * unit, 5 * unit}
	n := r.Range(1, 12)
	for len(h.Ops) < n {
		x := r.Intn(100)
		switch {
		case x < 30:
			if d := mon.Pick(r, sleeps); d > 0 {
				h.Ops = append(h.Ops, reasm.Op{Kind: reasm.OpSleep, Sleep: int64(d / time.Microsecond)})
			}
		case x < 50:
			h.Ops = append(h.Ops, reasm.Op{Kind: reasm.OpMaintain})
		default:
			op := reasm.Op{Kind: reasm.OpPushMsg, Seq: h.Base + uint32(r.Intn(6))}
			if r.Chance(1, 8) {
				op.Kind = reasm.OpPushRaw
			}
			y := r.Intn(100)
			switch {
			case y < 75:
				op.Type = mon.Pick(r, []uint16{1300, 1302, 1307, 1309})
			case y < 87:
				op.Type = mon.Pick(r, []uint16{1327, 1112, 2100})
			default:
				op.Type = reasm.TypeEOE
			}
			h.Ops = append(h.Ops, op)
		}
	}
	h.Ops = append(h.Ops, reasm.Op{Kind: reasm.OpClose})
	for i, m := 0, r.Intn(4); i < m; i++ {
		if r.Bool() {
			h.Ops = append(h.Ops, reasm.Op{Kind: reasm.OpMaintain})
		} else {
			h.Ops = append(h.Ops, reasm.Op{Kind: reasm.OpClose})
		}
	}
	return h
}

func c19Findings(h *reasm.History) ([]reasm.Finding, reasm.Classes) {
	tr := reasm.Execute(h, reasm.ExecOpts{Clock: true})
	fs, cl := reasm.Check(tr, reasm.Which{C01: true, C02: true, C03: true, C19: true})
	var out []reasm.Finding
	for _, f := range fs {
		switch {
		case f.Prop == "C19" || f.Prop == "ANY":
			out = append(out, f)
		case f.Op >= 0 && f.Op < len(h.Ops) && h.Ops[f.Op].Kind == reasm.OpClose:
			// "Close delivers every buffered event once, in order, with loss accounting"
			f.Sig = "close:" + f.Sig
			out = append(out, f)
		}
	}
	return out, cl
}

func init() {
	register(&mon.CheckSpec{
		ID: "C19", Level: "exploration",
		Rule: "cases = seeded histories of <= 12 ops (pushes of completing / non-completing / EOE records, real sleeps drawn from {0, T/2, 2T, 5T}, Maintain) followed by Close and 0-3 further Maintain/Close calls, for timeout T in {-1s, 0, 2ms, 5ms, 20ms, 1h} x maxInFlight in {0,1,3,8}; every call is bracketed by monotonic timestamps and each eviction decision is classified certainly-expired / certainly-fresh / uncertain (uncertain decisions accept either outcome). distinct_nontrivial = distinct histories (by text) with at least one certainly-expired or certainly-fresh decision.",
		Assumptions: []string{
			"the library's time.Now() readings lie inside the harness's monotonic bracket of the same call (same process, same clock)",
			"decisions that fall inside the uncertainty interval around an expiry instant are not decided (counted separately)",
			"NewReassembler(nil stream) is probed directly",
		},
		Phases: plainPhase("timed"),
		Run: func(c *mon.Ctx) {
			n := c.Pick(20000, 3000000)
			const conc = 256
			ev := c.Counter("evaluations")
			exp, fresh, unc := c.Counter("decisions_certainly_expired"), c.Counter("decisions_certainly_fresh"), c.Counter("decisions_uncertain")
			afterClose := c.Counter("calls_after_close_observed")
			nt := c.DistinctSet("nontrivial")
			// nil stream
			for _, max := range []int{0, 1, 5} {
				r, err := libaudit.NewReassembler(max, time.Second, nil)
				if err == nil || r != nil {
					c.Violation("nil-stream-accepted", fmt.Sprintf("NewReassembler(%d, 1s, nil) returned (%v, %v)", max, r, err), nil)
				}
			}
			c.Add("nil_stream_probes", 3)
			sem := make(chan struct{}, conc)
			var wg sync.WaitGroup
			for i := 0; i < n; i++ {
				sem <- struct{}{}
				wg.Add(1)
				go func(i int) {
					defer wg.Done()
					defer func() { <-sem }()
					h := genC19(c.Rand(1, uint64(i)))
					fs, cl := c19Findings(h)
					ev.Add(1)
					exp.Add(int64(cl.Expired))
					fresh.Add(int64(cl.Fresh))
					unc.Add(int64(cl.Uncertain))
					closed := false
					for _, o := range h.Ops {
						if closed && o.Kind != reasm.OpSleep {
							afterClose.Add(1)
						}
						if o.Kind == reasm.OpClose {
							closed = true
						}
					}
					if cl.Expired+cl.Fresh > 0 {
						nt.AddString(h.String())
						if c.WantSample() {
							c.Sample(map[string]any{"history": h.String(), "certainly_expired": cl.Expired, "certainly_fresh": cl.Fresh, "uncertain": cl.Uncertain})
						}
					}
					for _, f := range fs {
						c.Violation(f.Sig, f.What+"\n  history: "+h.String(), h)
					}
				}(i)
			}
			wg.Wait()
			c.Require("decisions_certainly_expired", 1)
			c.Require("decisions_certainly_fresh", 1)
			c.Require("calls_after_close_observed", 1)
		},
		Replay: func(c *mon.Ctx, kase json.RawMessage) {
			var h reasm.History
			if err := json.Unmarshal(kase, &h); err != nil {
				fmt.Println("replay: bad case:", err)
				return
			}
			fmt.Println("replay: history:", h.String())
			for rep := 0; rep < 20 && c.Violations() == 0; rep++ { // timing-dependent: repeat
				fs, _ := c19Findings(&h)
				for _, f := range fs {
					c.Violation(f.Sig, f.What, &h)
				}
			}
		},
	})
}
