package checks

import (
	"encoding/json"
	"fmt"
	"math"
	"runtime"
	"sync"
	"sync/atomic"
	"time"

	libaudit "github.com/elastic/go-libaudit/v2"
	"github.com/elastic/go-libaudit/v2/auparse"

	"verifharness/internal/mon"
	"verifharness/internal/reasm"
	"verifharness/internal/sched"
)

// C19: time behaviour of the Reassembler, decided with an interval-bracketed
// expiry oracle (sound under arbitrary scheduling delay) on histories that
// contain real sleeps.

// "effectively infinite" includes durations whose sum with the current time does not fit 63 bits of
// nanoseconds (250 years, the largest Duration); the most negative Duration is the other extreme
var c19Timeouts = []time.Duration{-time.Second, 0, 2 * time.Millisecond, 5 * time.Millisecond, 20 * time.Millisecond, time.Hour,
	250 * 365 * 24 * time.Hour, time.Duration(math.MaxInt64), time.Duration(math.MinInt64), 2 * time.Millisecond, 5 * time.Millisecond}

func genC19(r *mon.Rand) *reasm.History {
	T := mon.Pick(r, c19Timeouts)
	h := &reasm.History{MaxInFlight: mon.Pick(r, []int{0, 1, 3, 8}), TimeoutNs: int64(T), Base: mon.Pick(r, []uint32{1, 0xFFFFFFFD, 1000})}
	unit := T
	if T <= 0 || T >= time.Hour {
		unit = 2 * time.Millisecond
	}
	sleeps := []time.Duration{0, unit / 2, 2 * unit, 5 * unit}
	n := r.Range(1, 12)
	for len(h.Ops) < n {
		x := r.Intn(100)
		switch {
		case x < 30:
			if d := mon.Pick(r, sleeps); d > 0 {
				h.Ops = append(h.Ops, reasm.Op{Kind: reasm.OpSleep, Sleep: int64(d / time.Microsecond)})
			}
		case x < 50:
			h.Ops = append(h.Ops, reasm.Op{Kind: reasm.OpMaintain})
		default:
			op := reasm.Op{Kind: reasm.OpPushMsg, Seq: h.Base + uint32(r.Intn(6))}
			if r.Chance(1, 8) {
				op.Kind = reasm.OpPushRaw
			}
			y := r.Intn(100)
			switch {
			case y < 75:
				op.Type = mon.Pick(r, []uint16{1300, 1302, 1307, 1309})
			case y < 87:
				op.Type = mon.Pick(r, []uint16{1327, 1112, 2100})
			default:
				op.Type = reasm.TypeEOE
			}
			h.Ops = append(h.Ops, op)
		}
	}
	h.Ops = append(h.Ops, reasm.Op{Kind: reasm.OpClose})
	if r.Chance(1, 4) {
		// the stream goes on after Close: pushes still buffer and evict (also by time), Maintain and Close are
		// refused and must neither deliver nor make anything disappear
		for i, m := 0, r.Range(3, 9); i < m; i++ {
			switch x := r.Intn(10); {
			case x < 4:
				// fresh sequence numbers, or (half of the time) the ones used before Close: a record of a sequence
				// that Close flushed starts a new event like any other late arrival
				seq := h.Base + 10 + uint32(r.Intn(5))
				if r.Bool() {
					seq = h.Base + uint32(r.Intn(6))
				}
				h.Ops = append(h.Ops, reasm.Op{Kind: reasm.OpPushMsg, Seq: seq, Type: mon.Pick(r, []uint16{1300, 1302, 1307, 1327, reasm.TypeEOE})})
			case x < 7:
				if d := mon.Pick(r, sleeps); d > 0 {
					h.Ops = append(h.Ops, reasm.Op{Kind: reasm.OpSleep, Sleep: int64(d / time.Microsecond)})
				}
			case x < 9:
				h.Ops = append(h.Ops, reasm.Op{Kind: reasm.OpMaintain})
			default:
				h.Ops = append(h.Ops, reasm.Op{Kind: reasm.OpClose})
			}
		}
		return h
	}
	for i, m := 0, r.Intn(4); i < m; i++ {
		if r.Bool() {
			h.Ops = append(h.Ops, reasm.Op{Kind: reasm.OpMaintain})
		} else {
			h.Ops = append(h.Ops, reasm.Op{Kind: reasm.OpClose})
		}
	}
	return h
}

func c19Findings(h *reasm.History) ([]reasm.Finding, reasm.Classes) {
	tr := reasm.Execute(h, reasm.ExecOpts{Clock: true})
	fs, cl := reasm.Check(tr, reasm.Which{C01: true, C02: true, C03: true, C19: true})
	var out []reasm.Finding
	for _, f := range fs {
		switch {
		case f.Prop == "C19" || f.Prop == "ANY":
			out = append(out, f)
		case f.Op >= 0 && f.Op < len(h.Ops) && h.Ops[f.Op].Kind == reasm.OpClose:
			// "Close delivers every buffered event once, in order, with loss accounting"
			f.Sig = "close:" + f.Sig
			out = append(out, f)
		}
	}
	return out, cl
}

// c19Reentrant: a Close that is flushing has already happened as far as every later call is
// concerned: Maintain and Close made from INSIDE the callbacks of the flushing Close are "a second
// Close / Maintain afterwards" and must return an error and deliver nothing, and the flush itself
// still delivers every buffered event exactly once.
type c19Stream struct {
	r       *libaudit.Reassembler
	depth   int
	nested  int // callbacks received while a re-entrant call was running
	results []string
	seqs    []uint32
	armed   bool
	which   int
}

func (s *c19Stream) probe() {
	if !s.armed || s.depth > 0 {
		return
	}
	s.depth++
	if s.which&1 != 0 {
		if err := s.r.Maintain(); err == nil {
			s.results = append(s.results, "Maintain returned nil")
		}
	}
	if s.which&2 != 0 {
		if err := s.r.Close(); err == nil {
			s.results = append(s.results, "Close returned nil")
		}
	}
	s.depth--
}

func (s *c19Stream) ReassemblyComplete(msgs []*auparse.AuditMessage) {
	if s.depth > 0 {
		s.nested++
		return
	}
	if len(msgs) > 0 {
		s.seqs = append(s.seqs, msgs[0].Sequence)
	}
	s.probe()
}

func (s *c19Stream) EventsLost(int) {
	if s.depth > 0 {
		s.nested++
		return
	}
	s.probe()
}

type c19ReCase struct {
	Max   int      `json:"max_in_flight"`
	Seqs  []uint32 `json:"pushed_sequences"`
	Which int      `json:"reentrant_calls"` // bit 0 Maintain, bit 1 Close
}

func c19Reentrant(c *mon.Ctx, k *c19ReCase) {
	s := &c19Stream{which: k.Which}
	r, err := libaudit.NewReassembler(k.Max, time.Hour, s)
	if err != nil {
		c.Violation("new-error", "NewReassembler returned "+err.Error(), k)
		return
	}
	s.r = r
	for _, q := range k.Seqs {
		r.PushMessage(&auparse.AuditMessage{RecordType: 1300, Sequence: q, Timestamp: time.Unix(1700000000, 0), RawData: "x"})
	}
	before := len(s.seqs)
	want := map[uint32]bool{}
	for _, q := range k.Seqs {
		want[q] = true
	}
	for _, q := range s.seqs {
		delete(want, q)
	}
	s.armed = true
	if err := r.Close(); err != nil {
		c.Violation("close:first-close-error", fmt.Sprintf("the first Close returned %v", err), k)
	}
	s.armed = false
	got := map[uint32]int{}
	for _, q := range s.seqs[before:] {
		got[q]++
	}
	for q := range want {
		if got[q] != 1 {
			c.Violation("close:reentrant-flush-count", fmt.Sprintf("event seq=%d buffered at Close was delivered %d times by a Close whose callbacks re-enter Maintain/Close (exactly once)", q, got[q]), k)
		}
	}
	if len(s.results) > 0 || s.nested > 0 {
		c.Violation("reentrant-call-after-close", fmt.Sprintf("calls made from inside the callbacks of the flushing Close: %v; %d callbacks were delivered by them (they must return an error and deliver nothing)", s.results, s.nested), k)
	}
	if r.Maintain() == nil || r.Close() == nil {
		c.Violation("call-after-close-nil", "Maintain/Close after the re-entrant Close returned nil", k)
	}
}

// c19ConcurrentClose: "Close delivers every buffered event once, in order" also when the Close runs
// between the atomic steps of a concurrent push: every interleaving (controlled scheduler over the verif
// yield points, as in C11) of programs that push two or three sequences in descending order beside a Close.
func c19ConcurrentClose(c *mon.Ctx) {
	ev := c.Counter("evaluations")
	push := func(seq uint32) sched.POp { return sched.POp{Kind: sched.PushNC, Seq: seq} }
	var progs []*sched.Program
	for _, max := range []int{2, 3, 8} {
		for _, re := range []int{sched.ReNone, sched.ReMaintain} {
			progs = append(progs,
				&sched.Program{Max: max, Reenter: re, Threads: [][]sched.POp{{push(9), push(7)}, {{Kind: sched.Close}}}},
				&sched.Program{Max: max, Reenter: re, Threads: [][]sched.POp{{push(9), push(8), push(7)}, {{Kind: sched.Close}}}},
				&sched.Program{Max: max, Reenter: re, Threads: [][]sched.POp{{push(9), push(7)}, {{Kind: sched.Maintain}, {Kind: sched.Close}}}},
				&sched.Program{Max: max, Reenter: re, Threads: [][]sched.POp{{push(9)}, {push(7)}, {{Kind: sched.Close}}}},
				&sched.Program{Max: max, Reenter: re, Threads: [][]sched.POp{{push(9), {Kind: sched.PushC, Seq: 8}, push(7)}, {{Kind: sched.Close}}}},
			)
		}
	}
	for _, p := range progs {
		res := sched.Explore(p, -1, 200000)
		ev.Add(res.Schedules)
		c.Add("concurrent_close_schedules", res.Schedules)
		c.Nontrivial(p.String())
		if res.Timeout && len(res.Findings) == 0 {
			c.Inconclusive("concurrent-close: a schedule of program " + p.String() + " did not finish")
			return
		}
		for _, f := range res.Findings {
			if f.Sig == "close-flush-out-of-order" {
				c.Violation("close:"+f.Sig, fmt.Sprintf("%s\n  program: %s\n  schedule (choice sequence): %v", f.What, p.String(), res.FailChoice), map[string]any{"program": p, "choices": res.FailChoice})
			}
		}
	}
	c.Require("concurrent_close_schedules", 100)
}

// c19CloseStorm: the Close flush beside real, unscheduled pushers (the scheduler above only interleaves at the
// yield points BETWEEN the Reassembler's locked steps; a flush that takes more than one locked step is reached
// only by free-running goroutines).  K never-completing events are buffered, then P goroutines push lower,
// descending, never-completing sequences while one goroutine calls Close.  Once every call has returned, each of
// the K events buffered before Close was invoked has been delivered exactly once, and nothing more than once.
type c19StormStream struct {
	mu   sync.Mutex
	seen map[*auparse.AuditMessage]int
}

func (s *c19StormStream) ReassemblyComplete(msgs []*auparse.AuditMessage) {
	s.mu.Lock()
	for _, m := range msgs {
		s.seen[m]++
	}
	s.mu.Unlock()
}
func (s *c19StormStream) EventsLost(int) {}

func c19CloseStorm(c *mon.Ctx) {
	ev := c.Counter("evaluations")
	iters := c.Pick(4000, 400000)
	var overlapped int64
	for it := 0; it < iters && c.Violations() == 0; it++ {
		r := c.Rand(7, uint64(it))
		st := &c19StormStream{seen: map[*auparse.AuditMessage]int{}}
		ra, err := libaudit.NewReassembler(10000, time.Hour, st)
		if err != nil {
			c.Violation("new-error", "NewReassembler returned "+err.Error(), nil)
			return
		}
		base := mon.Pick(r, []uint32{5000, 0xFFFFFF00, 1 << 24})
		K, P, per := r.Range(1, 6), r.Range(1, 4), r.Range(1, 12)
		mk := func(seq uint32) *auparse.AuditMessage {
			return &auparse.AuditMessage{RecordType: 1300, Sequence: seq, Timestamp: time.Unix(1700000000, 0), RawData: "x"}
		}
		var pre []*auparse.AuditMessage
		for i := 0; i < K; i++ {
			m := mk(base + 1000 + uint32(i))
			pre = append(pre, m)
			ra.PushMessage(m)
		}
		var wg sync.WaitGroup
		start := make(chan struct{})
		var pushed [][]*auparse.AuditMessage
		var closeErr error
		var okPushesAfterStart int64
		for g := 0; g < P; g++ {
			var mine []*auparse.AuditMessage
			for j := 0; j < per; j++ {
				mine = append(mine, mk(base+999-uint32(g*per+j)))
			}
			pushed = append(pushed, mine)
			wg.Add(1)
			go func(mine []*auparse.AuditMessage) {
				defer wg.Done()
				<-start
				for _, m := range mine {
					ra.PushMessage(m)
					atomic.AddInt64(&okPushesAfterStart, 1)
				}
			}(mine)
		}
		wg.Add(1)
		go func() {
			defer wg.Done()
			<-start
			for i := r.Intn(3); i > 0; i-- {
				runtime.Gosched()
			}
			closeErr = ra.Close()
		}()
		close(start)
		wg.Wait()
		ev.Add(1)
		k := map[string]any{"kind": "close-storm", "buffered": K, "pushers": P, "pushes_each": per, "base": base, "iteration": it}
		if closeErr != nil {
			c.Violation("close:first-close-error", fmt.Sprintf("the only Close returned %v", closeErr), k)
		}
		st.mu.Lock()
		for i, m := range pre {
			if st.seen[m] != 1 {
				c.Violation("close:storm-buffered-not-flushed", fmt.Sprintf("event seq=%d (#%d of %d buffered before Close was invoked) was delivered %d times once Close and %d concurrent pushers of lower sequences had returned (exactly once)", m.Sequence, i+1, K, st.seen[m], P), k)
				break
			}
		}
		nd := 0
		for _, mine := range pushed {
			for _, m := range mine {
				if st.seen[m] > 1 {
					c.Violation("close:storm-delivered-twice", fmt.Sprintf("message seq=%d pushed beside Close was delivered %d times", m.Sequence, st.seen[m]), k)
				}
				nd += st.seen[m]
			}
		}
		st.mu.Unlock()
		if nd > 0 && nd < P*per {
			overlapped++ // some concurrent pushes made it into the flush and some did not: the calls really overlapped
		}
	}
	c.Add("close_storm_rounds", int64(iters))
	c.Add("close_storm_rounds_where_pushes_straddled_the_flush", overlapped)
	c.Require("close_storm_rounds", 100)
}

func init() {
	register(&mon.CheckSpec{
		ID: "C19", Level: "exploration",
		Rule: "cases = seeded histories of <= 12 ops (pushes of completing / non-completing / EOE records, real sleeps drawn from {0, T/2, 2T, 5T}, Maintain) followed by Close and 0-3 further Maintain/Close calls, for timeout T in {-2^63 ns, -1s, 0, 2ms, 5ms, 20ms, 1h, 250 years, 2^63-1 ns} x maxInFlight in {0,1,3,8}; every call is bracketed by monotonic timestamps and each eviction decision is classified certainly-expired / certainly-fresh / uncertain (uncertain decisions accept either outcome). A second phase (concurrent-close) enumerates, with the controlled scheduler of C11, every interleaving of programs that push 2-3 sequences in descending order beside a Close: the groups one Close call delivers must come in ascending order. A third phase (close-storm) runs free goroutines: 1-6 never-completing events are buffered, then 1-4 goroutines push lower, descending sequences while another calls Close; when all have returned every event buffered before Close was invoked has been delivered exactly once (4 000 / 400 000 rounds; the number of rounds in which the pushes straddled the flush is reported). distinct_nontrivial = distinct histories (by text) with at least one certainly-expired or certainly-fresh decision, plus the concurrent-close programs.",
		Assumptions: []string{
			"the library's time.Now() readings lie inside the harness's monotonic bracket of the same call (same process, same clock)",
			"decisions that fall inside the uncertainty interval around an expiry instant are not decided (counted separately)",
			"NewReassembler(nil stream) is probed directly",
			"a Maintain or Close made from inside a callback of the flushing Close counts as made 'afterwards' (the closed flag is set before the flush; C11 demands that exactly one Close succeeds, re-entrant ones included)",
		},
		Phases: func(string) []mon.PhaseSpec {
			return []mon.PhaseSpec{{Name: "timed", Flavour: "plain"}, {Name: "concurrent-close", Flavour: "plain", Env: []string{"GOMAXPROCS=1"}}, {Name: "close-storm", Flavour: "plain"}}
		},
		Run: func(c *mon.Ctx) {
			if c.Phase == "concurrent-close" {
				c19ConcurrentClose(c)
				return
			}
			if c.Phase == "close-storm" {
				c19CloseStorm(c)
				return
			}
			n := c.Pick(20000, 3000000)
			const conc = 256
			ev := c.Counter("evaluations")
			exp, fresh, unc := c.Counter("decisions_certainly_expired"), c.Counter("decisions_certainly_fresh"), c.Counter("decisions_uncertain")
			afterClose := c.Counter("calls_after_close_observed")
			nt := c.DistinctSet("nontrivial")
			// nil stream
			for _, max := range []int{0, 1, 5, 64, 1 << 30, -1, -2, -100, math.MinInt64} {
				for _, T := range c19Timeouts {
					var r *libaudit.Reassembler
					var err error
					if p, _ := mon.Try(func() { r, err = libaudit.NewReassembler(max, T, nil) }); p != nil {
						c.Violation("nil-stream-panic", fmt.Sprintf("NewReassembler(%d, %s, nil) panicked: %v", max, T, p), nil)
						continue
					}
					if err == nil || r != nil {
						c.Violation("nil-stream-accepted", fmt.Sprintf("NewReassembler(%d, %s, nil) returned (%v, %v)", max, T, r, err), nil)
					}
					c.Add("nil_stream_probes", 1)
				}
			}
			// re-entrant Maintain / Close from inside the callbacks of the flushing Close
			reN := c.Counter("reentrant_calls_during_close_flush")
			for i, m := 0, c.Pick(2000, 200000); i < m; i++ {
				r := c.Rand(2, uint64(i))
				k := &c19ReCase{Max: mon.Pick(r, []int{0, 1, 3, 8, 50}), Which: r.Range(1, 3)}
				base := mon.Pick(r, []uint32{1, 0xFFFFFFFD, 1000})
				for j, nn := 0, r.Range(1, 10); j < nn; j++ {
					k.Seqs = append(k.Seqs, base+uint32(r.Intn(8)))
				}
				c19Reentrant(c, k)
				reN.Add(1)
			}
			sem := make(chan struct{}, conc)
			var wg sync.WaitGroup
			for i := 0; i < n; i++ {
				sem <- struct{}{}
				wg.Add(1)
				go func(i int) {
					defer wg.Done()
					defer func() { <-sem }()
					h := genC19(c.Rand(1, uint64(i)))
					fs, cl := c19Findings(h)
					ev.Add(1)
					exp.Add(int64(cl.Expired))
					fresh.Add(int64(cl.Fresh))
					unc.Add(int64(cl.Uncertain))
					closed := false
					for _, o := range h.Ops {
						if closed && o.Kind != reasm.OpSleep {
							afterClose.Add(1)
						}
						if o.Kind == reasm.OpClose {
							closed = true
						}
					}
					if cl.Expired+cl.Fresh > 0 {
						nt.AddString(h.String())
						if c.WantSample() {
							c.Sample(map[string]any{"history": h.String(), "certainly_expired": cl.Expired, "certainly_fresh": cl.Fresh, "uncertain": cl.Uncertain})
						}
					}
					for _, f := range fs {
						c.Violation(f.Sig, f.What+"\n  history: "+h.String(), h)
					}
				}(i)
			}
			wg.Wait()
			c.Require("decisions_certainly_expired", 1)
			c.Require("decisions_certainly_fresh", 1)
			c.Require("calls_after_close_observed", 1)
		},
		Replay: func(c *mon.Ctx, kase json.RawMessage) {
			var ck struct {
				Program *sched.Program `json:"program"`
				Choices []int          `json:"choices"`
			}
			if json.Unmarshal(kase, &ck) == nil && ck.Program != nil {
				fmt.Println("replay: concurrent-close program", ck.Program.String(), "schedule", ck.Choices)
				run := sched.Execute(ck.Program, ck.Choices, nil)
				for _, f := range run.Findings {
					if f.Sig == "close-flush-out-of-order" {
						c.Violation("close:"+f.Sig, f.What, kase)
					}
				}
				return
			}
			var sk struct {
				Kind string `json:"kind"`
			}
			if json.Unmarshal(kase, &sk) == nil && sk.Kind == "close-storm" {
				fmt.Println("replay: close-storm (schedule-dependent: the whole storm is repeated)")
				c19CloseStorm(c)
				return
			}
			var rk c19ReCase
			if json.Unmarshal(kase, &rk) == nil && len(rk.Seqs) > 0 {
				fmt.Printf("replay: re-entrant case %+v\n", rk)
				c19Reentrant(c, &rk)
				return
			}
			var h reasm.History
			if err := json.Unmarshal(kase, &h); err != nil {
				fmt.Println("replay: bad case:", err)
				return
			}
			fmt.Println("replay: history:", h.String())
			for rep := 0; rep < 20 && c.Violations() == 0; rep++ { // timing-dependent: repeat
				fs, _ := c19Findings(&h)
				for _, f := range fs {
					c.Violation(f.Sig, f.What, &h)
				}
			}
		},
	})
}
