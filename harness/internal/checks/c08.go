package checks

import (
	"bytes"
	"encoding/binary"
	"encoding/json"
	"errors"
	"fmt"
	"strings"
	"sync"
	"syscall"

	libaudit "github.com/elastic/go-libaudit/v2"

	"verifharness/internal/mon"
	"verifharness/internal/simkernel"
	"verifharness/internal/uapi"
)

// C08: client commands report the kernel's verdict for their own request.

type c08Case struct {
	Op       string `json:"op"`
	NRules   int    `json:"n_rules,omitempty"`
	Errno    int    `json:"errno"`            // errno carried by the ACK selected by ErrAt (0 = success everywhere)
	ErrAt    int    `json:"err_at,omitempty"` // which request of a multi-request op is refused (0 = the first)
	Unsol    []int  `json:"unsolicited_before_datagram"`
	Burst    []int  `json:"transient_burst_before_datagram"`
	EvBurst  []int  `json:"transient_burst_before_each_unsolicited_event"` // per datagram position: burst placed before EACH unsolicited event there
	Adv      string `json:"adversarial,omitempty"`
	StartSeq uint32 `json:"start_seq"`
	Seed     uint64 `json:"seed"`
	// SeqZero lets the transport hand out request sequence number 0 (wrap-around). Only used in plans
	// without unsolicited events, where a sequence-0 datagram can only be the reply.
	SeqZero bool `json:"allow_request_sequence_zero,omitempty"`
	// SendFail: the transport refuses to send the (SendFail-1)-th request of the operation (0 = none).
	SendFail int `json:"send_fails_at_request,omitempty"`
	// StatusLen: length of the AUDIT_GET reply payload (0 = the full 44 bytes): older kernels send 32, 36 or 40
	// bytes, newer ones may send more
	StatusLen int `json:"status_reply_bytes,omitempty"`
	// WrapErr: how the transport reports transient receive failures (0 bare errno, 1 *os.SyscallError, 2 %w)
	WrapErr int `json:"receive_errors_wrapped,omitempty"`
}

var c08Ops = []string{"getstatus", "getrules", "addrule", "deleterule", "deleterules", "set-pid", "set-ratelimit", "set-backloglimit", "set-enabled", "set-immutable", "set-failure", "set-backlogwait"}
var c08Errnos = []int{0, int(syscall.EPERM), int(syscall.ENOENT), int(syscall.EEXIST), int(syscall.EINVAL), int(syscall.ENOMEM), int(syscall.EBUSY), 4095}
var c08EventTypes = []uint16{1300, 1305, 1006, 1327, 1005, 1100, 1329, 1112, 1400, 1320, 1807, 2404, 1199, 1299}
var c08Advs = []string{"data-before-ack", "foreign-stale", "foreign-future", "foreign-random", "wrong-type-ack", "done-as-ack", "short-ack", "ends-early", "wrong-type-data", "foreign-data"}

func burstSteps(id int) []simkernel.Step {
	var out []simkernel.Step
	switch id {
	case 1:
		out = append(out, simkernel.Step{Err: syscall.EINTR})
	case 2:
		for i := 0; i < 9; i++ {
			out = append(out, simkernel.Step{Err: syscall.EINTR})
		}
	case 3:
		out = append(out, simkernel.Step{Err: syscall.EAGAIN})
	case 4:
		for i := 0; i < 9; i++ {
			if i%3 == 1 {
				out = append(out, simkernel.Step{Err: syscall.EAGAIN})
			} else {
				out = append(out, simkernel.Step{Err: syscall.EINTR})
			}
		}
	}
	return out
}

type c08Outcome struct {
	Err     error
	Status  *libaudit.AuditStatus
	Rules   [][]byte
	Count   int
	Planned struct {
		Status []byte
		Rules  [][]byte
	}
	ExpectOK      bool
	ExpectErrno   int
	Sim           *simkernel.Sim
	Follow        error
	FollowOK      bool
	Rule          []byte // argument of AddRule / DeleteRule
	NMain         int    // requests sent by the main operation
	ExpectSendErr bool
}

func statusPayload(r *mon.Rand, n int) []byte {
	b := r.Bytes(n)
	return b
}

func c08Exec(k *c08Case) *c08Outcome {
	r := mon.NewRand(int64(k.Seed), 77)
	out := &c08Outcome{}
	sim := simkernel.New(k.StartSeq)
	sim.AllowSeqZero = k.SeqZero
	sim.WrapRecvErr = k.WrapErr
	out.Sim = sim
	nr := k.NRules
	rules := make([][]byte, nr)
	for i := range rules {
		rules[i] = r.Bytes(1040 + 4*r.Intn(6))
		binary.LittleEndian.PutUint32(rules[i][0:], uint32(i+1000)) // unique id
		// a dump entry is whatever the kernel put after the header: also nothing at all, or a few bytes (the dump
		// ends with NLMSG_DONE and nothing else)
		if fr := r.Fork(uint64(31 + i)); fr.Chance(1, 6) {
			rules[i] = rules[i][:mon.Pick(fr, []int{0, 0, 4, 16, 1039})]
		}
	}
	out.Planned.Rules = rules
	out.Planned.Status = statusPayload(r, uapi.StatusSize)
	if k.StatusLen > 0 {
		out.Planned.Status = statusPayload(r, k.StatusLen)
	}
	followStatus := statusPayload(r, uapi.StatusSize)

	dgIndex := 0 // index over the datagrams of the main operation (for fault placement)
	var mainDone bool
	wrap := func(d []byte) []simkernel.Step {
		var st []simkernel.Step
		if !mainDone {
			u, b, eb := 0, 0, 0
			if dgIndex < len(k.Unsol) {
				u = k.Unsol[dgIndex]
			}
			if dgIndex < len(k.Burst) {
				b = k.Burst[dgIndex]
			}
			if dgIndex < len(k.EvBurst) {
				eb = k.EvBurst[dgIndex]
			}
			dgIndex++
			for i := 0; i < u; i++ {
				// every single receive may fail transiently up to 9 times in a row: also the one that reads an unsolicited event
				st = append(st, burstSteps(eb)...)
				// any audit record type the kernel multicasts / unicasts to the audit daemon: the old kernel-side
				// user and login records (1005, 1006) as well as the 11xx-24xx ranges
				typ := c08EventTypes[(int(k.Seed)+dgIndex*3+i)%len(c08EventTypes)]
				// the record text may be very short (0, 1, 10, 15 bytes), and the kernel's unicast records carry the
				// PAYLOAD length in nlmsg_len (not header + payload): half of the events use that convention
				text := fmt.Sprintf("audit(1.000:%d): unsolicited", i)
				v := (int(k.Seed&0xffff) + dgIndex*5 + i*7) % 10
				switch v {
				case 1, 6:
					text = ""
				case 2, 7:
					text = "x"
				case 3, 8:
					text = text[:10]
				case 4, 9:
					text = text[:15]
				}
				ev := simkernel.Event(typ, text)
				if v >= 5 {
					binary.LittleEndian.PutUint32(ev[0:], uint32(len(text)))
				}
				st = append(st, simkernel.Step{Dgram: ev})
			}
			st = append(st, burstSteps(b)...)
		}
		return append(st, simkernel.Step{Dgram: d})
	}
	reqNo := 0 // requests of the main op
	sim.OnSend = func(s *simkernel.Sim, idx int, m simkernel.SentMsg) []simkernel.Step {
		var st []simkernel.Step
		if mainDone {
			// follow-up GetStatus: always clean
			st = append(st, simkernel.Step{Dgram: simkernel.Ack(m, 0)})
			if m.Type == uapi.MsgGet {
				st = append(st, simkernel.Step{Dgram: simkernel.Dgram(uapi.MsgGet, 0, m.Seq, m.Pid, followStatus)})
			}
			return st
		}
		errno := syscall.Errno(0)
		if reqNo == k.ErrAt {
			errno = syscall.Errno(k.Errno)
		}
		first := reqNo == 0
		reqNo++
		ack := simkernel.Ack(m, errno)
		if first {
			switch k.Adv {
			case "foreign-stale":
				binary.LittleEndian.PutUint32(ack[8:], m.Seq-1-uint32(r.Intn(3)))
				if binary.LittleEndian.Uint32(ack[8:]) == 0 {
					binary.LittleEndian.PutUint32(ack[8:], m.Seq+7)
				}
			case "foreign-future":
				binary.LittleEndian.PutUint32(ack[8:], m.Seq+1)
				if m.Seq+1 == 0 {
					binary.LittleEndian.PutUint32(ack[8:], m.Seq+2)
				}
			case "foreign-random":
				v := r.Uint32()
				if v == m.Seq || v == 0 {
					v = m.Seq ^ 0x55555555
				}
				binary.LittleEndian.PutUint32(ack[8:], v)
			case "wrong-type-ack":
				binary.LittleEndian.PutUint16(ack[4:], 1305)
			case "done-as-ack":
				binary.LittleEndian.PutUint16(ack[4:], uapi.NlmsgDone)
			case "short-ack":
				ack = ack[:16+r.Intn(4)]
			}
		}
		if first && k.Adv == "data-before-ack" && (m.Type == uapi.MsgGet || m.Type == uapi.MsgListRules) {
			// the data message overtakes the acknowledgement: whatever the ACK says afterwards, a call that has
			// not seen its ACK must not report success
			if m.Type == uapi.MsgGet {
				st = append(st, wrap(simkernel.Dgram(uapi.MsgGet, 0, m.Seq, m.Pid, out.Planned.Status))...)
			} else {
				for _, rl := range rules {
					st = append(st, wrap(simkernel.Dgram(uapi.MsgListRules, uapi.NlmFMulti, m.Seq, m.Pid, rl))...)
				}
				st = append(st, wrap(simkernel.Dgram(uapi.NlmsgDone, uapi.NlmFMulti, m.Seq, m.Pid, []byte{0, 0, 0, 0}))...)
			}
			return append(st, wrap(ack)...)
		}
		st = append(st, wrap(ack)...)
		if errno != 0 {
			return st
		}
		switch m.Type {
		case uapi.MsgGet:
			if k.Adv == "ends-early" {
				break
			}
			typ := uint16(uapi.MsgGet)
			seq := m.Seq
			if k.Adv == "wrong-type-data" {
				typ = uapi.MsgSet
			}
			if k.Adv == "foreign-data" {
				seq = foreignSeq(m.Seq)
			}
			st = append(st, wrap(simkernel.Dgram(typ, 0, seq, m.Pid, out.Planned.Status))...)
		case uapi.MsgListRules:
			for i, rl := range rules {
				typ := uint16(uapi.MsgListRules)
				seq := m.Seq
				if i == len(rules)/2 && k.Adv == "wrong-type-data" {
					typ = 1305
				}
				if i == len(rules)/2 && k.Adv == "foreign-data" {
					seq = foreignSeq(m.Seq)
				}
				st = append(st, wrap(simkernel.Dgram(typ, uapi.NlmFMulti, seq, m.Pid, rl))...)
			}
			if k.Adv != "ends-early" {
				st = append(st, wrap(simkernel.Dgram(uapi.NlmsgDone, uapi.NlmFMulti, m.Seq, m.Pid, []byte{0, 0, 0, 0}))...)
			}
		}
		return st
	}
	if k.SendFail > 0 {
		sim.SendErrFn = func(nth int) error {
			if nth == k.SendFail-1 && !mainDone {
				return syscall.ENOBUFS
			}
			return nil
		}
	}
	c := &libaudit.AuditClient{Netlink: sim}
	rule := r.Bytes(1044)
	out.Rule = rule
	switch k.Op {
	case "getstatus":
		out.Status, out.Err = c.GetStatus()
	case "getrules":
		out.Rules, out.Err = c.GetRules()
	case "addrule":
		out.Err = c.AddRule(rule)
	case "deleterule":
		out.Err = c.DeleteRule(rule)
	case "deleterules":
		out.Count, out.Err = c.DeleteRules()
	case "set-pid":
		out.Err = c.SetPID(libaudit.WaitForReply)
	case "set-ratelimit":
		out.Err = c.SetRateLimit(mon.Pick(r, []uint32{r.Uint32(), 0, 1<<32 - 1, uint32(r.Intn(1000))}), libaudit.WaitForReply)
	case "set-backloglimit":
		out.Err = c.SetBacklogLimit(mon.Pick(r, []uint32{r.Uint32(), 0, 1<<32 - 1, uint32(r.Intn(10000))}), libaudit.WaitForReply)
	case "set-enabled":
		out.Err = c.SetEnabled(r.Bool(), libaudit.WaitForReply)
	case "set-immutable":
		out.Err = c.SetImmutable(libaudit.WaitForReply)
	case "set-failure":
		out.Err = c.SetFailure(mon.Pick(r, []libaudit.FailureMode{0, 1, 2, 3, 255, libaudit.FailureMode(r.Uint32())}), libaudit.WaitForReply)
	case "set-backlogwait":
		// "all status values": also the ones the kernel of the day would refuse (negative, huge); the verdict is
		// the kernel's, so the request has to be sent whatever the value
		out.Err = c.SetBacklogWaitTime(mon.Pick(r, []int32{int32(r.Intn(60000)), int32(r.Intn(60000)), -1, -int32(r.Intn(60000)) - 1, -1 << 31, 1<<31 - 1, 0}), libaudit.WaitForReply)
	}
	out.NMain = len(sim.Sent)
	mainDone = true
	// does the adversarial variant actually apply to this op?
	advApplies := k.Adv != ""
	switch k.Adv {
	case "data-before-ack":
		advApplies = k.Op == "getstatus" || k.Op == "getrules" || k.Op == "deleterules"
	case "ends-early", "wrong-type-data", "foreign-data":
		advApplies = (k.Op == "getstatus") || ((k.Op == "getrules" || k.Op == "deleterules") && (k.Adv == "ends-early" || nr > 0))
		if k.Errno != 0 && k.ErrAt == 0 {
			advApplies = false // no data follows a refused request
		}
	}
	errnoReached := k.Errno != 0 && (k.ErrAt == 0 || (k.Op == "deleterules" && k.ErrAt <= nr))
	sendFailReached := k.SendFail > 0 && (k.SendFail == 1 || (k.Op == "deleterules" && k.SendFail-1 <= nr && !(k.Errno != 0 && k.ErrAt < k.SendFail-1)))
	switch {
	case sendFailReached:
		out.ExpectSendErr = true
	case advApplies:
		// malformed / foreign stream: any error is right, success or data is wrong
	case errnoReached:
		out.ExpectErrno = k.Errno
	default:
		out.ExpectOK = true
	}
	// follow-up traffic on the same client, after whatever the main operation left unread is dropped: the
	// kernel acknowledges a setter and a GetStatus cleanly, so both must succeed whatever happened before
	// (each command stands for itself: a refused, malformed or foreign reply to an earlier request must not
	// be held against a later one)
	sim.Queue = nil
	if err := c.SetBacklogLimit(r.Uint32(), libaudit.WaitForReply); err != nil {
		out.Follow = fmt.Errorf("SetBacklogLimit: %w", err)
		return out
	}
	st, err := c.GetStatus()
	out.Follow = err
	out.FollowOK = err == nil && st != nil && statusEquals(st, followStatus)
	return out
}

// foreignSeq is a sequence number that is neither the request's nor 0 (sequence 0 marks an
// unsolicited event, which is skipped by design, not a foreign reply).
func foreignSeq(seq uint32) uint32 {
	f := seq + 3
	if f == 0 {
		f = seq + 4
	}
	return f
}

func statusEquals(s *libaudit.AuditStatus, b []byte) bool {
	le := binary.LittleEndian
	if len(b) < uapi.StatusSize {
		// fields the reply does not reach read as zero
		b = append(append([]byte(nil), b...), make([]byte, uapi.StatusSize-len(b))...)
	}
	return uint32(s.Mask) == le.Uint32(b[0:]) && s.Enabled == le.Uint32(b[4:]) && s.Failure == le.Uint32(b[8:]) && s.PID == le.Uint32(b[12:]) &&
		s.RateLimit == le.Uint32(b[16:]) && s.BacklogLimit == le.Uint32(b[20:]) && s.Lost == le.Uint32(b[24:]) && s.Backlog == le.Uint32(b[28:]) &&
		s.FeatureBitmap == le.Uint32(b[32:]) && s.BacklogWaitTime == le.Uint32(b[36:]) && s.BacklogWaitTimeActual == le.Uint32(b[40:])
}

func c08Check(c *mon.Ctx, k *c08Case) {
	var o *c08Outcome
	if p, st := mon.Try(func() { o = c08Exec(k) }); p != nil {
		c.Violation("panic", fmt.Sprintf("panic %v in op %s\n%s", p, k.Op, st), k)
		return
	}
	desc := fmt.Sprintf("op=%s rules=%d errno=%d@%d adv=%q unsolicited=%v bursts=%v bursts_before_events=%v start_seq=%d send_fails_at=%d", k.Op, k.NRules, k.Errno, k.ErrAt, k.Adv, k.Unsol, k.Burst, k.EvBurst, k.StartSeq, k.SendFail) + fmt.Sprintf(" receive_errors_wrapped=%d", k.WrapErr)
	// the request(s) the operation put on the wire
	if k.Adv == "" && o.NMain > 0 {
		wantType := map[string]uint16{"getstatus": uapi.MsgGet, "getrules": uapi.MsgListRules, "deleterules": uapi.MsgListRules, "addrule": uapi.MsgAddRule, "deleterule": uapi.MsgDelRule}[k.Op]
		if strings.HasPrefix(k.Op, "set-") {
			wantType = uapi.MsgSet
		}
		m := o.Sim.Sent[0]
		if m.Type != wantType || m.Flags&(uapi.NlmFRequest|uapi.NlmFAck) != uapi.NlmFRequest|uapi.NlmFAck {
			c.Violation("wrong-request:"+k.Op, fmt.Sprintf("the operation sent a request of type %d flags %#x, want type %d with NLM_F_REQUEST|NLM_F_ACK\n  %s", m.Type, m.Flags, wantType, desc), k)
			return
		}
		if (k.Op == "addrule" || k.Op == "deleterule") && !bytes.Equal(m.Data, o.Rule) {
			c.Violation("wrong-request:"+k.Op, "the request does not carry the caller's rule bytes\n  "+desc, k)
			return
		}
		c.Add("request_shapes_checked", 1)
	}
	switch {
	case o.ExpectSendErr:
		c.Add("cases_send_refused", 1)
		if o.Err == nil {
			c.Violation("send-error-swallowed:"+k.Op, fmt.Sprintf("the transport refused to send request %d of the operation (ENOBUFS), the kernel never acknowledged it, but the call returned nil\n  %s", k.SendFail-1, desc), k)
			return
		}
		if o.Status != nil || len(o.Rules) > 0 {
			c.Violation("data-with-error:"+k.Op, "data returned together with a send error\n  "+desc, k)
		}
	case o.ExpectOK:
		c.Add("cases_expect_success", 1)
		if o.Err != nil {
			c.Violation("spurious-error:"+k.Op, fmt.Sprintf("the kernel acknowledged the request with errno 0 and sent well-formed data, but the call returned %q\n  %s", o.Err, desc), k)
			return
		}
		switch k.Op {
		case "getstatus":
			if o.Status == nil || !statusEquals(o.Status, o.Planned.Status) {
				c.Violation("wrong-data:getstatus", fmt.Sprintf("GetStatus returned %+v, the kernel sent %x\n  %s", o.Status, o.Planned.Status, desc), k)
			}
		case "getrules":
			if len(o.Rules) != len(o.Planned.Rules) {
				c.Violation("wrong-data:getrules", fmt.Sprintf("GetRules returned %d rules, the kernel sent %d\n  %s", len(o.Rules), len(o.Planned.Rules), desc), k)
				return
			}
			for i := range o.Rules {
				if !bytes.Equal(o.Rules[i], o.Planned.Rules[i]) {
					c.Violation("wrong-data:getrules", fmt.Sprintf("rule %d returned by GetRules differs from what the kernel sent (after later traffic reused the receive buffer)\n  %s", i, desc), k)
					return
				}
			}
		case "deleterules":
			if o.Count != len(o.Planned.Rules) {
				c.Violation("wrong-data:deleterules", fmt.Sprintf("DeleteRules returned %d, the kernel listed %d rules\n  %s", o.Count, len(o.Planned.Rules), desc), k)
				return
			}
			// every listed rule must have been sent back in a DEL_RULE request, in order
			var dels [][]byte
			for _, m := range o.Sim.Sent {
				if m.Type == uapi.MsgDelRule {
					dels = append(dels, m.Data)
				}
			}
			if len(dels) != len(o.Planned.Rules) {
				c.Violation("wrong-requests:deleterules", fmt.Sprintf("%d DEL_RULE requests for %d listed rules\n  %s", len(dels), len(o.Planned.Rules), desc), k)
				return
			}
			for i := range dels {
				if !bytes.Equal(dels[i], o.Planned.Rules[i]) {
					c.Violation("wrong-requests:deleterules", fmt.Sprintf("DEL_RULE request %d does not carry listed rule %d\n  %s", i, i, desc), k)
					return
				}
			}
		}
	case o.ExpectErrno != 0:
		c.Add("cases_expect_errno", 1)
		if o.Err == nil {
			c.Violation("error-swallowed:"+k.Op, fmt.Sprintf("the kernel refused the request with errno %d (%s) but the call returned nil\n  %s", o.ExpectErrno, syscall.Errno(o.ExpectErrno), desc), k)
			return
		}
		if !errors.Is(o.Err, syscall.Errno(o.ExpectErrno)) {
			if k.Op == "addrule" && o.ExpectErrno == int(syscall.EEXIST) && strings.Contains(o.Err.Error(), "rule exists") {
				break // documented text for EEXIST
			}
			c.Violation("errno-not-identified:"+k.Op, fmt.Sprintf("the kernel refused the request with errno %d (%s); the returned error %q does not identify it (errors.Is)\n  %s", o.ExpectErrno, syscall.Errno(o.ExpectErrno), o.Err, desc), k)
			return
		}
		if o.Status != nil || len(o.Rules) > 0 {
			c.Violation("data-with-error:"+k.Op, "data returned together with a kernel error\n  "+desc, k)
		}
	default:
		c.Add("cases_adversarial", 1)
		if o.Err == nil {
			c.Violation("adversarial-accepted:"+k.Adv+":"+k.Op, fmt.Sprintf("a malformed / foreign reply stream was accepted as success\n  %s", desc), k)
			return
		}
		if o.Status != nil || len(o.Rules) > 0 {
			c.Violation("adversarial-data:"+k.Adv+":"+k.Op, "data returned from a malformed / foreign reply stream\n  "+desc, k)
		}
	}
	if !o.FollowOK {
		c.Violation("out-of-sync:"+k.Op, fmt.Sprintf("after the operation the client is out of step with the kernel: a following SetBacklogLimit + GetStatus, both acknowledged cleanly, returned %v / wrong data\n  %s", o.Follow, desc), k)
	}
}

func c08Datagrams(op string, nr int) int {
	switch op {
	case "getstatus":
		return 2
	case "getrules":
		return nr + 2
	case "deleterules":
		return 2*nr + 2
	}
	return 1
}

func c08Cases(c *mon.Ctx) []*c08Case {
	var cases []*c08Case
	seqs := []uint32{1, 0xFFFFFFFE, 0x7FFFFFFF, 12345}
	id := uint64(0)
	add := func(k c08Case) {
		id++
		k.Seed = id
		if k.StartSeq == 0 && !k.SeqZero {
			k.StartSeq = seqs[int(id)%len(seqs)]
		}
		kk := k
		cases = append(cases, &kk)
	}
	for _, op := range c08Ops {
		nrs := []int{0}
		if op == "getrules" || op == "deleterules" {
			nrs = []int{0, 1, 3}
		}
		for _, nr := range nrs {
			nd := c08Datagrams(op, nr)
			for _, errno := range c08Errnos {
				errAts := []int{0}
				if op == "deleterules" && errno != 0 {
					errAts = nil
					for i := 0; i <= nr; i++ {
						errAts = append(errAts, i)
					}
				}
				for _, ea := range errAts {
					// one fault position at a time: every (unsolicited, burst) combination at every datagram
					for pos := 0; pos < nd && pos < 5; pos++ {
						for u := 0; u <= 2; u++ {
							for b := 0; b <= 4; b++ {
								if pos > 0 && u == 0 && b == 0 {
									continue
								}
								if !c.Thorough && (b == 2 || b == 4) && (int(id)%3 != 0) {
									id++
									continue // quick: a third of the long bursts
								}
								un, bu := make([]int, nd), make([]int, nd)
								un[pos], bu[pos] = u, b
								add(c08Case{Op: op, NRules: nr, Errno: errno, ErrAt: ea, Unsol: un, Burst: bu})
								if u > 0 && (errno == 0 || errno == int(syscall.EPERM)) {
									// transient failures on BOTH sides of the unsolicited events (each run <= 9, together more than 10)
									for _, eb := range []int{2, 4} {
										ebs := make([]int, nd)
										ebs[pos] = eb
										add(c08Case{Op: op, NRules: nr, Errno: errno, ErrAt: ea, Unsol: un, Burst: bu, EvBurst: ebs})
									}
								}
							}
						}
					}
				}
			}
			for _, adv := range c08Advs {
				for _, errno := range []int{0, int(syscall.EPERM)} {
					add(c08Case{Op: op, NRules: nr, Errno: errno, Adv: adv, Unsol: []int{1}, Burst: []int{1}})
					add(c08Case{Op: op, NRules: nr, Errno: errno, Adv: adv})
				}
			}
		}
	}
	// request sequence number 0 (the counter wrapped around): without unsolicited events the sequence-0
	// datagrams are the replies and must be taken as such
	for _, op := range c08Ops {
		nrs := []int{0}
		if op == "getrules" || op == "deleterules" {
			nrs = []int{0, 2}
		}
		for _, nr := range nrs {
			for _, errno := range []int{0, int(syscall.EPERM), int(syscall.ENOENT)} {
				for _, start := range []uint32{0, 0xFFFFFFFF, 0xFFFFFFFE} {
					for _, b := range []int{0, 1, 3} {
						bu := make([]int, c08Datagrams(op, nr))
						if len(bu) > 0 {
							bu[len(bu)/2] = b
						}
						add(c08Case{Op: op, NRules: nr, Errno: errno, StartSeq: start, SeqZero: true, Burst: bu})
					}
				}
			}
		}
	}
	// AUDIT_GET replies of every historical size (and longer ones), with and without faults around them
	for _, n := range []int{32, 36, 40, 44, 48, 64} {
		for _, u := range []int{0, 2} {
			for _, b := range []int{0, 2} {
				add(c08Case{Op: "getstatus", StatusLen: n, Unsol: []int{u, u}, Burst: []int{b, b}})
			}
		}
	}
	// many unsolicited records between a request and its reply (an audit daemon starting up on a busy
	// machine): skipping them must not use up anything
	for _, op := range c08Ops {
		nr := 0
		if op == "getrules" || op == "deleterules" {
			nr = 2
		}
		nd := c08Datagrams(op, nr)
		for _, u := range []int{9, 10, 11, 25, 60, 64, 65, 66, 300} {
			for _, pos := range []int{0, nd - 1} {
				for _, b := range []int{0, 2} {
					un, bu := make([]int, nd), make([]int, nd)
					un[pos], bu[pos] = u, b
					add(c08Case{Op: op, NRules: nr, Unsol: un, Burst: bu})
					add(c08Case{Op: op, NRules: nr, Errno: int(syscall.EPERM), Unsol: un, Burst: bu})
				}
			}
		}
	}
	// transports that wrap the transient receive errors
	for _, op := range c08Ops {
		nr := 0
		if op == "getrules" || op == "deleterules" {
			nr = 2
		}
		nd := c08Datagrams(op, nr)
		for _, w := range []int{1, 2} {
			for pos := 0; pos < nd && pos < 4; pos++ {
				for _, b := range []int{1, 2, 3, 4} {
					bu := make([]int, nd)
					bu[pos] = b
					add(c08Case{Op: op, NRules: nr, Burst: bu, WrapErr: w, Unsol: make([]int, nd)})
					add(c08Case{Op: op, NRules: nr, Errno: int(syscall.ENOENT), Burst: bu, WrapErr: w, Unsol: make([]int, nd)})
				}
			}
		}
	}
	// every errno the kernel can put in an ACK (1..133 and the largest value MAX_ERRNO), for every operation
	for _, op := range c08Ops {
		nr := 0
		if op == "getrules" || op == "deleterules" {
			nr = 2
		}
		for errno := 1; errno <= 134; errno++ {
			e := errno
			if e == 134 {
				e = 4095
			}
			eas := []int{0}
			if op == "deleterules" {
				eas = []int{0, 1, 2}
			}
			for _, ea := range eas {
				add(c08Case{Op: op, NRules: nr, Errno: e, ErrAt: ea})
			}
		}
	}
	// the transport refuses to send a request: the kernel never acknowledged it, so the call must fail
	for _, op := range c08Ops {
		nr := 0
		if op == "getrules" || op == "deleterules" {
			nr = 3
		}
		last := 1
		if op == "deleterules" {
			last = nr + 1
		}
		for sf := 1; sf <= last; sf++ {
			for _, errno := range []int{0, int(syscall.EPERM)} {
				for ea := 0; ea < last; ea++ {
					if errno == 0 && ea > 0 {
						continue
					}
					for _, u := range []int{0, 1} {
						add(c08Case{Op: op, NRules: nr, Errno: errno, ErrAt: ea, SendFail: sf, Unsol: []int{u}})
					}
				}
			}
		}
	}
	// random: faults at every datagram
	n := c.Pick(6000, 500000)
	for i := 0; i < n; i++ {
		r := c.Rand(5, uint64(i))
		op := mon.Pick(r, c08Ops)
		nr := 0
		if op == "getrules" || op == "deleterules" {
			nr = r.Intn(4)
		}
		nd := c08Datagrams(op, nr)
		k := c08Case{Op: op, NRules: nr, Errno: mon.Pick(r, c08Errnos), StartSeq: mon.Pick(r, []uint32{1, 2, 0xFFFFFFF0 + uint32(r.Intn(15)), r.Uint32() | 1})}
		if op == "deleterules" {
			k.ErrAt = r.Intn(nr + 1)
		}
		for d := 0; d < nd; d++ {
			k.Unsol = append(k.Unsol, r.Intn(3))
			b := r.Intn(5)
			if (b == 2 || b == 4) && !r.Chance(1, 4) {
				b = 1
			}
			k.Burst = append(k.Burst, b)
			eb := 0
			if r.Chance(1, 3) {
				eb = mon.Pick(r, []int{1, 2, 3, 4})
			}
			k.EvBurst = append(k.EvBurst, eb)
		}
		if r.Chance(1, 6) {
			k.Adv = mon.Pick(r, c08Advs)
		}
		add(k)
	}
	return cases
}

func init() {
	register(&mon.CheckSpec{
		ID: "C08", Level: "fault_enumeration",
		Rule: "cases = fault plans against a simulated kernel behind AuditClient.Netlink: op in {GetStatus, GetRules(0/1/3 rules), AddRule, DeleteRule, DeleteRules(0/1/3), the seven Set* in WaitForReply mode} x errno on the ACK in {0, EPERM, ENOENT, EEXIST, EINVAL, ENOMEM, EBUSY, 4095} (for DeleteRules: on the list request or on the i-th delete) x, at each datagram position in turn, every combination of 0-2 unsolicited sequence-0 events and a transient receive-failure burst in {none, 1xEINTR, 9xEINTR, 1xEAGAIN, 9 mixed} before the datagram, and additionally a 9-failure burst before EACH unsolicited event (failures on both sides of an event, each run <= 9); adversarial reply streams (ACK with a stale / future / random foreign sequence, ACK of a non-ERROR type, NLMSG_DONE as ACK, short ACK payload, stream ending early, data reply of the wrong type or with a foreign sequence); plus seeded random plans with faults at every datagram and request sequences near 1 and near 2^32. After each operation a further GetStatus overwrites the one reused receive buffer and must itself succeed with its own data. Finally, over a REAL NETLINK_USERSOCK socket (unicast and group 1): ten commands x 3 whose only answer is a well-formed ACK (errno 0, right sequence number) sent by another user-space socket - none may return nil. And ten commands repeated identically on one client (first acknowledged with 0, then refused with EPERM / EEXIST / ENOENT / EINVAL): every call reaches the kernel and reports its own verdict. distinct_nontrivial = distinct plans with at least one fault (errno, unsolicited event, transient failure or adversarial stream).",
		Assumptions: []string{
			"the simulated kernel follows the real kernel's script: ACK (NLMSG_ERROR with errno and echoed header) first, then the AUDIT_GET reply or LIST_RULES x n + NLMSG_DONE, nothing after a refused request",
			"request sequence number 0 (wrap-around) is generated only in plans without unsolicited events; combined with unsolicited events a reply and an event are indistinguishable by sequence, so that combination is not asserted",
			"permanent receive errors and more than 9 transient failures in a row are outside the statement's fault model",
		},
		Phases: func(tier string) []mon.PhaseSpec {
			return []mon.PhaseSpec{{Name: "faults", Flavour: "plain"}, {Name: "faults-race", Flavour: "race", SecondPass: true}}
		},
		Run: func(c *mon.Ctx) {
			cases := c08Cases(c)
			if c.Phase == "faults-race" {
				// second pass under the race detector / checkptr: every 4th plan
				var sub []*c08Case
				for i, k := range cases {
					if i%4 == 0 {
						sub = append(sub, k)
					}
				}
				cases = sub
			}
			ev := c.Counter("evaluations")
			var next int
			var mu sync.Mutex
			c.ParallelN(64, func(w int) {
				for {
					mu.Lock()
					i := next
					next++
					mu.Unlock()
					if i >= len(cases) {
						return
					}
					k := cases[i]
					c08Check(c, k)
					ev.Add(1)
					fault := k.Errno != 0 || k.Adv != ""
					for _, v := range append(append(append([]int{}, k.Unsol...), k.Burst...), k.EvBurst...) {
						fault = fault || v != 0
					}
					if fault {
						b, _ := json.Marshal(k)
						c.DistinctSet("nontrivial").AddBytes(b)
					}
					if c.WantSample() {
						c.Sample(k)
					}
				}
			})
			c08ForgedAcks(c)
			c08RepeatedCommands(c)
			c.Require("cases_expect_success", 50)
			c.Require("cases_expect_errno", 50)
			c.Require("cases_adversarial", 25)
		},
		Replay: func(c *mon.Ctx, kase json.RawMessage) {
			var k c08Case
			if json.Unmarshal(kase, &k) != nil {
				return
			}
			fmt.Printf("replay: %+v\n", k)
			c08Check(c, &k)
		},
	})
}
