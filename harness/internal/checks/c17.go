package checks

import (
	"bytes"
	"encoding/binary"
	"encoding/json"
	"errors"
	"fmt"
	"strings"
	"sync"
	"syscall"

	libaudit "github.com/elastic/go-libaudit/v2"

	"verifharness/internal/mon"
	"verifharness/internal/simkernel"
	"verifharness/internal/uapi"
)

// C17: ACK bookkeeping, Close once, returned data stable.

type c17Op struct {
	Kind  string `json:"k"` // nowait | wait | waitacks | getrules | getstatus | close | setpid-nowait | setpid-wait
	Errno int    `json:"errno,omitempty"`
	N     int    `json:"n,omitempty"` // getrules: number of rules
	// SendFail: the transport refuses to send this request (ENOBUFS): nothing reaches the kernel, so no
	// ACK will ever come for it and nothing may be left waiting for one
	SendFail bool `json:"send_fails,omitempty"`
	// Events: unsolicited audit records (sequence 0) queued ahead of this request's ACK
	Events int `json:"unsolicited_records_before_ack,omitempty"`
	// RecvFault (waitacks; value 1 also on a WaitForReply setter = its ACK is lost): 1 = the first receive of the call fails hard (ENOBUFS); 2 = the ACKs are late:
	// every receive of the call says EAGAIN. The call reports an error and forgets nothing: a later call finds
	// every ACK still owed to it
	RecvFault int `json:"receive_fault,omitempty"`
}

type c17Case struct {
	Ops        []c17Op `json:"ops"`
	Closers    int     `json:"concurrent_closers"` // goroutines calling Close at once at the end
	ExtraClose int     `json:"extra_sequential_closes"`
	StartSeq   uint32  `json:"start_seq"`
	Seed       uint64  `json:"seed"`
	// CloseSendFail: the transport refuses every send made by Close (the PID clear): the socket must
	// still be closed exactly once
	CloseSendFail bool `json:"transport_refuses_sends_during_close,omitempty"`
	// CloseErrno: the socket's own Close fails with this errno (EINTR, EIO, EBADF, ...): closed is closed, the
	// descriptor is gone after the first attempt whatever it returned - still exactly one Close of the socket
	CloseErrno int `json:"socket_close_errno,omitempty"`
}

func (k *c17Case) String() string {
	var sb strings.Builder
	for _, o := range k.Ops {
		fmt.Fprintf(&sb, "%s", o.Kind)
		if o.Errno != 0 {
			fmt.Fprintf(&sb, "(errno %d)", o.Errno)
		}
		if o.SendFail {
			sb.WriteString("(send fails)")
		}
		if o.Events > 0 {
			fmt.Fprintf(&sb, "(%d events first)", o.Events)
		}
		if o.RecvFault > 0 {
			fmt.Fprintf(&sb, "(receive fault %d)", o.RecvFault)
		}
		if o.Kind == "getrules" {
			fmt.Fprintf(&sb, "(%d)", o.N)
		}
		sb.WriteString(" ")
	}
	fmt.Fprintf(&sb, "| close x%d concurrently + %d more", k.Closers, k.ExtraClose)
	if k.CloseSendFail {
		sb.WriteString(" (sends refused during Close)")
	}
	return sb.String()
}

type pend struct{ errno, events int }

func c17Check(c *mon.Ctx, k *c17Case) {
	r := mon.NewRand(int64(k.Seed), 5)
	sim := simkernel.New(k.StartSeq)
	hasEvents := false
	for _, o := range k.Ops {
		hasEvents = hasEvents || o.Events > 0
	}
	sim.AllowSeqZero = !hasEvents // without unsolicited records a request may be numbered 0 (counter wrap)
	reqEvents := 0
	errnoFor := map[int]int{} // request index -> errno
	rulesFor := map[int][][]byte{}
	reqErr := 0
	reqRules := 0
	reqLoseAck := false
	sim.OnSend = func(s *simkernel.Sim, idx int, m simkernel.SentMsg) []simkernel.Step {
		errnoFor[idx] = reqErr
		var st []simkernel.Step
		for i := 0; i < reqEvents; i++ {
			st = append(st, simkernel.Step{Dgram: simkernel.Event(uint16(1300+i%30), fmt.Sprintf("audit(1.000:%d): queued ahead of the ACK", i))})
		}
		if reqLoseAck {
			// the acknowledgement is lost: the receive fails hard (socket buffer overrun)
			return append(st, simkernel.Step{Err: syscall.ENOBUFS})
		}
		st = append(st, simkernel.Step{Dgram: simkernel.Ack(m, syscall.Errno(reqErr))})
		if reqErr != 0 {
			return st
		}
		switch m.Type {
		case uapi.MsgGet:
			st = append(st, simkernel.Step{Dgram: simkernel.Dgram(uapi.MsgGet, 0, m.Seq, 0, r.Bytes(uapi.StatusSize))})
		case uapi.MsgListRules:
			var rs [][]byte
			for i := 0; i < reqRules; i++ {
				b := r.Bytes(1040 + 4*r.Intn(5))
				rs = append(rs, b)
				st = append(st, simkernel.Step{Dgram: simkernel.Dgram(uapi.MsgListRules, uapi.NlmFMulti, m.Seq, 0, b)})
			}
			rulesFor[idx] = rs
			st = append(st, simkernel.Step{Dgram: simkernel.Dgram(uapi.NlmsgDone, uapi.NlmFMulti, m.Seq, 0, make([]byte, 4))})
		}
		return st
	}
	cl := &libaudit.AuditClient{Netlink: sim}
	var outstanding []pend
	usedSetPID := false
	type held struct {
		got  [][]byte
		want [][]byte
		op   int
	}
	var heldRules []held
	hist := k.String()
	fail := func(sig, f string, a ...any) {
		c.Violation(sig, fmt.Sprintf(f, a...)+"\n  history: "+hist, k)
	}
	setter := func(wm libaudit.WaitMode, pid bool) error {
		if pid {
			return cl.SetPID(wm)
		}
		switch r.Intn(6) {
		case 4:
			return cl.SetImmutable(wm)
		case 5:
			return cl.SetFailure(libaudit.FailureMode(r.Intn(3)), wm)
		case 0:
			return cl.SetRateLimit(r.Uint32(), wm)
		case 1:
			return cl.SetBacklogLimit(r.Uint32(), wm)
		case 2:
			return cl.SetEnabled(r.Bool(), wm)
		default:
			return cl.SetBacklogWaitTime(int32(r.Intn(1000)), wm)
		}
	}
	for i, op := range k.Ops {
		reqErr, reqRules, reqEvents = op.Errno, op.N, op.Events
		recv0, deliv0, empty0, sent0 := sim.NRecv, sim.NDeliver, sim.NEmpty, len(sim.Sent)
		if op.SendFail {
			wm := libaudit.NoWait
			if op.Kind == "wait" {
				wm = libaudit.WaitForReply
			}
			sim.SendErr = syscall.ENOBUFS
			err := setter(wm, false)
			sim.SendErr = nil
			if err == nil {
				fail("send-error-swallowed", "op %d (%s): the transport refused to send the request (ENOBUFS) but the setter returned nil", i, op.Kind)
				return
			}
			if sim.NRecv != recv0 {
				fail("receives-after-failed-send", "op %d (%s): the request was never sent, yet the call performed %d receives", i, op.Kind, sim.NRecv-recv0)
				return
			}
			c.Add("requests_whose_send_failed", 1)
			continue // not outstanding: no ACK will come
		}
		switch op.Kind {
		case "nowait", "setpid-nowait":
			err := setter(libaudit.NoWait, op.Kind == "setpid-nowait")
			if op.Kind == "setpid-nowait" {
				usedSetPID = true
			}
			if err != nil {
				fail("nowait-error", "op %d (%s): NoWait setter returned %v", i, op.Kind, err)
				return
			}
			if sim.NRecv != recv0 {
				fail("nowait-receives", "op %d: NoWait setter performed %d receives", i, sim.NRecv-recv0)
				return
			}
			if len(sim.Sent) != sent0+1 {
				fail("nowait-send-count", "op %d: NoWait setter sent %d requests", i, len(sim.Sent)-sent0)
				return
			}
			outstanding = append(outstanding, pend{op.Errno, op.Events})
			c.Add("nowait_requests", 1)
		case "waitacks":
			if op.RecvFault > 0 && len(outstanding) > 0 {
				saved := sim.Queue
				if op.RecvFault == 1 {
					sim.Queue = append([]simkernel.Step{{Err: syscall.ENOBUFS}}, saved...)
				} else {
					sim.Queue = nil
				}
				err := cl.WaitForPendingACKs()
				delivered := sim.NDeliver - deliv0
				if op.RecvFault == 2 {
					sim.Queue = saved
				}
				if err == nil {
					fail("waitacks-fault-swallowed", "op %d: the receive failed (fault %d) while %d ACKs were outstanding, yet WaitForPendingACKs returned nil", i, op.RecvFault, len(outstanding))
					return
				}
				if delivered != 0 {
					fail("waitacks-fault-consumed", "op %d: %d datagrams were consumed by a WaitForPendingACKs whose first receive failed", i, delivered)
					return
				}
				c.Add("waitacks_calls_with_receive_fault", 1)
				continue // nothing consumed, nothing forgotten: the next call owes the same ACKs
			}
			err := cl.WaitForPendingACKs()
			// reference: consume from the front up to and including the first failing ACK
			want, wantErrno, wantDgrams := 0, 0, 0
			for want < len(outstanding) {
				e := outstanding[want].errno
				wantDgrams += outstanding[want].events + 1 // the records queued ahead of the ACK are read (and skipped) too
				want++
				if e != 0 {
					wantErrno = e
					break
				}
			}
			if len(outstanding) == 0 {
				c.Add("waitacks_with_nothing_outstanding", 1)
			}
			if len(outstanding) > 0 && want < len(outstanding) {
				c.Add("waitacks_stopped_at_error", 1)
			}
			consumed := sim.NDeliver - deliv0
			if sim.NEmpty != empty0 {
				fail("re-waits-consumed-acks", "op %d: WaitForPendingACKs waited %d times on an empty socket (%d ACKs were outstanding; ACKs consumed by earlier calls must not be waited for again); returned %v", i, sim.NEmpty-empty0, len(outstanding), err)
				return
			}
			if consumed != wantDgrams {
				fail("ack-consumption", "op %d: WaitForPendingACKs consumed %d datagrams, want %d (%d ACKs and the unsolicited records queued ahead of them; outstanding before the call: %d, first error at position %d)", i, consumed, wantDgrams, want, len(outstanding), want)
				return
			}
			if wantErrno == 0 && err != nil {
				fail("waitacks-spurious-error", "op %d: every outstanding ACK carried errno 0 but WaitForPendingACKs returned %v", i, err)
				return
			}
			if wantErrno != 0 && !errors.Is(err, syscall.Errno(wantErrno)) {
				fail("waitacks-wrong-error", "op %d: the first failing ACK carried errno %d but WaitForPendingACKs returned %v", i, wantErrno, err)
				return
			}
			outstanding = outstanding[want:]
			c.Add("waitacks_calls", 1)
		case "wait", "setpid-wait", "getrules", "getstatus":
			if len(outstanding) > 0 {
				// a WaitForReply command while NoWait ACKs are outstanding (K4)
				var err error
				switch op.Kind {
				case "getrules":
					_, err = cl.GetRules()
				case "getstatus":
					_, err = cl.GetStatus()
				default:
					err = setter(libaudit.WaitForReply, op.Kind == "setpid-wait")
				}
				if len(sim.Sent) != sent0+1 {
					fail("waitreply-send-count", "op %d (%s): a WaitForReply command must put exactly one request on the wire whatever is still outstanding; it sent %d (returned %v)", i, op.Kind, len(sim.Sent)-sent0, err)
					return
				}
				if hd := outstanding[0]; hd.errno != 0 && hd.errno != op.Errno && errors.Is(err, syscall.Errno(hd.errno)) {
					fail("waitreply-steals-pending-verdict", "op %d (%s): the call returned %v, which is the kernel's verdict (errno %d) on the OLDEST OUTSTANDING NoWait request, not on this request (errno %d): that verdict belongs to WaitForPendingACKs", i, op.Kind, err, hd.errno, op.Errno)
					return
				}
				if op.Errno == 0 && err != nil {
					fail("waitreply-with-pending-nowait", "op %d (%s): the kernel acknowledged this request with errno 0, but with %d NoWait ACKs still outstanding the call consumed the wrong ACK and returned %v", i, op.Kind, len(outstanding), err)
				}
				return // the reply stream is no longer in a defined state
			}
			switch op.Kind {
			case "getrules":
				rs, err := cl.GetRules()
				idx := len(sim.Sent) - 1
				if (err == nil) != (op.Errno == 0) {
					fail("verdict", "op %d: GetRules returned %v, planned errno %d", i, err, op.Errno)
					return
				}
				if err == nil {
					want := rulesFor[idx]
					snap := make([][]byte, len(want))
					for j := range want {
						snap[j] = append([]byte(nil), want[j]...)
					}
					heldRules = append(heldRules, held{got: rs, want: snap, op: i})
					c.Add("rule_slices_held", int64(len(rs)))
				}
			case "getstatus":
				_, err := cl.GetStatus()
				if (err == nil) != (op.Errno == 0) {
					fail("verdict", "op %d: GetStatus returned %v, planned errno %d", i, err, op.Errno)
					return
				}
			default:
				if op.RecvFault == 1 {
					// the ACK of a WaitForReply setter is lost (the receive fails): the call fails, and the request
					// does not become a pending NoWait request (the waitacks op that follows finds nothing to wait for)
					reqLoseAck = true
					err := setter(libaudit.WaitForReply, false)
					reqLoseAck = false
					if err == nil {
						fail("waitreply-fault-swallowed", "op %d: the receive of the ACK failed (ENOBUFS) yet the WaitForReply setter returned nil", i)
						return
					}
					c.Add("waitreply_setters_with_lost_ack", 1)
					continue
				}
				err := setter(libaudit.WaitForReply, op.Kind == "setpid-wait")
				if op.Kind == "setpid-wait" {
					usedSetPID = true
				}
				if (err == nil) != (op.Errno == 0) {
					fail("verdict", "op %d: WaitForReply setter returned %v, planned errno %d", i, err, op.Errno)
					return
				}
			}
		}
		// rule data returned earlier stays unchanged by later receives
		for _, h := range heldRules {
			if len(h.got) != len(h.want) {
				fail("rules-count", "GetRules (op %d) returned %d rules, kernel sent %d", h.op, len(h.got), len(h.want))
				return
			}
			for j := range h.got {
				if !bytes.Equal(h.got[j], h.want[j]) {
					fail("rule-data-changed", "rule %d returned by GetRules in op %d changed after later receives (it aliases the receive buffer)", j, h.op)
					return
				}
			}
		}
	}
	// ---- Close ----
	sent0, recv0 := len(sim.Sent), sim.NRecv
	closers := k.Closers
	if closers < 1 {
		closers = 1
	}
	if k.CloseSendFail {
		sim.SendErr = syscall.ENOBUFS
	}
	if k.CloseErrno != 0 {
		sim.CloseErr = syscall.Errno(k.CloseErrno)
		c.Add("closes_whose_socket_close_fails", 1)
	}
	errs := make([]error, closers)
	var wg sync.WaitGroup
	start := make(chan struct{})
	for g := 0; g < closers; g++ {
		wg.Add(1)
		go func(g int) {
			defer wg.Done()
			<-start
			errs[g] = cl.Close()
		}(g)
	}
	close(start)
	wg.Wait()
	for j := 0; j < k.ExtraClose; j++ {
		if err := cl.Close(); err != nil {
			fail("later-close-error", "a later Close returned %v (must be a no-op)", err)
			return
		}
	}
	c.Add("close_calls", int64(closers+k.ExtraClose))
	if sim.NClose != 1 {
		fail("socket-close-count", "the socket was closed %d times by %d concurrent + %d later Close calls (exactly once)", sim.NClose, closers, k.ExtraClose)
		return
	}
	if k.CloseSendFail {
		// the PID clear could not be sent (Close may report that); nothing reached the kernel
		c.Add("closes_with_refused_sends", 1)
		if len(sim.Sent) != sent0 {
			fail("sent-although-refused", "the transport refused every send during Close, yet %d requests were recorded", len(sim.Sent)-sent0)
		}
		return
	}
	nerr := 0
	for _, e := range errs {
		if e == nil {
			continue
		}
		nerr++
		// when the socket's own Close fails, the ONE call that closed it may report exactly that error
		if k.CloseErrno == 0 || !errors.Is(e, syscall.Errno(k.CloseErrno)) || nerr > 1 {
			fail("close-error", "Close returned %v (socket close errno planned: %d; %d Close calls reported an error)", e, k.CloseErrno, nerr)
			return
		}
	}
	newSent := sim.Sent[sent0:]
	if usedSetPID {
		c.Add("closes_after_setpid", 1)
		if len(newSent) != 1 {
			fail("pid-clear-count", "SetPID was used: Close must send exactly one request clearing the audit PID, it sent %d", len(newSent))
			return
		}
		m := newSent[0]
		le := binary.LittleEndian
		if m.Type != uapi.MsgSet || len(m.Data) != uapi.StatusSize || le.Uint32(m.Data[uapi.StatusOffMask:]) != uapi.StatusPID || le.Uint32(m.Data[uapi.StatusOffPID:]) != 0 {
			fail("pid-clear-content", "Close's request is not AUDIT_SET{mask=PID, pid=0}: type=%d data=%x", m.Type, m.Data)
			return
		}
		if sim.NRecv != recv0 {
			fail("pid-clear-waits", "Close performed %d receives (the PID clear must not wait)", sim.NRecv-recv0)
		}
	} else {
		c.Add("closes_without_setpid", 1)
		if len(newSent) != 0 {
			fail("close-sends-without-setpid", "SetPID was never used but Close sent %d requests (type %d)", len(newSent), newSent[0].Type)
		}
	}
	// NoWait requests whose ACKs were never collected are still owed after Close: a WaitForPendingACKs made now
	// either reads (the simulated socket still answers) or reports an error - it does not say "all acknowledged"
	// without having looked
	if len(outstanding) > 0 {
		recvB := sim.NRecv
		err := cl.WaitForPendingACKs()
		c.Add("waitacks_after_close_with_acks_outstanding", 1)
		if err == nil && sim.NRecv == recvB {
			fail("close-forgets-pending-acks", "%d NoWait requests were still unacknowledged at Close; WaitForPendingACKs after Close returned nil without a single receive (their verdicts are lost)", len(outstanding))
		}
	}
}

func c17Gen(r *mon.Rand, withK4 bool) *c17Case {
	k := &c17Case{StartSeq: mon.Pick(r, []uint32{1, 100, 0xFFFFFFF0, 0x7FFFFFFE, 0xFFFFFFFE, 0xFFFFFFFF, 0}), Seed: r.Uint64(), Closers: mon.Pick(r, []int{1, 1, 2, 4, 8}), ExtraClose: r.Intn(5), CloseSendFail: r.Chance(1, 8)}
	if fr := r.Fork(61); fr.Chance(1, 5) {
		k.CloseErrno = mon.Pick(fr, []int{int(syscall.EINTR), int(syscall.EINTR), int(syscall.EIO), int(syscall.EBADF), int(syscall.EAGAIN), int(syscall.ENOSPC)})
	}
	n := r.Range(1, 14)
	burst := r.Chance(1, 12) // a long run of NoWait requests (dozens of outstanding ACKs) before waiting
	if burst {
		n = r.Range(20, 70)
	}
	outstanding := 0
	withEvents := r.Chance(1, 5) // a fifth of the histories have unsolicited records queued ahead of ACKs
	errnos := []int{0, 0, 0, 0, int(syscall.EPERM), int(syscall.EINVAL), int(syscall.EBUSY)}
	for len(k.Ops) < n {
		var op c17Op
		x := r.Intn(100)
		if burst && len(k.Ops) < n-3 {
			x = r.Intn(30) // mostly NoWait requests, errors rare
		}
		switch {
		case x < 35:
			op = c17Op{Kind: "nowait", Errno: mon.Pick(r, errnos)}
			if burst && !r.Chance(1, 15) {
				op.Errno = 0
			}
			if r.Chance(1, 8) {
				op.Kind = "setpid-nowait"
			} else if r.Chance(1, 8) {
				op.SendFail, op.Errno = true, 0
				outstanding--
			}
			if withEvents && !op.SendFail && r.Chance(1, 3) {
				op.Events = mon.Pick(r, []int{1, 2, 5, 9, 10, 11, 30})
			}
			outstanding++
		case x < 60:
			op = c17Op{Kind: "waitacks"}
			if !withK4 && r.Chance(1, 12) {
				op.RecvFault = 1
				if r.Chance(1, 6) {
					op.RecvFault = 2 // costs the library's own 10 x 50 ms of polling
				}
				k.Ops = append(k.Ops, op)
				op = c17Op{Kind: "waitacks"} // and the call that finds everything still there
			}
			outstanding = 0 // approximately; errors leave some, the oracle tracks it exactly
		case x < 75:
			op = c17Op{Kind: "wait", Errno: mon.Pick(r, errnos)}
			if r.Chance(1, 6) {
				op.Kind = "setpid-wait"
			} else if r.Chance(1, 10) {
				op.SendFail, op.Errno = true, 0
			} else if !withK4 && r.Chance(1, 8) {
				op.RecvFault, op.Errno = 1, 0 // the ACK is lost; a waitacks op follows (below)
			}
		case x < 88:
			op = c17Op{Kind: "getrules", N: r.Intn(4), Errno: mon.Pick(r, []int{0, 0, 0, int(syscall.EPERM)})}
		default:
			op = c17Op{Kind: "getstatus", Errno: mon.Pick(r, []int{0, 0, int(syscall.EPERM)})}
		}
		if !withK4 && outstanding > 0 && (op.Kind == "wait" || op.Kind == "setpid-wait" || op.Kind == "getrules" || op.Kind == "getstatus") {
			// drain first (twice: an error among the ACKs stops the first call)
			k.Ops = append(k.Ops, c17Op{Kind: "waitacks"}, c17Op{Kind: "waitacks"}, c17Op{Kind: "waitacks"}, c17Op{Kind: "waitacks"})
			outstanding = 0
		}
		k.Ops = append(k.Ops, op)
		if op.Kind == "wait" && op.RecvFault == 1 {
			k.Ops = append(k.Ops, c17Op{Kind: "waitacks"})
		}
	}
	return k
}

func init() {
	register(&mon.CheckSpec{
		ID: "C17", Level: "exploration",
		Rule: "cases = seeded histories (1-14 ops; one in twelve has 20-70 ops with dozens of NoWait requests outstanding at once) over a simulated kernel that reuses one receive buffer and may refuse any request: NoWait setters (all seven, incl. SetPID, SetImmutable and SetFailure), WaitForPendingACKs (repeated, with nothing outstanding, after an error among the ACKs), WaitForReply setters (some lose their ACK to a receive error: nothing may stay pending), GetRules / GetStatus followed by more traffic, then Close from 1-8 goroutines at once followed by 0-4 further Close calls; a reference list of outstanding NoWait requests decides how many ACK datagrams each WaitForPendingACKs call must consume, what it returns and that it never waits on an empty socket; every rule slice returned by GetRules is compared with its snapshot after every later operation; Close is checked through the simulated socket's close counter and the requests it sends; with ACKs still outstanding at Close, a WaitForPendingACKs made afterwards must read or fail, not report success unseen. A tenth of the histories issue a WaitForReply command while NoWait ACKs are outstanding (known finding K4). Runs under the race detector (concurrent Close). In a fifth of the histories the socket's own Close fails (EINTR, EIO, EBADF, EAGAIN, ENOSPC): still exactly one Close of the socket, and only the call that closed it may report that error. distinct_nontrivial = distinct histories containing a repeated WaitForPendingACKs, an error among pending ACKs, held rule data or concurrent Close.",
		Assumptions: []string{
			"the simulated kernel acknowledges requests in the order they were sent, as the real kernel does",
			"waiting on an empty socket is observed as a Receive that finds nothing queued (the library would sleep 10 x 50 ms there)",
		},
		Phases: func(tier string) []mon.PhaseSpec {
			return []mon.PhaseSpec{{Name: "histories", Flavour: "race"}}
		},
		Run: func(c *mon.Ctx) {
			n := c.Pick(30000, 4000000)
			ev := c.Counter("evaluations")
			nt := c.DistinctSet("nontrivial")
			c.ForEach(n, func(w, i int) {
				r := c.Rand(1, uint64(i))
				k := c17Gen(r, i%10 == 0)
				c17Check(c, k)
				ev.Add(1)
				wa, held := 0, false
				for _, o := range k.Ops {
					if o.Kind == "waitacks" {
						wa++
					}
					if o.Kind == "getrules" && o.N > 0 {
						held = true
					}
				}
				if wa > 1 || held || k.Closers > 1 {
					nt.AddString(k.String())
				}
				if c.WantSample() {
					c.Sample(map[string]any{"history": k.String()})
				}
			})
			c.Require("waitacks_calls", 100)
			c.Require("waitacks_with_nothing_outstanding", 10)
			c.Require("waitacks_stopped_at_error", 10)
			c.Require("closes_after_setpid", 10)
			c.Require("closes_without_setpid", 10)
			c.Require("rule_slices_held", 10)
		},
		Replay: func(c *mon.Ctx, kase json.RawMessage) {
			var k c17Case
			if json.Unmarshal(kase, &k) != nil {
				return
			}
			fmt.Println("replay: history:", k.String())
			c17Check(c, &k)
		},
	})
}
