package checks

import (
	"encoding/json"
	"fmt"
	"os"
	"os/user"
	"reflect"
	"sort"
	"strconv"
	"strings"
	"sync"
	"time"

	"github.com/elastic/go-libaudit/v2/aucoalesce"
	"github.com/elastic/go-libaudit/v2/auparse"

	"verifharness/internal/logenc"
	"verifharness/internal/mon"
)

// C15: coalescing is repeatable, leaves its inputs intact and isolates events.

type msgSnap struct {
	Data   map[string]string
	Tags   []string
	MapStr map[string]interface{}
	Err    string
}

func snapMsg(m *auparse.AuditMessage) msgSnap {
	d, err := m.Data()
	s := msgSnap{Data: copyMap(d)}
	if err != nil {
		s.Err = err.Error()
	}
	t, _ := m.Tags()
	s.Tags = append([]string(nil), t...)
	ms := m.ToMapStr()
	s.MapStr = map[string]interface{}{}
	for k, v := range ms {
		if ts, ok := v.([]string); ok {
			v = append([]string(nil), ts...)
		}
		s.MapStr[k] = v
	}
	return s
}

func (a msgSnap) diff(b msgSnap) string {
	if a.Err != b.Err {
		return fmt.Sprintf("Data() error %q -> %q", a.Err, b.Err)
	}
	if !reflect.DeepEqual(a.Data, b.Data) {
		var lost []string
		for k, v := range a.Data {
			if w, ok := b.Data[k]; !ok {
				lost = append(lost, k+" (removed)")
			} else if w != v {
				lost = append(lost, k+" (changed)")
			}
		}
		for k := range b.Data {
			if _, ok := a.Data[k]; !ok {
				lost = append(lost, k+" (added)")
			}
		}
		sort.Strings(lost)
		return "Data() differs: " + strings.Join(lost, ", ")
	}
	if !equalStrings(a.Tags, b.Tags) {
		return fmt.Sprintf("Tags() %v -> %v", a.Tags, b.Tags)
	}
	if !reflect.DeepEqual(a.MapStr, b.MapStr) {
		return "ToMapStr() differs"
	}
	return ""
}

// eventSig is the comparable form of an event: its JSON plus the sorted multiset of warning texts.
func eventSig(e *aucoalesce.Event, err error) string {
	if e == nil {
		return fmt.Sprintf("nil|%v", err)
	}
	b, _ := json.Marshal(e)
	var w []string
	for _, x := range e.Warnings {
		w = append(w, x.Error())
	}
	sort.Strings(w)
	return string(b) + "|" + strings.Join(w, ";") + fmt.Sprintf("|%v", err)
}

func diffSig(a, b string) string {
	n := len(a)
	if len(b) < n {
		n = len(b)
	}
	i := 0
	for i < n && a[i] == b[i] {
		i++
	}
	lo := i - 60
	if lo < 0 {
		lo = 0
	}
	return fmt.Sprintf("first difference at byte %d: ...%s  vs  ...%s", i, clipStr(a[lo:], 160), clipStr(b[lo:], 160))
}

type c15Case struct {
	Groups []logenc.Group `json:"groups"`
	Ops    []string       `json:"ops"` // "coalesce i", "resolve j", "recheck"
}

var c15Types = logenc.NamedTypes(func(t uint16) string { return auparse.AuditMessageType(t).String() })

func c15Pool(r *mon.Rand, corpus []logenc.Group, hostile []string, n int) []logenc.Group {
	var pool []logenc.Group
	if r.Chance(1, 2) {
		// several events of ONE first record type with different syscalls: they share that type's normalisation entry
		typ := mon.Pick(r, c15Types)
		for i, m := 0, r.Range(2, 4); i < m; i++ {
			pool = append(pool, logenc.GenTypedCompound(r, typ))
		}
	}
	for len(pool) < n {
		switch r.Intn(10) {
		case 0, 1:
			pool = append(pool, mon.Pick(r, corpus))
		case 2:
			pool = append(pool, logenc.GenSingleRecord(r))
		case 3:
			// hostile text: mutated records glued into a group
			var g logenc.Group
			for i, m := 0, r.Range(1, 4); i < m; i++ {
				g.Lines = append(g.Lines, logenc.Mutate(r, mon.Pick(r, hostile), c15Saddrs))
			}
			pool = append(pool, g)
		default:
			pool = append(pool, logenc.GenSyscallGroup(r, logenc.EventOpts{Mode: -1, BadModes: true, DualSockaddr: true}))
		}
	}
	return pool
}

func parseLoose(g *logenc.Group) []*auparse.AuditMessage {
	var msgs []*auparse.AuditMessage
	for _, l := range g.Lines {
		if m, err := auparse.ParseLogLine(l); err == nil {
			msgs = append(msgs, m)
		}
	}
	return msgs
}

// c15ResolveStability: coalesce + ResolveIDs of events whose ids have names that never expire (root and the names
// injected with HardcodeUsers/Groups) must give the same result however many OTHER ids were resolved in between
// (thousands of distinct unknown uids/gids, as a host with many containers produces).
func c15ResolveStability(c *mon.Ctx) {
	line := func(seq int, ids [9]string) string {
		return fmt.Sprintf("type=SYSCALL msg=audit(1500000000.200:%d): arch=c000003e syscall=2 success=yes exit=3 a0=0 a1=0 a2=0 a3=0 items=0 ppid=1 pid=2 auid=%s uid=%s gid=%s euid=%s suid=%s fsuid=%s egid=%s sgid=%s fsgid=%s tty=pts0 ses=1 comm=\"cat\" exe=\"/bin/cat\" key=(null)", seq, ids[0], ids[1], ids[2], ids[3], ids[4], ids[5], ids[6], ids[7], ids[8])
	}
	anchors := []string{
		line(1, [9]string{"1000", "1000", "1000", "38", "100014", "0", "38", "100021", "0"}),
		line(2, [9]string{"100014", "0", "0", "1000", "38", "100014", "1000", "1000", "100021"}),
	}
	resolve := func(l string) string {
		m, err := auparse.ParseLogLine(l)
		if err != nil {
			return "parse:" + err.Error()
		}
		e, err := aucoalesce.CoalesceMessages([]*auparse.AuditMessage{m})
		if e != nil {
			aucoalesce.ResolveIDs(e)
		}
		return eventSig(e, err)
	}
	first := make([]string, len(anchors))
	for i, a := range anchors {
		first[i] = resolve(a)
		if !strings.Contains(first[i], "alice") || !strings.Contains(first[i], "verif-u") || !strings.Contains(first[i], "verif-g") || !strings.Contains(first[i], "root") {
			c.Note("resolve-stability: the injected names do not show in the resolved anchor event; phase skipped")
			return
		}
	}
	next := 3000000
	for round := 0; round < c.Pick(3, 12); round++ {
		for j := 0; j < c.Pick(1500, 6000); j++ {
			var ids [9]string
			for k := range ids {
				ids[k] = strconv.Itoa(next)
				next++
			}
			resolve(line(100+j, ids))
			c.Add("unrelated_ids_resolved", 9)
			if j%50 == 0 {
				// events that carry NAMES (resolved to ids the other way round): the canonical name of an injected
				// account, root, an unknown name and - last, so that nothing resolved after it covers its traces - the alias
				for _, acct := range []string{"verif-u", "root", "alice", "nosuchaccount", "verif-alias"} {
					for _, typ := range []string{"USER_LOGIN", "USER_START", "USER_AUTH", "USER_ACCT", "CRED_ACQ", "USER_END", "ADD_USER", "DEL_USER", "USER_CHAUTHTOK"} {
						resolve(fmt.Sprintf("type=%s msg=audit(1500000000.300:%d): pid=1 uid=0 auid=1001 ses=11 msg='op=PAM:session_open acct=\"%s\" exe=\"/usr/sbin/sshd\" hostname=h addr=192.0.2.7 terminal=ssh res=success'", typ, 7000+j, acct))
						c.Add("events_with_account_names_resolved", 1)
					}
					resolve(fmt.Sprintf("type=ADD_GROUP msg=audit(1500000000.300:%d): pid=1 uid=0 auid=0 ses=1 msg='op=add-group acct=\"%s\" grp=\"verif-galias\" exe=\"/usr/sbin/groupadd\" hostname=h addr=? terminal=pts/0 res=success'", 8000+j, acct))
					c.Add("events_with_account_names_resolved", 2)
				}
			}
		}
		for i, a := range anchors {
			c.Add("anchor_events_re_resolved", 1)
			if got := resolve(a); got != first[i] {
				c.Violation("resolve-depends-on-history", fmt.Sprintf("coalescing and resolving the same record gives a different event after %d unrelated ids went through the caches: %s", next-3000000, diffSig(first[i], got)), &c15Case{Groups: []logenc.Group{{Lines: []string{a}}}, Ops: []string{"coalesce 0", "resolve 0", fmt.Sprintf("(%d unrelated ids resolved)", next-3000000), "coalesce 0", "resolve 0"}})
				return
			}
		}
	}
}

// c15OrderIndependence runs first, on the cold process: for file-related syscalls, an event A with four PATH
// records is coalesced, then an event B of the same syscall with a single PATH record (fewer than some
// normalisations' path index), then A again: A must come out as the first time. (The normalisation entries are
// shared by all events of a syscall: an event must not leave anything behind in them.)
func c15OrderIndependence(c *mon.Ctx) {
	mk := func(sc, npaths, seq int) []*auparse.AuditMessage {
		hdr := fmt.Sprintf("audit(1500000000.400:%d):", seq)
		lines := []string{fmt.Sprintf("type=SYSCALL msg=%s arch=c000003e syscall=%d success=yes exit=0 a0=1 a1=2 a2=3 a3=4 items=%d ppid=1 pid=2 auid=1000 uid=0 gid=0 euid=0 suid=0 fsuid=0 egid=0 sgid=0 fsgid=0 tty=pts0 ses=1 comm=\"mv\" exe=\"/bin/mv\" key=(null)", hdr, sc, npaths)}
		for i := 0; i < npaths; i++ {
			lines = append(lines, fmt.Sprintf("type=PATH msg=%s item=%d name=\"/srv/p%d_%d\" inode=%d dev=08:01 mode=0100644 ouid=0 ogid=0 rdev=00:00 nametype=%s", hdr, i, seq, i, 1000*seq+i, []string{"NORMAL", "CREATE", "DELETE", "NORMAL"}[i%4]))
		}
		var ms []*auparse.AuditMessage
		for _, l := range lines {
			if m, err := auparse.ParseLogLine(l); err == nil {
				ms = append(ms, m)
			}
		}
		return ms
	}
	coalesce := func(ms []*auparse.AuditMessage) string {
		e, err := aucoalesce.CoalesceMessages(ms)
		return eventSig(e, err)
	}
	// rename, mkdir, mount, mkdirat, renameat, renameat2, link, symlink, unlink, open, openat, chmod, chown, rmdir,
	// creat, truncate, mknod, linkat, symlinkat, unlinkat, umount2
	for i, sc := range []int{82, 83, 165, 258, 264, 316, 86, 88, 87, 2, 257, 90, 92, 84, 85, 76, 133, 265, 266, 263, 166} {
		for _, small := range []int{1, 2} {
			a1 := coalesce(mk(sc, 4, 100+10*i+small))
			coalesce(mk(sc, small, 500+10*i+small))
			a2 := coalesce(mk(sc, 4, 100+10*i+small))
			c.Add("order_independence_triples", 1)
			if a1 != a2 {
				c.Violation("coalesce-depends-on-history", fmt.Sprintf("an event of syscall %d with 4 PATH records coalesces differently after an event of the same syscall with %d PATH record(s) was coalesced: %s", sc, small, diffSig(a1, a2)), &c15Case{Ops: []string{fmt.Sprintf("syscall %d: coalesce A(4 paths), coalesce B(%d paths), coalesce A", sc, small)}})
				return
			}
		}
	}
}

var hardcodeOnce sync.Once

func hardcode() {
	hardcodeOnce.Do(func() {
		// deterministic names: ids handed out by the generators resolve the same way on every machine
		// two names may share an id (alias accounts): the alias is injected first, the canonical name last, so the
		// id resolves to the canonical name and both names resolve to the id
		aucoalesce.HardcodeUsers(user.User{Uid: "100014", Username: "verif-alias"}, user.User{Uid: "1000", Username: "alice"}, user.User{Uid: "38", Username: "ntp"}, user.User{Uid: "100014", Username: "verif-u"})
		aucoalesce.HardcodeGroups(user.Group{Gid: "100021", Name: "verif-galias"}, user.Group{Gid: "1000", Name: "alice"}, user.Group{Gid: "38", Name: "ntp"}, user.Group{Gid: "100021", Name: "verif-g"})
	})
}

// c15History runs one sequential history over a pool and returns the final event signatures per group.
func c15History(c *mon.Ctx, r *mon.Rand, pool []logenc.Group, nops int) (key string, nontrivial bool) {
	var kaseOps []string
	defer func() {
		var sb strings.Builder
		for _, g := range pool {
			sb.WriteString(strings.Join(g.Lines, "\n"))
			sb.WriteString("\n--\n")
		}
		key = sb.String() + strings.Join(kaseOps, ";")
	}()
	kase := &c15Case{Groups: pool}
	msgs := make([][]*auparse.AuditMessage, len(pool))
	snaps := make([][]msgSnap, len(pool))
	firstSig := make([]string, len(pool))
	done := make([]bool, len(pool))
	type heldEv struct {
		e        *aucoalesce.Event
		err      error
		sig      string
		group    int
		resolved bool
	}
	var held []*heldEv
	fail := func(sig, f string, a ...any) {
		c.Violation(sig, fmt.Sprintf(f, a...)+fmt.Sprintf("\n  ops so far: %v", kase.Ops), kase)
	}
	for i := range pool {
		msgs[i] = parseLoose(&pool[i])
	}
	recheck := func() bool {
		for _, h := range held {
			if now := eventSig(h.e, h.err); now != h.sig {
				fail("earlier-event-changed", "an event returned earlier (group %d, resolved=%v) changed after later operations: %s", h.group, h.resolved, diffSig(h.sig, now))
				return false
			}
		}
		return true
	}
	for op := 0; op < nops; op++ {
		switch x := r.Intn(10); {
		case x < 6:
			i := r.Intn(len(pool))
			kase.Ops = append(kase.Ops, fmt.Sprintf("coalesce %d", i))
			kaseOps = kase.Ops
			if done[i] {
				nontrivial = true
			}
			if !done[i] {
				for _, m := range msgs[i] {
					snaps[i] = append(snaps[i], snapMsg(m))
				}
			}
			var e *aucoalesce.Event
			var err error
			if p, st := mon.Try(func() { e, err = aucoalesce.CoalesceMessages(msgs[i]) }); p != nil {
				fail("panic:"+mon.PanicSite(st), "CoalesceMessages panicked on group %d: %v\n%s", i, p, st)
				return
			}
			c.Add("coalesce_calls", 1)
			sig := eventSig(e, err)
			if done[i] {
				c.Add("repeated_coalesce_calls", 1)
				if sig != firstSig[i] {
					fail("second-coalesce-differs", "coalescing the same messages (group %d) again gives a different event: %s", i, diffSig(firstSig[i], sig))
					return
				}
			} else {
				firstSig[i], done[i] = sig, true
			}
			// inputs intact
			for j, m := range msgs[i] {
				if d := snaps[i][j].diff(snapMsg(m)); d != "" {
					fail("input-message-changed", "after coalescing, record %d (%s) of group %d reports something else than before: %s", j, m.RecordType, i, d)
					return
				}
			}
			if e != nil {
				held = append(held, &heldEv{e: e, err: err, sig: sig, group: i})
			}
		case x < 9:
			if len(held) == 0 {
				continue
			}
			j := r.Intn(len(held))
			kase.Ops = append(kase.Ops, fmt.Sprintf("resolve %d", j))
			kaseOps = kase.Ops
			if len(held) > 1 {
				nontrivial = true
			}
			if p, st := mon.Try(func() { aucoalesce.ResolveIDs(held[j].e) }); p != nil {
				fail("panic:"+mon.PanicSite(st), "ResolveIDs panicked: %v\n%s", p, st)
				return
			}
			c.Add("resolve_calls", 1)
			held[j].sig = eventSig(held[j].e, held[j].err) // this event may change; all others must not
			held[j].resolved = true
			// the messages of that group must still report the same
			i := held[j].group
			for k, m := range msgs[i] {
				if d := snaps[i][k].diff(snapMsg(m)); d != "" {
					fail("input-message-changed", "after ResolveIDs, record %d of group %d reports something else than before: %s", k, i, d)
					return
				}
			}
		default:
			kase.Ops = append(kase.Ops, "recheck")
		}
		if !recheck() {
			return
		}
		c.Add("rechecks", int64(len(held)))
	}
	// at the end every group that was coalesced is coalesced four more times: a result that depends on chance
	// (map iteration order) differs sooner or later
	for i := range pool {
		if !done[i] {
			continue
		}
		for k := 0; k < 4; k++ {
			var e *aucoalesce.Event
			var err error
			if p, st := mon.Try(func() { e, err = aucoalesce.CoalesceMessages(msgs[i]) }); p != nil {
				fail("panic:"+mon.PanicSite(st), "CoalesceMessages panicked on group %d: %v\n%s", i, p, st)
				return
			}
			c.Add("coalesce_calls", 1)
			c.Add("repeated_coalesce_calls", 1)
			if sig := eventSig(e, err); sig != firstSig[i] {
				fail("second-coalesce-differs", "coalescing the same messages (group %d) again gives a different event: %s", i, diffSig(firstSig[i], sig))
				return
			}
		}
	}
	return
}

// c15PrivateCaches: ResolveIDsFromCaches with caches of the caller's own resolves through THOSE caches only. The
// process-wide default caches know accounts nobody else knows (injected with HardcodeUsers / HardcodeGroups:
// 100014 = verif-u / verif-alias, 100021 = verif-g / verif-galias); fresh private caches do not. An event that
// carries only the ids must come out without those names, one that carries only the names without those ids, for
// every record type whose normalisation fills the user / group entities - and the default caches must serve the
// next ResolveIDs as before.
func c15PrivateCaches(c *mon.Ctx) {
	types := []string{"USER_AUTH", "USER_ACCT", "USER_LOGIN", "USER_START", "USER_END", "CRED_ACQ", "CRED_DISP", "ADD_USER", "DEL_USER", "ADD_GROUP", "DEL_GROUP", "USER_CHAUTHTOK", "USER_MGMT", "GRP_MGMT", "USER_ROLE_CHANGE", "USER_CMD", "LOGIN"}
	seq := 20000
	for _, t := range types {
		for variant := 0; variant < 4; variant++ {
			seq++
			var line string
			var forbidden []string
			switch variant {
			case 0: // ids only, in the record's own fields
				line = fmt.Sprintf("type=%s msg=audit(1500000000.700:%d): pid=1 uid=100014 auid=100014 ses=5 msg='op=x id=100014 exe=\"/usr/sbin/x\" hostname=h addr=192.0.2.9 terminal=ssh res=success'", t, seq)
				forbidden = []string{"verif-u", "verif-alias", "verif-g", "verif-galias"}
			case 1: // ids only, group flavoured
				line = fmt.Sprintf("type=%s msg=audit(1500000000.700:%d): pid=1 uid=0 gid=100021 auid=0 ses=5 msg='op=x id=100021 gid=100021 exe=\"/usr/sbin/x\" hostname=h addr=? terminal=pts/0 res=success'", t, seq)
				forbidden = []string{"verif-u", "verif-alias", "verif-g", "verif-galias"}
			case 2: // names only
				line = fmt.Sprintf("type=%s msg=audit(1500000000.700:%d): pid=1 uid=0 auid=0 ses=5 msg='op=x acct=\"verif-u\" grp=\"verif-g\" exe=\"/usr/sbin/x\" hostname=h addr=? terminal=pts/0 res=success'", t, seq)
				forbidden = []string{"100014", "100021"}
			default:
				line = fmt.Sprintf("type=%s msg=audit(1500000000.700:%d): pid=1 uid=0 auid=0 ses=5 msg='op=x acct=\"verif-alias\" grp=\"verif-galias\" exe=\"/usr/sbin/x\" hostname=h addr=? terminal=pts/0 res=success'", t, seq)
				forbidden = []string{"100014", "100021"}
			}
			m, err := auparse.ParseLogLine(line)
			if err != nil {
				continue
			}
			e, err := aucoalesce.CoalesceMessages([]*auparse.AuditMessage{m})
			if err != nil || e == nil {
				continue
			}
			uc, gc := aucoalesce.NewUserCache(time.Hour), aucoalesce.NewGroupCache(time.Hour)
			if p, st := mon.Try(func() { aucoalesce.ResolveIDsFromCaches(e, uc, gc) }); p != nil {
				c.Violation("panic", fmt.Sprintf("ResolveIDsFromCaches panicked: %v\n%s", p, st), &c15Case{Ops: []string{"private caches", line}})
				return
			}
			c.Add("evaluations", 1)
			c.Add("events_resolved_through_private_caches", 1)
			b, _ := json.Marshal(e)
			for _, f := range forbidden {
				if strings.Contains(string(b), f) {
					c.Violation("resolved-through-foreign-cache", fmt.Sprintf("an event resolved with ResolveIDsFromCaches through fresh caches of the caller's own contains %q, which only the process-wide default caches know: %s", f, clipStr(string(b), 700)), &c15Case{Ops: []string{"private caches", line}})
					return
				}
			}
		}
	}
}

// c15IdleExpiry (thorough tier, or VERIF_C15_IDLE=1): names injected into the process-wide caches have no expiry. An
// event with an injected id is resolved, the process then leaves the caches alone for longer than their one-minute
// expiration, and an equal event is resolved again: same names. (Runs last in its phase: any other look-up of the
// same id during the pause would refresh an entry that a faulty cache had made mortal.)
func c15IdleExpiry(c *mon.Ctx) {
	if c.Tier != "thorough" && os.Getenv("VERIF_C15_IDLE") == "" {
		return
	}
	resolve := func(seq int) string {
		m, err := auparse.ParseLogLine(fmt.Sprintf("type=USER_LOGIN msg=audit(1500000000.800:%d): pid=1 uid=100014 auid=100014 ses=5 msg='op=login id=100014 exe=\"/usr/sbin/sshd\" hostname=h addr=192.0.2.9 terminal=ssh res=success'", seq))
		if err != nil {
			return "parse error"
		}
		e, err := aucoalesce.CoalesceMessages([]*auparse.AuditMessage{m})
		if err != nil {
			return "coalesce error"
		}
		aucoalesce.ResolveIDs(e)
		b, _ := json.Marshal(map[string]any{"actor": e.Summary.Actor, "names": e.User.Names})
		return string(b)
	}
	first := resolve(30001)
	second := resolve(30002) // a hit
	time.Sleep(63 * time.Second)
	third := resolve(30003)
	c.Add("evaluations", 1)
	c.Add("idle_expiry_rounds", 1)
	if !strings.Contains(first, "verif-u") {
		c.Note("idle expiry: the injected account does not resolve at all: %s", first)
		return
	}
	if second != first || third != first {
		c.Violation("resolve-depends-on-history", fmt.Sprintf("an event with an id injected by HardcodeUsers resolves differently after the caches were left alone for 63 s (their expiration is one minute; injected names have none): first %s, again at once %s, after the pause %s", first, second, third), &c15Case{Ops: []string{"idle expiry"}})
	}
}

// c15SameIDStorm: several goroutines resolve THE SAME id, not yet cached, at the same moment (fresh caches per
// round, real accounts of this machine read from /etc/passwd and /etc/group, so that the look-up behind the cache
// really runs): every one of them must get what a single look-up on a fresh cache gives.
func c15SameIDStorm(c *mon.Ctx) {
	type acct struct{ id, name string }
	read := func(path string) []acct {
		var out []acct
		b, _ := os.ReadFile(path)
		for _, l := range strings.Split(string(b), "\n") {
			f := strings.Split(l, ":")
			if len(f) >= 3 && f[0] != "" && len(out) < 12 {
				out = append(out, acct{f[2], f[0]})
			}
		}
		return out
	}
	users, groups := read("/etc/passwd"), read("/etc/group")
	if len(users) == 0 || len(groups) == 0 {
		c.Note("same-id storm: no accounts readable")
		return
	}
	rounds := c.Pick(150, 6000)
	const G = 8
	for rd := 0; rd < rounds && c.Violations() == 0; rd++ {
		u, g := users[rd%len(users)], groups[rd%len(groups)]
		refU, refG := aucoalesce.NewUserCache(time.Hour).LookupID(u.id), aucoalesce.NewGroupCache(time.Hour).LookupID(g.id)
		uc, gc := aucoalesce.NewUserCache(time.Hour), aucoalesce.NewGroupCache(time.Hour)
		line := fmt.Sprintf("type=SYSCALL msg=audit(1500000000.600:%d): arch=c000003e syscall=2 success=yes exit=0 a0=1 a1=2 a2=3 a3=4 items=0 ppid=1 pid=2 auid=%s uid=%s gid=%s euid=%s suid=%s fsuid=%s egid=%s sgid=%s fsgid=%s tty=pts0 ses=1 comm=\"x\" exe=\"/bin/x\" key=(null)", 100+rd, u.id, u.id, g.id, u.id, u.id, u.id, g.id, g.id, g.id)
		sigs := make([]string, G)
		direct := make([]string, G)
		var wg sync.WaitGroup
		start := make(chan struct{})
		for i := 0; i < G; i++ {
			wg.Add(1)
			go func(i int) {
				defer wg.Done()
				m, err := auparse.ParseLogLine(line)
				if err != nil {
					return
				}
				e, err := aucoalesce.CoalesceMessages([]*auparse.AuditMessage{m})
				<-start
				if i%2 == 0 {
					direct[i] = uc.LookupID(u.id) + "/" + gc.LookupID(g.id)
				}
				if err == nil {
					aucoalesce.ResolveIDsFromCaches(e, uc, gc)
				}
				sigs[i] = eventSig(e, err)
			}(i)
		}
		close(start)
		wg.Wait()
		c.Add("evaluations", 1)
		c.Add("same_id_storm_rounds", 1)
		for i := 0; i < G; i++ {
			if i%2 == 0 && direct[i] != refU+"/"+refG {
				c.Violation("concurrent-resolve-differs", fmt.Sprintf("goroutine %d of %d resolving uid %s / gid %s at the same moment on fresh caches got %q, a single look-up gives %q", i, G, u.id, g.id, direct[i], refU+"/"+refG), &c15Case{Ops: []string{"same-id storm", line}})
				return
			}
			if sigs[i] != sigs[0] {
				c.Violation("concurrent-resolve-differs", fmt.Sprintf("%d goroutines resolved equal events (uid %s = %q, gid %s = %q) at the same moment on fresh caches and got different events: %s", G, u.id, refU, g.id, refG, diffSig(sigs[0], sigs[i])), &c15Case{Ops: []string{"same-id storm", line}})
				return
			}
		}
		// and the common outcome is the sequential one
		if m, err := auparse.ParseLogLine(line); err == nil {
			e, err := aucoalesce.CoalesceMessages([]*auparse.AuditMessage{m})
			if err == nil {
				aucoalesce.ResolveIDsFromCaches(e, aucoalesce.NewUserCache(time.Hour), aucoalesce.NewGroupCache(time.Hour))
			}
			if ref := eventSig(e, err); ref != sigs[0] {
				c.Violation("concurrent-resolve-differs", fmt.Sprintf("events resolved by %d goroutines at the same moment differ from the same event resolved alone: %s", G, diffSig(ref, sigs[0])), &c15Case{Ops: []string{"same-id storm", line}})
				return
			}
		}
	}
}

func c15Concurrent(c *mon.Ctx) {
	c15SameIDStorm(c)
	corpus := logenc.CorpusGroups()
	r := c.Rand(50)
	var pool []logenc.Group
	pool = append(pool, corpus...)
	for len(pool) < c.Pick(400, 4000) {
		pool = append(pool, logenc.GenSyscallGroup(r, logenc.EventOpts{Mode: -1, BadModes: true, DualSockaddr: true}))
	}
	// every named record type as the first record of compound events with three different syscalls
	for _, typ := range c15Types {
		for i := 0; i < 3; i++ {
			pool = append(pool, logenc.GenTypedCompound(r, typ))
		}
	}
	// EXECVE records with 1..N arguments, interleaved over the goroutines in ascending order: state that the
	// library grows lazily with the largest input seen so far is grown concurrently
	for n := 1; n <= c.Pick(400, 1500); n += 1 + n/40 {
		hdr := fmt.Sprintf("msg=audit(1500000000.%03d:%d):", n%1000, 700000+n)
		l := fmt.Sprintf("type=EXECVE %s argc=%d", hdr, n)
		for i := 0; i < n; i++ {
			l += fmt.Sprintf(" a%d=\"v%d_%d\"", i, n, i)
		}
		pool = append(pool, logenc.Group{Name: fmt.Sprintf("execve-%d", n), Lines: []string{
			fmt.Sprintf("type=SYSCALL %s arch=c000003e syscall=59 success=yes exit=0 a0=1 a1=2 a2=3 a3=4 items=0 ppid=1 pid=%d auid=0 uid=0 gid=0 euid=0 suid=0 fsuid=0 egid=0 sgid=0 fsgid=0 tty=pts0 ses=1 comm=\"c%d\" exe=\"/bin/c%d\" key=(null)", hdr, 1000+n, n, n), l}})
	}
	one := func(i int) string {
		e, err := aucoalesce.CoalesceMessages(parseLoose(&pool[i]))
		if e != nil {
			aucoalesce.ResolveIDs(e)
		}
		return eventSig(e, err)
	}
	G := 16
	// COLD concurrent round first: nothing has been coalesced in this process yet, so lazily built global
	// state (caches, tables) is built by the racing goroutines themselves; the sequential reference comes after
	cold := make([]string, len(pool))
	{
		var wg sync.WaitGroup
		for g := 0; g < G; g++ {
			wg.Add(1)
			go func(g int) {
				defer wg.Done()
				for i := g; i < len(pool); i += G {
					cold[i] = one(i)
					c.Add("cold_concurrent_coalesce_calls", 1)
				}
			}(g)
		}
		wg.Wait()
	}
	ref := make([]string, len(pool))
	for i := range pool {
		ref[i] = one(i)
	}
	// the reference itself must be stable (a second sequential pass), otherwise the process state is damaged
	for i := range pool {
		if sig := one(i); sig != ref[i] {
			c.Violation("sequential-result-unstable", fmt.Sprintf("group %d coalesced twice sequentially after the concurrent round gives different events: %s", i, diffSig(ref[i], sig)), &c15Case{Groups: []logenc.Group{pool[i]}})
			break
		}
	}
	for i := range pool {
		if cold[i] != ref[i] {
			c.Violation("concurrent-result-differs", fmt.Sprintf("group %d coalesced+resolved in the cold concurrent round differs from the sequential result: %s", i, diffSig(ref[i], cold[i])), &c15Case{Groups: []logenc.Group{pool[i]}})
			break
		}
	}
	rounds := c.Pick(6, 60)
	for round := 0; round < rounds; round++ {
		var wg sync.WaitGroup
		for g := 0; g < G; g++ {
			wg.Add(1)
			go func(g int) {
				defer wg.Done()
				for i := g; i < len(pool); i += G {
					if sig := one(i); sig != ref[i] {
						c.Violation("concurrent-result-differs", fmt.Sprintf("group %d coalesced+resolved concurrently differs from the sequential reference: %s", i, diffSig(ref[i], sig)), &c15Case{Groups: []logenc.Group{pool[i]}})
					}
					c.Add("concurrent_coalesce_calls", 1)
					c.Add("evaluations", 1)
				}
			}(g)
		}
		wg.Wait()
	}
	c.Nontrivial("concurrent")
	c.Require("concurrent_coalesce_calls", 1000)
}

func init() {
	register(&mon.CheckSpec{
		ID: "C15", Level: "exploration",
		Rule: "cases = (first, on the cold process) for 21 file-related syscalls an event with four PATH records coalesced before and after an event of the same syscall with one or two PATH records: equal results; then a cross-process order probe: a fixed list of 39 events (one per candidate of every record type with several conditional normalisations - SELinux and AppArmor AVC records, alone and inside SYSCALL groups -, file syscalls with 4/1/2 PATH records, user-space records of seven types) is coalesced in forward order in this process and in reverse, rotated-by-one, rotated-by-half and forward order by four FRESH processes (`vcheck probe c15-order`): every event's outcome must be the same whatever the process saw before it; then seeded operation histories over a pool of 6-12 message groups (generated SYSCALL groups and single records with unique values, compound events that share one first record type - every named type in turn - with different syscalls, the repo's 47 recorded events, groups of hostile mutated text): CoalesceMessages(i), the same again (and four more times at the end of the history; some groups carry two SOCKADDR records of different families), ResolveIDs(e_j) through the global caches (names injected with HardcodeUsers/Groups for determinism), and a re-check of EVERY event returned so far after every operation. Deep copies of Data()/Tags()/ToMapStr() of every input message taken before its first use must equal the values afterwards; a repeated coalesce must give an equal event (JSON + sorted multiset of warning texts); every retained event must equal its own snapshot at every later step. After the histories, events whose ids carry names that never expire (root, injected names) are coalesced and resolved again after every few thousand unrelated ids went through the global caches: the result must not change. A second phase under the race detector coalesces and resolves different groups (incl. EXECVE records with 1..N arguments in ascending order) from 16 goroutines - the FIRST round on the cold process, before anything was coalesced sequentially, so lazily built global state is built by racing goroutines - and compares with a sequential reference computed afterwards (which must itself be stable); before that, the same-id storm: eight goroutines resolve the same not-yet-cached uid / gid of a real account on fresh caches at the same moment (150 / 6 000 rounds), each must get what a single look-up gives. Also: 17 record types x 4 variants resolved with ResolveIDsFromCaches through fresh private caches must not show ids / names that only the process-wide caches know. Thorough tier only: an event with an injected id resolves to the same names after the caches were left alone for 63 s. distinct_nontrivial = distinct histories (by pool text and op list) that contain a repeated coalesce or a ResolveIDs while other events are retained.",
		Assumptions: []string{
			"the ORDER of Event.Warnings is not asserted (they are produced while ranging over maps); warnings are compared as a sorted multiset",
			"ResolveIDs may change the event it is given; all other retained events and all input messages must stay equal",
		},
		Phases: func(tier string) []mon.PhaseSpec {
			return []mon.PhaseSpec{{Name: "histories", Flavour: "plain"}, {Name: "concurrent", Flavour: "race"}}
		},
		Run: func(c *mon.Ctx) {
			hardcode()
			if c.Phase == "concurrent" {
				c15Concurrent(c)
				return
			}
			c15OrderIndependence(c)
			c15CrossProcess(c)
			c15PrivateCaches(c)
			corpus := logenc.CorpusGroups()
			hostile := logenc.Corpus()
			if len(corpus) < 20 || len(hostile) < 100 {
				c.Inconclusive("corpus not found")
				return
			}
			ev := c.Counter("evaluations")
			nt := c.DistinctSet("nontrivial")
			n := c.Pick(4000, 200000)
			c.ForEach(n, func(w, i int) {
				r := c.Rand(1, uint64(i))
				pool := c15Pool(r, corpus, hostile, r.Range(6, 12))
				key, nontrivial := c15History(c, r, pool, r.Range(8, 40))
				ev.Add(1)
				if nontrivial {
					nt.AddString(key)
				}
				if c.WantSample() {
					c.Sample(map[string]any{"pool_groups": len(pool), "first_group": clipStr(strings.Join(pool[0].Lines, " // "), 200)})
				}
			})
			c15ResolveStability(c)
			c15IdleExpiry(c)
			c.Require("repeated_coalesce_calls", 100)
			c.Require("resolve_calls", 100)
			c.Require("rechecks", 1000)
		},
		Replay: func(c *mon.Ctx, kase json.RawMessage) {
			hardcode()
			var k c15Case
			if json.Unmarshal(kase, &k) != nil || len(k.Groups) == 0 {
				return
			}
			fmt.Printf("replay: %d groups, ops %v (re-executed with a fresh seed over the same pool)\n", len(k.Groups), k.Ops)
			for rep := 0; rep < 20 && c.Violations() == 0; rep++ {
				c15History(c, c.Rand(99, uint64(rep)), k.Groups, 40)
			}
		},
	})
}

var c15Saddrs = logenc.Saddrs()
