package checks

import (
	"encoding/json"
	"fmt"
	"reflect"
	"strings"

	"github.com/elastic/go-libaudit/v2/rule"
	"github.com/elastic/go-libaudit/v2/rule/flags"

	"verifharness/internal/mon"
	"verifharness/internal/rulegen"
)

// C14: flags.Parse accounts for every token of the line or rejects it.

type c14Case struct {
	Argv []string `json:"argv"`
	Line string   `json:"line"`
	Bare bool     `json:"words_unquoted_where_possible,omitempty"`
	// Tail: raw text appended to the line (after a blank) that leaves a quote or an escape open: the line has no
	// reading as a list of words and must be rejected, whatever complete rule precedes the broken word
	Tail string `json:"broken_tail,omitempty"`
	// Twin: this list of words was derived from an accepted line by splitting its words at blanks (it was parsed
	// right after that line)
	Twin bool `json:"twin_of_a_quoted_line,omitempty"`
}

var c14Tails = []string{"'oops", "\"x y", "\\", "'-k key", "-k 'foo", "\"-F auid>=1000 -k users", "-F 'uid=0", "x\\", "'"}

var c14Ops = []string{"<=", ">=", "&=", "!=", "=", "<", ">", "&"}

// splitFilter returns the reading (field, operator, value) of a filter argument in which the
// operator starts at the first position where any operator matches and field and value are the
// complete, non-empty text before and after it ("key<=" can only be read as key < "=").
func splitFilter(arg string, ops []string) (cands [][3]string) {
	best := -1
	for i := 0; i < len(arg) && best < 0; i++ {
		for _, o := range ops {
			if strings.HasPrefix(arg[i:], o) {
				best = i
			}
		}
	}
	if best <= 0 {
		return nil
	}
	// the operator is the longest one at that position that leaves a value ("a1&=3" is a1 &= 3, never
	// a1 & "=3": that would be a different kernel comparison); a shorter reading is taken only when the
	// longer one would leave no value
	for _, o := range ops {
		if strings.HasPrefix(arg[best:], o) && len(arg) > best+len(o) {
			if len(cands) == 0 || len(o) > len(cands[0][1]) {
				cands = [][3]string{{arg[:best], o, arg[best+len(o):]}}
			}
		}
	}
	return cands
}

type c14Expect struct {
	Reject string // non-empty: the line must be rejected, with the reason
	Rule   rule.Rule
	Alts   map[int][][3]string
}

// c14Interpret computes, from the argv alone, what a faithful parse must return.
func c14Interpret(argv []string) c14Expect {
	var (
		del                        bool
		appends, prepends, watches []string
		filters                    []rule.FilterSpec
		syscalls, keys             []string
		perms                      []rule.AccessType
		sawP, sawSys               bool
		alts                       = map[int][][3]string{} // filter index -> every admissible reading
	)
	splitList := func(v string) []string {
		var out []string
		for _, w := range strings.Split(v, ",") {
			out = append(out, strings.TrimSpace(w))
		}
		return out
	}
	for i := 0; i < len(argv); i++ {
		a := argv[i]
		takes := func() (string, bool) {
			if i+1 >= len(argv) {
				return "", false
			}
			i++
			return argv[i], true
		}
		switch a {
		case "-D":
			del = true
		case "-a", "-A", "-F", "-C", "-S", "-k", "-p", "-w":
			v, ok := takes()
			if !ok {
				return c14Expect{Reject: "flag " + a + " has no argument"}
			}
			switch a {
			case "-a":
				appends = append(appends, v)
				sawSys = true
			case "-A":
				prepends = append(prepends, v)
				sawSys = true
			case "-F":
				sawSys = true
				cands := splitFilter(v, c14Ops)
				if len(cands) == 0 {
					return c14Expect{Reject: fmt.Sprintf("-F argument %q is not <field><operator><value>", v)}
				}
				filters = append(filters, rule.FilterSpec{Type: rule.ValueFilterType, LHS: cands[0][0], Comparator: cands[0][1], RHS: cands[0][2]})
				alts[len(filters)-1] = cands
			case "-C":
				sawSys = true
				cands := splitFilter(v, []string{"!=", "="})
				if len(cands) == 0 {
					return c14Expect{Reject: fmt.Sprintf("-C argument %q is not <field>(=|!=)<field>", v)}
				}
				filters = append(filters, rule.FilterSpec{Type: rule.InterFieldFilterType, LHS: cands[0][0], Comparator: cands[0][1], RHS: cands[0][2]})
				alts[len(filters)-1] = cands
			case "-S":
				sawSys = true
				syscalls = append(syscalls, splitList(v)...)
			case "-k":
				keys = append(keys, splitList(v)...)
			case "-p":
				sawP = true
				for _, ch := range []byte(v) {
					switch ch {
					case 'r':
						perms = append(perms, rule.ReadAccessType)
					case 'w':
						perms = append(perms, rule.WriteAccessType)
					case 'x':
						perms = append(perms, rule.ExecuteAccessType)
					case 'a':
						perms = append(perms, rule.AttributeChangeAccessType)
					default:
						return c14Expect{Reject: fmt.Sprintf("-p argument %q has an invalid access type", v)}
					}
				}
			case "-w":
				watches = append(watches, v)
			}
		case "--":
			// end-of-options marker: harmless by itself, everything after it is positional
			if i+1 < len(argv) {
				return c14Expect{Reject: fmt.Sprintf("positional word %q after --", argv[i+1])}
			}
		default:
			if strings.HasPrefix(a, "-") && a != "-" && a != "--" {
				return c14Expect{Reject: "unknown flag " + a}
			}
			return c14Expect{Reject: fmt.Sprintf("positional word %q", a)}
		}
	}
	isWatch := len(watches) > 0 || sawP
	n := 0
	for _, b := range []bool{del, isWatch, sawSys} {
		if b {
			n++
		}
	}
	if n == 0 {
		return c14Expect{Reject: "no operation flag"}
	}
	if n > 1 {
		return c14Expect{Reject: "delete / watch / syscall-rule flags mixed"}
	}
	distinct := func(xs []string) int {
		m := map[string]bool{}
		for _, x := range xs {
			m[x] = true
		}
		return len(m)
	}
	switch {
	case del:
		return c14Expect{Rule: &rule.DeleteAllRule{Type: rule.DeleteAllRuleType, Keys: keys}}
	case isWatch:
		if distinct(watches) > 1 {
			return c14Expect{Reject: "-w given more than once with different paths"}
		}
		p := ""
		if len(watches) > 0 {
			p = watches[0]
		}
		return c14Expect{Rule: &rule.FileWatchRule{Type: rule.FileWatchRuleType, Path: p, Permissions: perms, Keys: keys}}
	}
	if len(appends) > 0 && len(prepends) > 0 {
		return c14Expect{Reject: "both -a and -A"}
	}
	if len(appends) == 0 && len(prepends) == 0 {
		return c14Expect{Reject: "neither -a nor -A"}
	}
	adds, typ := appends, rule.AppendSyscallRuleType
	if len(prepends) > 0 {
		adds, typ = prepends, rule.PrependSyscallRuleType
	}
	if distinct(adds) > 1 {
		return c14Expect{Reject: "-a/-A given more than once with different values"}
	}
	parts := strings.Split(adds[0], ",")
	if len(parts) != 2 {
		return c14Expect{Reject: fmt.Sprintf("-a argument %q is not list,action", adds[0])}
	}
	var list, action string
	for _, p := range parts {
		p = strings.TrimSpace(p)
		switch p {
		case "task", "exit", "user", "exclude":
			if list != "" {
				return c14Expect{Reject: "two lists in -a"}
			}
			list = p
		case "never", "always":
			if action != "" {
				return c14Expect{Reject: "two actions in -a"}
			}
			action = p
		default:
			return c14Expect{Reject: fmt.Sprintf("-a argument %q has an unknown part", adds[0])}
		}
	}
	if list == "" || action == "" {
		return c14Expect{Reject: "-a argument lacks a list or an action"}
	}
	return c14Expect{Rule: &rule.SyscallRule{Type: typ, List: list, Action: action, Filters: filters, Syscalls: syscalls, Keys: keys}, Alts: alts}
}

func normStrings(xs []string) []string {
	out := []string{}
	for _, x := range xs {
		out = append(out, strings.TrimSpace(x))
	}
	return out
}

// c14Equal compares a returned rule with the expectation (blank-trimmed, nil == empty).
func c14Equal(got, want rule.Rule, alts map[int][][3]string) string {
	if reflect.TypeOf(got) != reflect.TypeOf(want) {
		return fmt.Sprintf("rule kind %T, want %T", got, want)
	}
	switch w := want.(type) {
	case *rule.DeleteAllRule:
		g := got.(*rule.DeleteAllRule)
		if !reflect.DeepEqual(normStrings(g.Keys), normStrings(w.Keys)) {
			return fmt.Sprintf("keys %q, want %q", g.Keys, w.Keys)
		}
	case *rule.FileWatchRule:
		g := got.(*rule.FileWatchRule)
		if g.Path != w.Path {
			return fmt.Sprintf("path %q, want the whole -w value %q", g.Path, w.Path)
		}
		if len(g.Permissions) != len(w.Permissions) || (len(w.Permissions) > 0 && !reflect.DeepEqual(g.Permissions, w.Permissions)) {
			return fmt.Sprintf("permissions %v, want %v", g.Permissions, w.Permissions)
		}
		if !reflect.DeepEqual(normStrings(g.Keys), normStrings(w.Keys)) {
			return fmt.Sprintf("keys %q, want %q", g.Keys, w.Keys)
		}
	case *rule.SyscallRule:
		g := got.(*rule.SyscallRule)
		if g.Type != w.Type || g.List != w.List || g.Action != w.Action {
			return fmt.Sprintf("type/list/action %v/%s/%s, want %v/%s/%s", g.Type, g.List, g.Action, w.Type, w.List, w.Action)
		}
		if len(g.Filters) != len(w.Filters) {
			return fmt.Sprintf("%d filters, want %d (one per -F/-C argument)", len(g.Filters), len(w.Filters))
		}
		for i := range w.Filters {
			a, b := g.Filters[i], w.Filters[i]
			okAlt := false
			for _, alt := range alts[i] {
				// the value must be the complete text after the operator, blanks included; only blanks between
				// the field name and the operator are compared trimmed
				if strings.TrimSpace(a.LHS) == strings.TrimSpace(alt[0]) && a.Comparator == alt[1] && a.RHS == alt[2] {
					okAlt = true
				}
			}
			if a.Type != b.Type || !okAlt {
				return fmt.Sprintf("filter %d = {%v %q %q %q}, want the complete text {%v %q %q %q}", i, a.Type, a.LHS, a.Comparator, a.RHS, b.Type, b.LHS, b.Comparator, b.RHS)
			}
		}
		if !reflect.DeepEqual(normStrings(g.Syscalls), normStrings(w.Syscalls)) {
			return fmt.Sprintf("syscalls %q, want %q", g.Syscalls, w.Syscalls)
		}
		if !reflect.DeepEqual(normStrings(g.Keys), normStrings(w.Keys)) {
			return fmt.Sprintf("keys %q, want %q", g.Keys, w.Keys)
		}
	}
	return ""
}

func c14One(c *mon.Ctx, k *c14Case) {
	q := make([]string, len(k.Argv))
	for i, a := range k.Argv {
		q[i] = rulegen.Quote(a)
		// a word without quotes, backslashes, blanks, tabs or newlines needs no quoting even when it holds other
		// (Unicode) white space: write it bare half of the time, so that whole lines come without any quote
		if k.Bare && !strings.ContainsAny(a, " \t\n'\"\\") && a != "" {
			q[i] = a
		}
	}
	k.Line = strings.Join(q, " ")
	exp := c14Interpret(k.Argv)
	if k.Tail != "" {
		k.Line += " " + k.Tail
		exp = c14Expect{Reject: "unterminated quote or escape at the end of the line"}
		c.Add("lines_with_unterminated_quote", 1)
	}
	var r rule.Rule
	var err error
	if p, st := mon.Try(func() { r, err = flags.Parse(k.Line) }); p != nil {
		c.Violation("panic", fmt.Sprintf("flags.Parse panicked on %q: %v\n%s", k.Line, p, st), k)
		return
	}
	if err != nil {
		c.Add("lines_rejected", 1)
		if exp.Reject == "" {
			c.Add("faithful_lines_rejected", 1) // allowed by the statement ("error or faithful rule"); counted
		}
		return
	}
	c.Add("lines_accepted", 1)
	if exp.Reject != "" {
		cls := exp.Reject
		if i := strings.IndexAny(cls, "\"%"); i > 0 {
			cls = strings.TrimSpace(cls[:i])
		}
		c.Violation("accepted:"+strings.ReplaceAll(cls, " ", "-"), fmt.Sprintf("flags.Parse accepted a line that cannot be reflected faithfully (%s)\n  line: %s\n  returned: %+v", exp.Reject, clipStr(k.Line, 300), r), k)
		return
	}
	if d := c14Equal(r, exp.Rule, exp.Alts); d != "" {
		kind := "filter"
		switch {
		case strings.HasPrefix(d, "path"):
			kind = "path"
		case strings.HasPrefix(d, "keys"):
			kind = "keys"
		case strings.HasPrefix(d, "syscalls"):
			kind = "syscalls"
		case strings.HasPrefix(d, "type/list"):
			kind = "list-action"
		case strings.HasPrefix(d, "permissions"):
			kind = "permissions"
		case strings.HasPrefix(d, "rule kind"):
			kind = "kind"
		}
		c.Violation("unfaithful:"+kind, fmt.Sprintf("returned rule does not reflect the line: %s\n  line: %s", d, clipStr(k.Line, 300)), k)
		return
	}
	c.Add("lines_accepted_faithfully", 1)
	// (2) the result belongs to the caller: after the caller has changed it, parsing the same line again still
	// gives the rule of the line
	switch m := r.(type) {
	case *rule.DeleteAllRule:
		m.Keys = append(m.Keys, "changed-by-caller")
	case *rule.FileWatchRule:
		m.Path += "/changed-by-caller"
		m.Keys = append(m.Keys, "changed-by-caller")
		m.Permissions = append(m.Permissions, rule.ExecuteAccessType)
	case *rule.SyscallRule:
		m.Keys = append(m.Keys, "changed-by-caller")
		m.Syscalls = append(m.Syscalls, "changed-by-caller")
		for i := range m.Filters {
			m.Filters[i].RHS += "-changed-by-caller"
		}
		m.List, m.Action = "changed", "changed"
	}
	r2, err2 := flags.Parse(k.Line)
	c.Add("lines_parsed_again_after_the_result_was_changed", 1)
	if err2 != nil {
		c.Violation("second-parse-differs", fmt.Sprintf("the line was accepted the first time and is rejected the second time (%v)\n  line: %s", err2, clipStr(k.Line, 300)), k)
		return
	}
	if d := c14Equal(r2, exp.Rule, exp.Alts); d != "" {
		c.Violation("second-parse-differs", fmt.Sprintf("parsing the same line again (after the caller changed the first result) returns a rule that does not reflect the line: %s\n  line: %s", d, clipStr(k.Line, 300)), k)
		return
	}
	// (3) the twin line: the same characters without the quotes that held words with blanks together is a
	// DIFFERENT list of words and is judged on its own - right after the quoted line, in the same process
	if !k.Twin {
		var argv2 []string
		changed := false
		for _, a := range k.Argv {
			f := strings.FieldsFunc(a, func(r rune) bool { return r == ' ' || r == '\t' || r == '\n' })
			if len(f) != 1 || f[0] != a {
				changed = true
			}
			argv2 = append(argv2, f...)
		}
		if changed {
			c.Add("twin_lines_without_the_quotes", 1)
			c14One(c, &c14Case{Argv: argv2, Bare: true, Twin: true})
		}
	}
}

// ---- generator ----

var c14Values = []string{"0", "1000", "-1", "unset", "root", "/etc/passwd", "/a b", "/a  b/c", "/a=b", "a=b=c", "x<y", "x>=y", "&", "/tmp/'q'", "/tmp/\"q\"", "\\", "$HOME", "a\tb", " lead", "trail ", "b64", "-EPERM", "0x1f", "rwxa", "key,with,commas", "*", "/a\nb", "é",
	// white space that is NOT a word separator for a shell tokenizer (only blank, tab and newline are): it is part of the word
	"/srv/a\u00a0b", "/srv/shared\u00a0", "\u2003x", "/x\r", "a\vb", "a\fb", "/p\u3000q", "v\u0085w"}

func c14FilterArg(r *mon.Rand) string {
	fields := rulegen.AllFieldNames()
	lhs := mon.Pick(r, fields)
	switch r.Intn(12) {
	case 0:
		lhs = "junk-" + lhs
	case 1:
		lhs = lhs + " "
	case 2:
		lhs = "/" + lhs
	case 3:
		lhs = "no such field"
	case 4:
		lhs = ""
	}
	op := mon.Pick(r, c14Ops)
	if r.Chance(1, 20) {
		op = mon.Pick(r, []string{"==", "=!", "~", "", " = ", "=>"})
	}
	rhs := mon.Pick(r, c14Values)
	if r.Chance(1, 15) {
		rhs = ""
	}
	arg := lhs + op + rhs
	// text in front of the filter that is separated from it by a line break, a tab or a carriage return (inside one
	// quoted argument): the argument as a whole is not a filter, whatever its last line looks like
	if fr := r.Fork(17); fr.Chance(1, 25) {
		arg = mon.Pick(fr, []string{"not a filter", "path /etc/shadow", "x", "uid", "", "-F"}) + mon.Pick(fr, []string{"\n", "\n\n", "\r\n", "\t", "\r"}) + arg
	}
	return arg
}

func c14CompareArg(r *mon.Rand) string {
	a := mon.Pick(r, []string{"uid", "euid", "auid", "gid", "obj_uid", "obj-uid", "", "u id"})
	b := mon.Pick(r, []string{"euid", "suid", "obj_uid", "fsgid", "euid,junk", "euid junk", "", "e=uid"})
	return a + mon.Pick(r, []string{"=", "!=", "==", "<", " = "}) + b
}

func c14Gen(r *mon.Rand) []string {
	var argv []string
	addA := func() {
		fl := mon.Pick(r, []string{"-a", "-a", "-A"})
		v := mon.Pick(r, []string{"exit,always", "always,exit", "task,never", "never,user", "exclude,always", "exit", "always", "exit,always,task", "exit,exit", "entry,always", "exit,possible", "", "exit, always", " exit,always", "exit;always"})
		argv = append(argv, fl, v)
	}
	stray := func() {
		if r.Chance(1, 14) {
			argv = append(argv, mon.Pick(r, []string{"extra", "always", "/etc/shadow", "uid=0", "-", "--", "-x", "-h", "all", "x y", "", " ", "\t", "0", "#", "#", "#comment", "#-k", "a#b", "-D=junk", "-D=-k", "-D=", "-D=-w/etc/passwd"}))
		}
	}
	kind := r.Intn(10)
	switch {
	case kind == 0: // delete
		stray()
		argv = append(argv, "-D")
		stray()
		for i, n := 0, r.Intn(3); i < n; i++ {
			argv = append(argv, "-k", mon.Pick(r, c14Values))
			stray()
		}
	case kind <= 3: // watch
		stray()
		order := []int{0, 1, 2}
		mon.Shuffle(r, order)
		for _, o := range order {
			switch o {
			case 0:
				for i, n := 0, mon.Pick(r, []int{1, 1, 1, 1, 2, 2, 0}); i < n; i++ {
					v := mon.Pick(r, c14Values)
					if n == 2 && i == 0 && r.Chance(1, 3) {
						v = "" // an empty -w is still a -w: a second one is a repetition
					}
					argv = append(argv, "-w", v)
				}
			case 1:
				// usually one -p; sometimes two or three (every one of them counts: the access types add up)
				for i, n := 0, mon.Pick(r, []int{1, 1, 1, 1, 1, 0, 0, 2, 2, 3}); i < n; i++ {
					argv = append(argv, "-p", mon.Pick(r, []string{"r", "w", "x", "a", "rw", "wa", "rwxa", "arwx", "rr", "q", "rwq", "", "r w"}))
				}
			case 2:
				for i, n := 0, r.Intn(3); i < n; i++ {
					argv = append(argv, "-k", mon.Pick(r, c14Values))
				}
			}
			stray()
		}
	default: // syscall rule
		stray()
		parts := []int{}
		for i, n := 0, mon.Pick(r, []int{1, 1, 1, 1, 1, 0, 2}); i < n; i++ {
			parts = append(parts, 0)
		}
		for i, n := 0, r.Intn(5); i < n; i++ {
			parts = append(parts, 1)
		}
		for i, n := 0, r.Intn(2); i < n; i++ {
			parts = append(parts, 2)
		}
		for i, n := 0, r.Intn(3); i < n; i++ {
			parts = append(parts, 3)
		}
		for i, n := 0, r.Intn(3); i < n; i++ {
			parts = append(parts, 4)
		}
		if r.Chance(1, 2) {
			mon.Shuffle(r, parts)
		}
		for _, p := range parts {
			switch p {
			case 0:
				addA()
			case 1:
				argv = append(argv, "-F", c14FilterArg(r))
			case 2:
				argv = append(argv, "-C", c14CompareArg(r))
			case 3:
				argv = append(argv, "-S", mon.Pick(r, []string{"open", "open,close", "2", "all", "open, close", "59,execve", "", ",", "open,", "x y"}))
			case 4:
				argv = append(argv, "-k", mon.Pick(r, c14Values))
			}
			stray()
		}
	}
	// mixing: one, two or three flags of the other kinds, appended or inserted in front (all three kinds on one
	// line included)
	if r.Chance(1, 10) {
		for i, n := 0, mon.Pick(r, []int{1, 1, 2, 2, 3}); i < n; i++ {
			var add []string
			switch r.Intn(6) {
			case 0:
				add = []string{"-D"}
			case 1:
				add = []string{"-w", "/etc/passwd"}
			case 2:
				add = []string{"-S", "open"}
			case 3:
				add = []string{"-p", "wa"}
			case 4:
				add = []string{"-a", "always,exit"}
			case 5:
				add = []string{"-F", "uid=0"}
			}
			if r.Chance(1, 3) {
				argv = append(add, argv...)
			} else {
				argv = append(argv, add...)
			}
		}
	}
	if r.Chance(1, 40) && len(argv) > 0 {
		argv = argv[:len(argv)-1] // a flag without its argument (or a lost value)
	}
	return argv
}

func init() {
	register(&mon.CheckSpec{
		ID: "C14", Level: "exploration",
		Rule: "cases = argv lists built from a grammar (-a/-A in both orders and with bad parts, -F with valid fields and junk before the field name, every operator and operator look-alike, values containing spaces, tabs, newlines, '=', operator characters, quotes, backslashes; -C; -S/-k comma lists; -p; -w; -D; repeated single-valued flags; stray positional words (also '#', '#comment': a rule line has no comments), '-', '--', unknown flags at every position; delete/watch/syscall flags mixed two and three ways; a flag missing its argument; a broken last word that leaves a quote or a backslash escape open) joined with the harness's own POSIX single-quote quoting, so the argv is known independently of the library's tokenizer. Every faithfully accepted line is parsed a second time after the caller changed the returned rule (the second result must again be the rule of the line), and the twin line that has the same characters without the quotes around words with blanks is judged right afterwards in the same process. The harness interprets the argv itself: either 'must be rejected' (with the reason) or the exact rule a faithful parse returns. distinct_nontrivial = distinct lines that contain a quoted argument, a stray word, a repeated flag or a filter whose value holds an operator character or blank.",
		Assumptions: []string{
			"an error result is always acceptable (statement: error OR faithful rule); the accepted fraction is reported and a run that accepts nothing is inconclusive",
			"blanks around list items and between a filter's field name and its operator are compared trimmed (the value of a filter is compared exactly); a repeated single-valued flag with identical values is accepted",
			"value-taking flags consume the next token even when it starts with '-' (getopt and Go flag semantics agree)",
		},
		Phases: plainPhase("argv"),
		Run: func(c *mon.Ctx) {
			ev := c.Counter("evaluations")
			nt := c.DistinctSet("nontrivial")
			n := c.Pick(200_000, 60_000_000)
			c.ForEach(n, func(w, i int) {
				r := c.Rand(1, uint64(i))
				k := &c14Case{Argv: c14Gen(r), Bare: r.Bool()}
				if fr := r.Fork(3); fr.Chance(1, 25) {
					k.Tail = mon.Pick(fr, c14Tails)
				}
				c14One(c, k)
				ev.Add(1)
				if strings.ContainsAny(k.Line, "'") {
					nt.AddString(k.Line)
				}
				if c.WantSample() {
					c.Sample(map[string]any{"line": clipStr(k.Line, 200), "argv": k.Argv})
				}
			})
			// the real rule corpus must be accepted faithfully (keeps 'reject everything' from passing)
			for _, l := range rulesCorpusArgv() {
				k := &c14Case{Argv: l}
				c14One(c, k)
				ev.Add(1)
				c.Add("corpus_lines", 1)
			}
			c.Require("lines_accepted_faithfully", 1000)
			c.Require("lines_rejected", 1000)
		},
		Replay: func(c *mon.Ctx, kase json.RawMessage) {
			var k c14Case
			if json.Unmarshal(kase, &k) != nil {
				return
			}
			c14One(c, &k)
			fmt.Printf("replay: line %s\nreplay: harness expectation: %+v\n", k.Line, c14Interpret(k.Argv))
		},
	})
}

// rulesCorpusArgv tokenises the repo's rule files with a minimal POSIX splitter of the harness's own.
func rulesCorpusArgv() [][]string {
	var out [][]string
	for _, l := range logencRuleCorpus() {
		if argv, ok := posixSplit(l); ok {
			out = append(out, argv)
		}
	}
	return out
}

func posixSplit(s string) ([]string, bool) {
	var out []string
	var cur strings.Builder
	in := false
	for i := 0; i < len(s); i++ {
		ch := s[i]
		switch {
		case ch == '\'':
			j := strings.IndexByte(s[i+1:], '\'')
			if j < 0 {
				return nil, false
			}
			cur.WriteString(s[i+1 : i+1+j])
			i += j + 1
			in = true
		case ch == '"':
			j := strings.IndexByte(s[i+1:], '"')
			if j < 0 || strings.ContainsAny(s[i+1:i+1+j], "\\$`") {
				return nil, false
			}
			cur.WriteString(s[i+1 : i+1+j])
			i += j + 1
			in = true
		case ch == '\\':
			return nil, false
		case ch == ' ' || ch == '\t':
			if in {
				out = append(out, cur.String())
				cur.Reset()
				in = false
			}
		default:
			cur.WriteByte(ch)
			in = true
		}
	}
	if in {
		out = append(out, cur.String())
	}
	return out, true
}
