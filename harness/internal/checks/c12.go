package checks

import (
	"bytes"
	"encoding/json"
	"fmt"
	"net"
	"sort"
	"strconv"
	"strings"

	"github.com/elastic/go-libaudit/v2/auparse"
	"golang.org/x/sys/unix"

	"verifharness/internal/logenc"
	"verifharness/internal/mon"
)

// C12: Data() recovers what the kernel encoded. Values are written by an
// independent kernel-style writer into every decoded position; the oracle
// compares Data()[key] with the original bytes.

type c12Case struct {
	Pos   string   `json:"position"`
	Value []byte   `json:"value"`
	Args  [][]byte `json:"args,omitempty"` // EXECVE
	Line  string   `json:"line"`
}

var c12Alphabets = [][]byte{
	[]byte("abcdefghijklmnopqrstuvwxyzABCDEFGHIJKLMNOPQRSTUVWXYZ0123456789/._-+,:@%~"),
	nil, // all bytes 0x01-0xFF (filled in init)
	[]byte(` ="'\=  "'\abc/.-:;,{}()[]<>!?*&|$#`),
	[]byte("0123456789ABCDEF0123456789abcdef"),
}

func init() {
	for b := 1; b < 256; b++ {
		c12Alphabets[1] = append(c12Alphabets[1], byte(b))
	}
}

var c12Placeholders = [][]byte{[]byte("?"), []byte("?,"), []byte("(null)")}

// a placeholder is exactly one of the four values (a value of blanks is hex-encoded by the kernel and is real data)
func isPlaceholder(v []byte) bool {
	s := string(v)
	return s == "" || s == "?" || s == "?," || s == "(null)"
}

// excluded by the property's quantifier: first or last byte a quote character, last byte a backslash
func c12Excluded(v []byte) bool {
	if len(v) == 0 {
		return true
	}
	f, l := v[0], v[len(v)-1]
	return f == '"' || f == '\'' || l == '"' || l == '\'' || l == '\\'
}

func c12Value(r *mon.Rand) []byte {
	if r.Chance(1, 60) {
		return mon.Pick(r, c12Placeholders)
	}
	for {
		a := mon.Pick(r, c12Alphabets)
		n := r.Range(1, 64)
		if r.Chance(1, 3) {
			n = r.Range(1, 6)
		}
		v := make([]byte, n)
		for i := range v {
			v[i] = a[r.Intn(len(a))]
		}
		if !c12Excluded(v) {
			return v
		}
	}
}

func nulToSpace(v []byte) string { return strings.ReplaceAll(string(v), "\x00", " ") }

const c12Hdr = "audit(1492798541.391:20246): "

var c12Positions = []string{"syscall-exe", "seccomp-exe", "cwd", "path-name", "proctitle", "usercmd-cmd", "usercmd-cwd", "tty-data", "usertty-data", "execve", "userlogin-acct", "plain"}

// build renders the record for a position and returns (type, message text, expected key/values, keys that must be absent).
func c12Build(r *mon.Rand, pos string, v []byte, args [][]byte) (typ auparse.AuditMessageType, msg string, want map[string]string, absent []string) {
	want = map[string]string{}
	put := func(key string, val []byte, multi bool) {
		if isPlaceholder(val) {
			absent = append(absent, key)
			return
		}
		if multi {
			want[key] = nulToSpace(val)
		} else {
			want[key] = string(val)
		}
	}
	pid := strconv.Itoa(r.Range(1, 99999))
	switch pos {
	case "syscall-exe":
		typ = auparse.AUDIT_SYSCALL
		msg = fmt.Sprintf("arch=c000003e syscall=2 success=yes exit=3 a0=7ffd a1=0 a2=1b6 a3=0 items=1 ppid=1 pid=%s auid=1000 uid=0 gid=0 euid=0 suid=0 fsuid=0 egid=0 sgid=0 fsgid=0 tty=pts0 ses=3 comm=\"cat\" exe=%s key=(null)", pid, logenc.Untrusted(v))
		put("exe", v, true)
		want["pid"], want["ppid"], want["comm"], want["tty"], want["a2"], want["items"] = pid, "1", "cat", "pts0", "1b6", "1"
		want["arch"], want["syscall"], want["result"], want["ses"], want["auid"] = "x86_64", "open", "success", "3", "1000"
		absent = append(absent, "success", "key")
	case "seccomp-exe":
		typ = auparse.AUDIT_SECCOMP
		// sig: SIGSYS for the kill actions; 0 for the log / errno / trace actions; any other number is possible
		// (only the named classic signals are asserted by name; the rest of the record decodes whatever sig is)
		sig, sigName := 31, "SIGSYS"
		if fr := r.Fork(61); fr.Chance(1, 3) {
			sig = mon.Pick(fr, []int{0, 0, 1, 9, 11, 15, 32, 34, 64, 255, fr.Intn(70)})
			sigName = map[int]string{1: "SIGHUP", 2: "SIGINT", 3: "SIGQUIT", 4: "SIGILL", 5: "SIGTRAP", 6: "SIGABRT", 7: "SIGBUS", 8: "SIGFPE", 9: "SIGKILL", 10: "SIGUSR1", 11: "SIGSEGV", 12: "SIGUSR2", 13: "SIGPIPE", 14: "SIGALRM", 15: "SIGTERM", 31: "SIGSYS"}[sig]
		}
		msg = fmt.Sprintf("auid=4294967295 uid=33 gid=33 ses=4294967295 pid=%s comm=\"x\" exe=%s sig=%d arch=40000003 syscall=102 compat=0 ip=0xb7 code=0x0", pid, logenc.Untrusted(v), sig)
		put("exe", v, true)
		want["pid"], want["auid"], want["ses"], want["arch"], want["syscall"], want["uid"] = pid, "unset", "unset", "i386", "socketcall", "33"
		if sigName != "" {
			want["sig"] = sigName
		}
	case "cwd":
		typ = auparse.AUDIT_CWD
		msg = " cwd=" + logenc.Untrusted(v)
		put("cwd", v, true)
	case "path-name":
		typ = auparse.AUDIT_PATH
		msg = fmt.Sprintf("item=0 name=%s inode=%s dev=08:01 mode=0100644 ouid=0 ogid=0 rdev=00:00 nametype=NORMAL", logenc.Untrusted(v), pid)
		if r.Chance(1, 40) {
			msg = strings.Replace(msg, "name="+logenc.Untrusted(v), "name=(null)", 1)
			absent = append(absent, "name")
		} else {
			put("name", v, true)
		}
		want["inode"], want["dev"], want["mode"], want["nametype"], want["item"] = pid, "08:01", "0100644", "NORMAL", "0"
	case "proctitle":
		typ = auparse.AUDIT_PROCTITLE
		// argv joined by NULs, as /proc/pid/cmdline
		vv := append([]byte(nil), v...)
		if len(vv) > 3 && r.Bool() {
			for k := 0; k < r.Range(1, 3); k++ {
				vv[r.Range(1, len(vv)-2)] = 0
			}
		}
		v = vv
		msg = "proctitle=" + logenc.Untrusted(v)
		put("proctitle", v, true)
	case "usercmd-cmd":
		typ = auparse.AUDIT_USER_CMD
		msg = fmt.Sprintf("pid=%s uid=0 auid=1000 ses=1 msg='cwd=\"/root\" cmd=%s terminal=pts/0 res=success'", pid, logenc.Untrusted(v))
		put("cmd", v, true)
		want["cwd"], want["terminal"], want["result"], want["pid"] = "/root", "pts/0", "success", pid
	case "usercmd-cwd":
		typ = auparse.AUDIT_USER_CMD
		msg = fmt.Sprintf("pid=%s uid=0 auid=1000 ses=1 msg='cwd=%s cmd=6C73202D6C terminal=pts/0 res=failed'", pid, logenc.Untrusted(v))
		put("cwd", v, true)
		want["cmd"], want["terminal"], want["result"], want["pid"] = "ls -l", "pts/0", "fail", pid
	case "tty-data":
		typ = auparse.AUDIT_TTY
		msg = fmt.Sprintf("tty pid=%s uid=0 auid=1000 ses=1 major=136 minor=0 comm=\"bash\" data=%s", pid, logenc.Hex(v))
		want["data"] = nulToSpace(v)
		want["pid"], want["major"], want["comm"] = pid, "136", "bash"
	case "usertty-data":
		typ = auparse.AUDIT_USER_TTY
		// the kernel itself logs AUDIT_USER_TTY: " data=" + untrusted string, no msg='...' wrapper
		msg = fmt.Sprintf("pid=%s uid=0 auid=1000 ses=1 data=%s", pid, logenc.Untrusted(v))
		put("data", v, true)
		want["pid"] = pid
	case "userlogin-acct":
		typ = auparse.AUDIT_USER_LOGIN
		msg = fmt.Sprintf("pid=%s uid=0 auid=4294967295 ses=4294967295 msg='op=login acct=%s exe=\"/usr/sbin/sshd\" hostname=? addr=10.1.2.3 terminal=ssh res=failed'", pid, logenc.Untrusted(v))
		put("acct", v, true)
		want["op"], want["exe"], want["addr"], want["terminal"], want["result"], want["auid"], want["ses"] = "login", "/usr/sbin/sshd", "10.1.2.3", "ssh", "fail", "unset", "unset"
		absent = append(absent, "hostname", "res")
	case "execve":
		typ = auparse.AUDIT_EXECVE
		var sb strings.Builder
		fmt.Fprintf(&sb, "argc=%d", len(args))
		for i, a := range args {
			fmt.Fprintf(&sb, " a%d=%s", i, logenc.Untrusted(a))
			want["a"+strconv.Itoa(i)] = string(a)
		}
		want["argc"] = strconv.Itoa(len(args))
		msg = sb.String()
	case "plain":
		// plain key=value neighbours must stay unchanged; res -> result
		typ = mon.Pick(r, []auparse.AuditMessageType{auparse.AUDIT_CONFIG_CHANGE, auparse.AUDIT_NETFILTER_CFG, auparse.AUDIT_ANOM_PROMISCUOUS, auparse.AUDIT_MMAP, 1399, 2999})
		safe := make([]byte, 0, len(v))
		for _, c := range v {
			if c > 0x20 && c < 0x7f && c != '"' && c != '\'' && c != '\\' {
				safe = append(safe, c)
			}
		}
		if len(safe) == 0 || isPlaceholder(safe) {
			safe = []byte("v")
		}
		// a lower-case hex look-alike is NOT the kernel's hex form (that is upper-case): it is a plain value,
		// also in a position that would be decoded (cwd is decoded for every record type)
		lower := fmt.Sprintf("%x", pid+"z")
		msg = fmt.Sprintf("foo=%s pid=%s bar-baz=%s n_1=0x1f cwd=%s res=1", safe, pid, pid, lower)
		want["foo"], want["pid"], want["bar-baz"], want["n_1"], want["result"], want["cwd"] = string(safe), pid, pid, "0x1f", "success", lower
		absent = append(absent, "res")
	}
	return typ, c12Hdr + msg, want, absent
}

func c12Eval(c *mon.Ctx, k *c12Case, typ auparse.AuditMessageType, msg string, want map[string]string, absent []string) {
	k.Line = msg
	var data map[string]string
	var err error
	p, st := mon.Try(func() {
		var m *auparse.AuditMessage
		m, err = auparse.Parse(typ, msg)
		if err == nil {
			data, err = m.Data()
		}
	})
	if p != nil {
		c.Violation("panic", fmt.Sprintf("panic %v on %q\n%s", p, msg, st), k)
		return
	}
	nested := strings.Contains(msg, "msg='")
	quoteInNested := nested && bytes.ContainsRune(k.Value, '\'')
	sigSuffix := ""
	if quoteInNested {
		// K3: a single quote inside a value nested in msg='...' ends the outer value early
		sigSuffix = "nested-msg-single-quote"
	}
	if err != nil {
		sig := "data-error:" + k.Pos
		if sigSuffix != "" {
			sig = sigSuffix
		}
		c.Violation(sig, fmt.Sprintf("Data() failed with %q on a kernel-style record\n  record: type=%s %q", err, typ, clipStr(msg, 400)), k)
		return
	}
	keys := make([]string, 0, len(want))
	for key := range want {
		keys = append(keys, key)
	}
	sort.Strings(keys)
	for _, key := range keys {
		exp := want[key]
		got, ok := data[key]
		if !ok || got != exp {
			sig := "value-mismatch:" + k.Pos + ":" + key
			if sigSuffix != "" {
				sig = sigSuffix
			}
			c.Violation(sig, fmt.Sprintf("Data()[%q] = %q (present=%v), the kernel encoded %q\n  record: type=%s %q", key, got, ok, exp, typ, clipStr(msg, 400)), k)
			return
		}
	}
	for _, key := range absent {
		if got, ok := data[key]; ok {
			sig := "placeholder-kept:" + k.Pos + ":" + key
			if sigSuffix != "" {
				sig = sigSuffix
			}
			c.Violation(sig, fmt.Sprintf("Data()[%q] = %q but the field holds a placeholder / is consumed by design\n  record: %q", key, got, clipStr(msg, 400)), k)
			return
		}
	}
}

// ---- socket addresses ----

type c12Sock struct {
	Family string `json:"family"`
	IP     []byte `json:"ip,omitempty"`
	Port   uint16 `json:"port"`
	Flow   uint32 `json:"flow,omitempty"`
	Scope  uint32 `json:"scope,omitempty"`
	Path   []byte `json:"path,omitempty"`
	Junk   []byte `json:"junk,omitempty"`
	Saddr  string `json:"saddr"`
}

var c12Ports = []uint16{0, 1, 22, 80, 255, 256, 1023, 1024, 32767, 32768, 65534, 65535}

func c12SockEval(c *mon.Ctx, s *c12Sock) {
	msg := c12Hdr + "saddr=" + s.Saddr
	var data map[string]string
	var err error
	p, st := mon.Try(func() {
		m, e := auparse.Parse(auparse.AUDIT_SOCKADDR, msg)
		if e != nil {
			err = e
			return
		}
		data, err = m.Data()
	})
	if p != nil {
		c.Violation("panic", fmt.Sprintf("panic %v on %q\n%s", p, msg, st), s)
		return
	}
	if err != nil {
		c.Violation("sockaddr-error:"+s.Family, fmt.Sprintf("Data() failed with %q on saddr=%s", err, s.Saddr), s)
		return
	}
	bad := func(f string, a ...any) {
		c.Violation("sockaddr-mismatch:"+s.Family, fmt.Sprintf(f, a...)+fmt.Sprintf("; saddr=%s data=%v", s.Saddr, data), s)
	}
	if data["family"] != s.Family {
		bad("family = %q, want %q", data["family"], s.Family)
		return
	}
	switch s.Family {
	case "ipv4", "ipv6":
		got := net.ParseIP(data["addr"])
		if got == nil || !got.Equal(net.IP(s.IP)) {
			bad("addr = %q, want %s", data["addr"], net.IP(s.IP))
		}
		if data["port"] != strconv.Itoa(int(s.Port)) {
			bad("port = %q, want %d", data["port"], s.Port)
		}
	case "unix":
		if data["path"] != string(s.Path) {
			bad("path = %q, want %q", data["path"], s.Path)
		}
	}
	if _, ok := data["saddr"]; ok && (s.Family == "ipv4" || s.Family == "ipv6" || s.Family == "unix") {
		bad("raw saddr still present after decoding")
	}
}

func c12GenSock(r *mon.Rand) *c12Sock {
	s := &c12Sock{Port: mon.Pick(r, c12Ports)}
	if r.Bool() {
		s.Port = uint16(r.Intn(65536))
	}
	switch r.Intn(3) {
	case 0:
		s.Family = "ipv4"
		ips := [][4]byte{{0, 0, 0, 0}, {127, 0, 0, 1}, {255, 255, 255, 255}, {10, 0, 0, 1}, {192, 168, 255, 0}, {1, 2, 3, 4}, {128, 0, 0, 0}}
		ip := mon.Pick(r, ips)
		if r.Bool() {
			copy(ip[:], r.Bytes(4))
		}
		s.IP = ip[:]
		s.Saddr = logenc.SockaddrInet4(ip, s.Port)
		// the kernel logs exactly addrlen bytes of the caller's buffer: 8..15 bytes still hold family, port and
		// address (the padding is cut short), and a caller may pass a longer buffer (sockaddr_storage)
		if fr := r.Fork(41); fr.Chance(1, 4) {
			if fr.Bool() {
				s.Saddr = s.Saddr[:2*fr.Range(8, 15)]
			} else {
				s.Saddr += logenc.Hex(fr.Bytes(mon.Pick(fr, []int{1, 4, 12, 112})))
			}
		}
	case 1:
		s.Family = "ipv6"
		var ip [16]byte
		switch r.Intn(6) {
		case 0: // ::
		case 1:
			ip[15] = 1 // ::1
		case 2:
			copy(ip[:], []byte{0xfe, 0x80})
			copy(ip[8:], r.Bytes(8))
		case 3: // v4-mapped
			ip[10], ip[11] = 0xff, 0xff
			copy(ip[12:], r.Bytes(4))
		case 4:
			for i := range ip {
				ip[i] = 0xff
			}
		default:
			copy(ip[:], r.Bytes(16))
		}
		s.IP = ip[:]
		s.Flow = uint32(r.Intn(1 << 20)) // flow label (20 bits): within the statement's scope
		if r.Bool() {
			s.Flow = 0
		}
		s.Scope = uint32(r.Intn(8))
		s.Saddr = logenc.SockaddrInet6(ip, s.Port, s.Flow, s.Scope)
		// 24..27 bytes: the RFC 2133 length without (all of) the scope id, which Linux accepts; or a longer buffer
		if fr := r.Fork(42); fr.Chance(1, 4) {
			if fr.Bool() {
				s.Saddr = s.Saddr[:2*fr.Range(24, 27)]
			} else {
				s.Saddr += logenc.Hex(fr.Bytes(mon.Pick(fr, []int{1, 4, 100})))
			}
		}
	default:
		s.Family = "unix"
		if r.Chance(1, 12) {
			// unnamed / autobind / abstract sockets: the path is empty (nothing before the first NUL)
			s.Path = []byte{}
			switch r.Intn(3) {
			case 0:
				s.Saddr = "0100" // sa_family only: what the kernel logs for an unnamed socket
			case 1:
				s.Junk = r.Bytes(r.Range(0, 20))
				s.Saddr = logenc.SockaddrUnix(s.Path, s.Junk)
			default:
				s.Junk = append([]byte("abstract-"), r.Bytes(r.Range(0, 12))...) // abstract namespace: NUL + name
				s.Saddr = logenc.SockaddrUnix(s.Path, s.Junk)
			}
			return s
		}
		n := r.Range(1, 107)
		if r.Chance(1, 10) {
			n = 108
		}
		a := mon.Pick(r, c12Alphabets[:3])
		p := make([]byte, n)
		for i := range p {
			p[i] = a[r.Intn(len(a))]
		}
		if p[0] == 0 {
			p[0] = '/'
		}
		s.Path = p
		if r.Bool() {
			s.Junk = r.Bytes(r.Range(0, 20))
		}
		s.Saddr = logenc.SockaddrUnix(p, s.Junk)
	}
	return s
}

// ---- derived fields: exhaustive tables ----

func c12Tables(c *mon.Ctx) {
	ev := c.Counter("evaluations")
	// every errno in the published table
	nums := make([]int, 0, len(auparse.AuditErrnoToName))
	for n := range auparse.AuditErrnoToName {
		nums = append(nums, n)
	}
	sort.Ints(nums)
	for _, n := range nums {
		for vi, typ := range []auparse.AuditMessageType{auparse.AUDIT_SYSCALL, auparse.AUDIT_CONFIG_CHANGE, auparse.AUDIT_SYSCALL, auparse.AUDIT_SYSCALL, auparse.AUDIT_SYSCALL, auparse.AUDIT_SYSCALL} {
			// the rule is about the exit value alone: whatever the record says about success (a successful call may
			// return a negative number that happens to be an errno: it is still rendered by name)
			succ := []string{"success=no ", "success=no ", "success=yes ", "success=1 ", "res=1 ", ""}[vi]
			msg := fmt.Sprintf("%sarch=c000003e syscall=2 %sexit=-%d pid=1", c12Hdr, succ, n)
			m, err := auparse.Parse(typ, msg)
			if err != nil {
				c.Violation("table-parse", err.Error(), msg)
				continue
			}
			d, err := m.Data()
			ev.Add(1)
			c.Add("errno_entries_checked", 1)
			okNames := map[string]bool{auparse.AuditErrnoToName[n]: true}
			if un := unix.ErrnoName(unix.Errno(n)); un != "" {
				if !okNames[un] {
					// the two sources name the number differently: both must denote n
					if auparse.AuditErrnoToNum[un] == n {
						okNames[un] = true
					}
				}
				if num, ok := auparse.AuditErrnoToNum[auparse.AuditErrnoToName[n]]; ok && num != n {
					c.Violation("errno-name-wrong-number", fmt.Sprintf("errno %d is named %s, which the reverse table maps to %d", n, auparse.AuditErrnoToName[n], num), msg)
				}
				if sysNum, known := errnoByName(auparse.AuditErrnoToName[n]); known && sysNum != n {
					c.Violation("errno-name-disagrees-with-x-sys", fmt.Sprintf("exit=-%d is named %s but x/sys/unix says %s = %d", n, auparse.AuditErrnoToName[n], auparse.AuditErrnoToName[n], sysNum), msg)
				}
			}
			if err != nil || !okNames[d["exit"]] {
				c.Violation("exit-name", fmt.Sprintf("exit=-%d -> Data()[exit]=%q err=%v, want %v", n, d["exit"], err, okNames), msg)
			}
			if wantRes := []string{"fail", "fail", "success", "success", "success", ""}[vi]; d["result"] != wantRes {
				c.Violation("result-rule", fmt.Sprintf("%q -> result=%q, want %q", succ, d["result"], wantRes), msg)
			}
		}
	}
	// non-negative and unknown negative exits stay numeric
	for _, e := range []string{"0", "1", "4096", "-4096", "-99999", "2147483647"} {
		msg := fmt.Sprintf("%sarch=c000003e syscall=2 success=yes exit=%s pid=1", c12Hdr, e)
		m, _ := auparse.Parse(auparse.AUDIT_SYSCALL, msg)
		d, err := m.Data()
		ev.Add(1)
		if _, named := auparse.AuditErrnoToName[-atoi(e)]; named && e[0] == '-' {
			continue
		}
		if err != nil || d["exit"] != e {
			c.Violation("exit-unchanged", fmt.Sprintf("exit=%s -> %q err=%v", e, d["exit"], err), msg)
		}
	}
	// result rule for the values the kernel and user space write
	for in, want := range map[string]string{"success=yes": "success", "success=no": "fail", "res=1": "success", "res=0": "fail", "res=success": "success", "res=failed": "fail"} {
		msg := fmt.Sprintf("%spid=1 %s", c12Hdr, in)
		m, _ := auparse.Parse(auparse.AUDIT_CONFIG_CHANGE, msg)
		d, err := m.Data()
		ev.Add(1)
		if err != nil || d["result"] != want {
			c.Violation("result-rule", fmt.Sprintf("%s -> result=%q err=%v, want %s", in, d["result"], err, want), msg)
		}
	}
	// the same rule for the legacy (2.6-era) layout of user-space records, whose msg ends "... res=success)'": the
	// outcome is what the writer recorded, for every record type written that way
	for _, typ := range []auparse.AuditMessageType{auparse.AUDIT_USER_AUTH, auparse.AUDIT_USER_ACCT, auparse.AUDIT_CRED_ACQ, auparse.AUDIT_USER_LOGIN, auparse.AUDIT_USER_START, auparse.AUDIT_USER_END, auparse.AUDIT_CRED_DISP, auparse.AUDIT_USER_CHAUTHTOK, auparse.AUDIT_USER_ERR, auparse.AUDIT_CRED_REFR} {
		for res, want := range map[string]string{"success": "success", "failed": "fail"} {
			msg := fmt.Sprintf("%suser pid=13015 uid=0 auid=0 subj=system_u:system_r:crond_t:s0-s0:c0.c1023 msg='PAM: authentication acct=root : exe=\"/usr/sbin/sshd\" (hostname=h1, addr=192.0.2.9, terminal=ssh res=%s)'", c12Hdr, res)
			m, _ := auparse.Parse(typ, msg)
			d, err := m.Data()
			ev.Add(1)
			c.Add("legacy_layout_results_checked", 1)
			if err != nil || d["result"] != want {
				c.Violation("result-rule", fmt.Sprintf("legacy-layout %s record with res=%s)' -> result=%q err=%v, want %s", typ, res, d["result"], err, want), msg)
			}
		}
	}
	// unset ids
	for _, key := range []string{"auid", "ses"} {
		for in, want := range map[string]string{"4294967295": "unset", "-1": "unset", "0": "0", "1000": "1000", "4294967294": "4294967294"} {
			msg := fmt.Sprintf("%spid=1 %s=%s res=1", c12Hdr, key, in)
			m, _ := auparse.Parse(auparse.AUDIT_LOGIN, msg)
			d, err := m.Data()
			ev.Add(1)
			if err != nil || d[key] != want {
				c.Violation("unset-rule", fmt.Sprintf("%s=%s -> %q err=%v, want %s", key, in, d[key], err, want), msg)
			}
		}
	}
	// every (arch, syscall number) of the published tables
	archCodes := make([]uint32, 0)
	for a := range auparse.AuditArchNames {
		archCodes = append(archCodes, uint32(a))
	}
	sort.Slice(archCodes, func(i, j int) bool { return archCodes[i] < archCodes[j] })
	for _, code := range archCodes {
		name := auparse.AuditArchNames[auparse.AuditArch(code)]
		table := auparse.AuditSyscalls[name]
		numsS := []int{0, 1, 59, 100000}
		for n := range table {
			numsS = append(numsS, n)
		}
		sort.Ints(numsS)
		for _, n := range numsS {
			for _, typ := range []auparse.AuditMessageType{auparse.AUDIT_SYSCALL, auparse.AUDIT_SECCOMP} {
				msg := fmt.Sprintf("%sarch=%x syscall=%d success=yes exit=0 sig=31 pid=1", c12Hdr, code, n)
				m, _ := auparse.Parse(typ, msg)
				d, err := m.Data()
				ev.Add(1)
				c.Add("arch_syscall_pairs_checked", 1)
				wantSys := strconv.Itoa(n)
				if s, ok := table[n]; ok {
					wantSys = s
				}
				if err != nil || d["arch"] != name || d["syscall"] != wantSys {
					c.Violation("arch-syscall-name", fmt.Sprintf("arch=%x syscall=%d (%s) -> arch=%q syscall=%q err=%v, want %s/%s", code, n, typ, d["arch"], d["syscall"], err, name, wantSys), msg)
				}
			}
		}
	}
	// spot check against x/sys/unix (amd64 numbers)
	for n, want := range map[int]string{unix.SYS_OPEN: "open", unix.SYS_EXECVE: "execve", unix.SYS_CONNECT: "connect", unix.SYS_OPENAT: "openat", unix.SYS_PTRACE: "ptrace", unix.SYS_BPF: "bpf", unix.SYS_SETUID: "setuid", unix.SYS_RENAMEAT2: "renameat2"} {
		msg := fmt.Sprintf("%sarch=c000003e syscall=%d success=yes exit=0 pid=1", c12Hdr, n)
		m, _ := auparse.Parse(auparse.AUDIT_SYSCALL, msg)
		d, err := m.Data()
		ev.Add(1)
		if err != nil || d["syscall"] != want || d["arch"] != "x86_64" {
			c.Violation("syscall-name-vs-x-sys", fmt.Sprintf("x86_64 syscall %d -> %q, x/sys/unix calls it %s", n, d["syscall"], want), msg)
		}
	}
}

func atoi(s string) int { n, _ := strconv.Atoi(s); return n }

func errnoByName(name string) (int, bool) {
	for n := 1; n < 200; n++ {
		if unix.ErrnoName(unix.Errno(n)) == name {
			return n, true
		}
	}
	return 0, false
}

func init() {
	register(&mon.CheckSpec{
		ID: "C12", Level: "exploration",
		Rule: "cases = byte strings of length 1-64 over four alphabets (path-like printable, all bytes 0x01-0xFF, punctuation-heavy with space = quotes backslash, hex look-alikes), excluding only values whose first or last byte is a quote or whose last byte is a backslash, plus the placeholder values on purpose; each written by an independent kernel-style writer (double quotes iff every byte is 0x21-0x7e and not '\"', else upper-case hex) into 12 record positions (SYSCALL/SECCOMP exe, CWD cwd, PATH name, PROCTITLE with embedded NULs, USER_CMD cmd and cwd inside msg='...', TTY/USER_TTY data, USER_LOGIN acct, EXECVE a0..aN with matching argc (N up to 130), plain key=value records); generated IPv4/IPv6/unix socket addresses (boundary + random addresses, every port class, NUL-terminated paths with trailing garbage, 108-byte paths); and EXHAUSTIVELY every errno of the published table, every (arch code, syscall number) pair of the published tables, the result and unset-id rules. distinct_nontrivial = distinct (position, value) pairs whose value needed hex encoding or contained a quote, '=', space or backslash, plus distinct socket addresses.",
		Assumptions: []string{
			"the kernel-style writer follows audit_log_untrustedstring / audit_log_n_hex (and audit_encode_nv_string for user-space records)",
			"EXECVE arguments that are themselves placeholder values are not generated (the statement does not define the record-level result)",
			"IPv6 flow labels are limited to 20 bits and abstract unix sockets are not generated (outside the statement's list)",
		},
		Phases: plainPhase("roundtrip"),
		Run: func(c *mon.Ctx) {
			ev := c.Counter("evaluations")
			nt := c.DistinctSet("nontrivial")
			n := c.Pick(60_000, 15_000_000)
			c.ForEach(n, func(w, i int) {
				r := c.Rand(1, uint64(i))
				v := c12Value(r)
				for _, pos := range c12Positions {
					k := &c12Case{Pos: pos, Value: v}
					var args [][]byte
					if pos == "execve" {
						m := r.Range(0, 5)
						if r.Chance(1, 12) {
							m = mon.Pick(r, []int{9, 10, 11, 12, 25, 99, 100, 101, 130}) // argument indices with two and three digits
						}
						for j := 0; j < m; j++ {
							a := c12Value(r)
							for isPlaceholder(a) {
								a = c12Value(r)
							}
							args = append(args, a)
						}
						if !isPlaceholder(v) {
							args = append(args, v)
						}
						k.Args = args
					}
					typ, msg, want, absent := c12Build(r, pos, v, args)
					c12Eval(c, k, typ, msg, want, absent)
					ev.Add(1)
					c.Add("position_"+pos, 1)
					if logenc.NeedsHex(v) || bytes.ContainsAny(v, `'= \`) {
						nt.AddString(pos + "\x00" + string(v))
					}
					if isPlaceholder(v) {
						c.Add("placeholder_values", 1)
					}
					if c.WantSample() {
						c.Sample(map[string]any{"position": pos, "value": fmt.Sprintf("%q", v), "record": clipStr(msg, 220)})
					}
				}
			})
			ns := c.Pick(60_000, 10_000_000)
			c.ForEach(ns, func(w, i int) {
				r := c.Rand(2, uint64(i))
				s := c12GenSock(r)
				c12SockEval(c, s)
				ev.Add(1)
				c.Add("sockaddr_"+s.Family, 1)
				nt.AddString("S" + s.Saddr)
			})
			if c.Shard == 0 {
				c12Tables(c)
			}
			c.Require("arch_syscall_pairs_checked", 1000)
			c.Require("errno_entries_checked", 100)
			c.Require("placeholder_values", 10)
		},
		Replay: func(c *mon.Ctx, kase json.RawMessage) {
			var k c12Case
			if json.Unmarshal(kase, &k) == nil && k.Pos != "" {
				r := c.Rand(0)
				typ, msg, want, absent := c12Build(r, k.Pos, k.Value, k.Args)
				fmt.Printf("replay: position %s value %q record %q\n", k.Pos, k.Value, msg)
				c12Eval(c, &k, typ, msg, want, absent)
				return
			}
			var s c12Sock
			if json.Unmarshal(kase, &s) == nil && s.Saddr != "" {
				fmt.Printf("replay: saddr=%s\n", s.Saddr)
				c12SockEval(c, &s)
				return
			}
			fmt.Println("replay: table witnesses are re-derived by re-running the check")
			c12Tables(c)
		},
	})
}
