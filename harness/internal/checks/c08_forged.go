package checks

import (
	"errors"
	"fmt"
	"strings"
	"syscall"

	libaudit "github.com/elastic/go-libaudit/v2"

	"verifharness/internal/mon"
	"verifharness/internal/simkernel"
	"verifharness/internal/uapi"
)

// C08 over a REAL netlink socket: "returns nil exactly when the kernel acknowledged that request".  The client
// receives through libaudit.NetlinkClient on a NETLINK_USERSOCK socket (unicast and, for comparison, subscribed
// to group 1); its requests are recorded but never reach a kernel subsystem, and a second user-space socket of
// the same protocol answers each of them with a perfectly formed ACK (errno 0, the request's sequence number,
// port id 0 inside the header).  The kernel acknowledged nothing, so no command may return nil.

type forgedTransport struct {
	nl       *libaudit.NetlinkClient
	port     uint32
	attacker int
	seq      uint32
	sent     int
	sendErr  int
}

func (t *forgedTransport) Send(msg syscall.NetlinkMessage) (uint32, error) {
	t.seq++
	t.sent++
	ack := simkernel.Ack(simkernel.SentMsg{Type: msg.Header.Type, Flags: msg.Header.Flags, Seq: t.seq, Pid: t.port}, 0)
	if err := syscall.Sendto(t.attacker, ack, syscall.MSG_DONTWAIT, &syscall.SockaddrNetlink{Family: syscall.AF_NETLINK, Pid: t.port}); err != nil {
		t.sendErr++
	}
	if msg.Header.Type == uapi.MsgGet {
		st := simkernel.Dgram(uapi.MsgGet, 0, t.seq, 0, make([]byte, uapi.StatusSize))
		syscall.Sendto(t.attacker, st, syscall.MSG_DONTWAIT, &syscall.SockaddrNetlink{Family: syscall.AF_NETLINK, Pid: t.port})
	}
	return t.seq, nil
}

func (t *forgedTransport) Receive(nonBlocking bool, p libaudit.NetlinkParser) ([]syscall.NetlinkMessage, error) {
	return t.nl.Receive(true, p) // never block: when the forged datagram is refused there is nothing else to read
}

func (t *forgedTransport) Close() error { return nil }

func c08ForgedAcks(c *mon.Ctx) {
	for _, groups := range []uint32{0, 1} {
		before := socketInodes()
		nl, err := libaudit.NewNetlinkClient(syscall.NETLINK_USERSOCK, groups, make([]byte, 32768), nil)
		if err != nil {
			c.Note("forged-ack: cannot open a NETLINK_USERSOCK client: %v", err)
			return
		}
		var port uint32
		found := false
		for ino := range socketInodes() {
			if !before[ino] {
				port, found = portIDOfInode(ino)
			}
		}
		fd, err := syscall.Socket(syscall.AF_NETLINK, syscall.SOCK_RAW|syscall.SOCK_CLOEXEC, syscall.NETLINK_USERSOCK)
		if err != nil || !found {
			nl.Close()
			c.Note("forged-ack: no attacker socket / port id (%v)", err)
			return
		}
		syscall.Bind(fd, &syscall.SockaddrNetlink{Family: syscall.AF_NETLINK})
		t := &forgedTransport{nl: nl, port: port, attacker: fd, seq: 100 * (groups + 1)}
		cl := &libaudit.AuditClient{Netlink: t}
		rule := make([]byte, uapi.RuleOffBuf)
		cmds := []struct {
			name string
			call func() error
		}{
			{"AddRule", func() error { return cl.AddRule(rule) }},
			{"DeleteRule", func() error { return cl.DeleteRule(rule) }},
			{"SetEnabled", func() error { return cl.SetEnabled(true, libaudit.WaitForReply) }},
			{"SetRateLimit", func() error { return cl.SetRateLimit(5, libaudit.WaitForReply) }},
			{"SetBacklogLimit", func() error { return cl.SetBacklogLimit(5, libaudit.WaitForReply) }},
			{"SetFailure", func() error { return cl.SetFailure(libaudit.SilentOnFailure, libaudit.WaitForReply) }},
			{"SetBacklogWaitTime", func() error { return cl.SetBacklogWaitTime(1, libaudit.WaitForReply) }},
			{"GetStatus", func() error { _, err := cl.GetStatus(); return err }},
			{"DeleteRules", func() error { _, err := cl.DeleteRules(); return err }},
			{"GetRules", func() error { _, err := cl.GetRules(); return err }},
		}
		for rep := 0; rep < 3; rep++ {
			for _, cmd := range cmds {
				sendErr0 := t.sendErr
				var err error
				if p, st := mon.Try(func() { err = cmd.call() }); p != nil {
					c.Violation("panic", fmt.Sprintf("%s panicked with a forged ACK on the socket: %v\n%s", cmd.name, p, st), nil)
					continue
				}
				c.Add("evaluations", 1)
				if t.sendErr != sendErr0 {
					c.Add("forged_acks_the_kernel_refused_to_deliver", 1)
					continue
				}
				c.Add("commands_answered_by_a_forged_ack_from_user_space", 1)
				if err == nil {
					c.Violation("forged-ack-accepted", fmt.Sprintf("%s returned nil although the only answer on the socket (groups=%d) was an ACK with errno 0 and the request's sequence number sent by ANOTHER user-space netlink socket: the kernel acknowledged nothing", cmd.name, groups), &c08Case{})
				}
				// drain whatever is left so that the next command starts clean
				for i := 0; i < 4; i++ {
					if _, e := nl.Receive(true, func(b []byte) ([]syscall.NetlinkMessage, error) { return nil, nil }); e == syscall.EAGAIN {
						break
					}
				}
			}
		}
		syscall.Close(fd)
		nl.Close()
	}
}

// c08RepeatedCommands: "each command ... reports the kernel's verdict for ITS OWN request": the same command with
// the same argument issued again on one client is a new request with a verdict of its own (the kernel may have
// been made immutable in between): first answered with errno 0, then 1-3 more times with another errno.
func c08RepeatedCommands(c *mon.Ctx) {
	type cmd struct {
		name string
		call func(cl *libaudit.AuditClient) error
	}
	rule := make([]byte, uapi.RuleOffBuf)
	cmds := []cmd{
		{"SetEnabled(true)", func(cl *libaudit.AuditClient) error { return cl.SetEnabled(true, libaudit.WaitForReply) }},
		{"SetEnabled(false)", func(cl *libaudit.AuditClient) error { return cl.SetEnabled(false, libaudit.WaitForReply) }},
		{"SetRateLimit(7)", func(cl *libaudit.AuditClient) error { return cl.SetRateLimit(7, libaudit.WaitForReply) }},
		{"SetBacklogLimit(0)", func(cl *libaudit.AuditClient) error { return cl.SetBacklogLimit(0, libaudit.WaitForReply) }},
		{"SetFailure(silent)", func(cl *libaudit.AuditClient) error {
			return cl.SetFailure(libaudit.SilentOnFailure, libaudit.WaitForReply)
		}},
		{"SetBacklogWaitTime(1)", func(cl *libaudit.AuditClient) error { return cl.SetBacklogWaitTime(1, libaudit.WaitForReply) }},
		{"SetImmutable", func(cl *libaudit.AuditClient) error { return cl.SetImmutable(libaudit.WaitForReply) }},
		{"SetPID", func(cl *libaudit.AuditClient) error { return cl.SetPID(libaudit.WaitForReply) }},
		{"AddRule", func(cl *libaudit.AuditClient) error { return cl.AddRule(rule) }},
		{"DeleteRule", func(cl *libaudit.AuditClient) error { return cl.DeleteRule(rule) }},
	}
	for _, cm := range cmds {
		for _, errno := range []syscall.Errno{syscall.EPERM, syscall.EEXIST, syscall.ENOENT, syscall.EINVAL} {
			for repeats := 1; repeats <= 3; repeats++ {
				sim := simkernel.New(10)
				sim.OnSend = func(s *simkernel.Sim, idx int, m simkernel.SentMsg) []simkernel.Step {
					if idx == 0 {
						return []simkernel.Step{{Dgram: simkernel.Ack(m, 0)}}
					}
					return []simkernel.Step{{Dgram: simkernel.Ack(m, errno)}}
				}
				cl := &libaudit.AuditClient{Netlink: sim}
				c.Add("evaluations", 1)
				c.Add("repeated_identical_commands", 1)
				if err := cm.call(cl); err != nil {
					c.Violation("spurious-error:repeat", fmt.Sprintf("%s, acknowledged with errno 0, returned %v", cm.name, err), &c08Case{})
					continue
				}
				for i := 1; i <= repeats; i++ {
					err := cm.call(cl)
					if len(sim.Sent) != i+1 {
						c.Violation("repeat-not-sent", fmt.Sprintf("call #%d of %s on one client: %d requests reached the kernel, want %d (each call is a request of its own); it returned %v", i+1, cm.name, len(sim.Sent), i+1, err), &c08Case{})
						break
					}
					if err != nil && cm.name == "AddRule" && errno == syscall.EEXIST && strings.Contains(err.Error(), "rule exists") {
						continue // documented text for EEXIST (same exception as in the main oracle)
					}
					if !errors.Is(err, errno) {
						c.Violation("repeat-wrong-verdict", fmt.Sprintf("call #%d of %s was refused by the kernel with errno %d, the client returned %v", i+1, cm.name, int(errno), err), &c08Case{})
						break
					}
				}
			}
		}
	}
}
