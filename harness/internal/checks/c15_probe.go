package checks

import (
	"bufio"
	"bytes"
	"fmt"
	"os"
	"os/exec"
	"path/filepath"
	"sort"
	"strconv"
	"strings"

	"github.com/elastic/go-libaudit/v2/aucoalesce"
	"github.com/elastic/go-libaudit/v2/auparse"

	"verifharness/internal/logenc"
	"verifharness/internal/mon"
)

// Cross-process isolation probe of C15: "producing ... one event never alters ... the outcome for other
// messages".  A fixed list of events is coalesced in the given order by a FRESH process (`vcheck probe
// c15-order <order>`), one line "<index>\t<signature>" per event.  The cold C15 child coalesces the list in
// forward order itself and compares with fresh processes that took it in reverse and in two rotated orders:
// an event's outcome may not depend on which events the process saw before it.  (Within one process only one
// event can ever be the first; whatever a process-wide memo keeps from the first event of a kind is invisible
// to every in-process comparison.)

func c15ProbeEvents() [][]string {
	var evs [][]string
	seq := 9000
	hdr := func() string { seq++; return fmt.Sprintf("audit(1500000000.500:%d):", seq) }
	// record types with several conditional normalisations, one event per candidate (its has_fields present),
	// read from the tree's normalizations.yaml
	if raw, err := os.ReadFile(filepath.Join(logenc.RepoDir(), "aucoalesce", "normalizations.yaml")); err == nil {
		if _, recs, err := aucoalesce.LoadNormalizationConfig(raw); err == nil {
			var types []string
			for t, ns := range recs {
				if len(ns) > 1 {
					types = append(types, t)
				}
			}
			sort.Strings(types)
			for _, t := range types {
				for rep := 0; rep < 2; rep++ {
					for _, n := range recs[t] {
						if t == "AVC" {
							continue // written by hand below, the way SELinux and AppArmor write them
						}
						var kv []string
						for _, f := range n.HasFields.Values {
							kv = append(kv, f+"=v"+strconv.Itoa(seq))
						}
						evs = append(evs, []string{fmt.Sprintf("type=%s msg=%s pid=1 uid=0 auid=1000 ses=3 %s res=success", t, hdr(), strings.Join(kv, " "))})
					}
				}
			}
		}
	}
	for rep := 0; rep < 2; rep++ {
		evs = append(evs,
			[]string{fmt.Sprintf("type=AVC msg=%s avc:  denied  { read } for  pid=1234 comm=\"httpd\" name=\"index.html\" dev=\"sda1\" ino=42 scontext=system_u:system_r:httpd_t:s0 tcontext=unconfined_u:object_r:user_home_t:s0 tclass=file permissive=0", hdr())},
			[]string{fmt.Sprintf("type=AVC msg=%s apparmor=\"DENIED\" operation=\"open\" profile=\"/usr/sbin/cupsd\" name=\"/etc/shadow\" pid=1 comm=\"cupsd\" requested_mask=\"r\" denied_mask=\"r\" fsuid=0 ouid=0", hdr())},
			[]string{fmt.Sprintf("type=AVC msg=%s pid=1 comm=\"neither\" name=\"/x\"", hdr())})
	}
	// compound AVC events (SYSCALL + AVC) of both flavours
	for _, body := range []string{"avc:  granted  { write } for  pid=7 comm=\"sh\" scontext=u:r:t:s0 tcontext=u:object_r:o:s0 tclass=dir", "apparmor=\"ALLOWED\" operation=\"mknod\" profile=\"p\" name=\"/tmp/x\" pid=7 comm=\"sh\" requested_mask=\"c\" denied_mask=\"c\""} {
		h := hdr()
		evs = append(evs, []string{
			fmt.Sprintf("type=AVC msg=%s %s", h, body),
			fmt.Sprintf("type=SYSCALL msg=%s arch=c000003e syscall=2 success=no exit=-13 a0=1 a1=2 a2=3 a3=4 items=0 ppid=1 pid=7 auid=1000 uid=0 gid=0 euid=0 suid=0 fsuid=0 egid=0 sgid=0 fsgid=0 tty=pts0 ses=1 comm=\"sh\" exe=\"/bin/sh\" key=(null)", h),
		})
	}
	// file syscalls with many / few PATH records (what the in-process enumeration does, here across processes)
	for _, sc := range []int{82, 83, 165, 2, 257, 87, 263, 90} {
		for _, np := range []int{4, 1, 2} {
			h := hdr()
			lines := []string{fmt.Sprintf("type=SYSCALL msg=%s arch=c000003e syscall=%d success=yes exit=0 a0=1 a1=2 a2=3 a3=4 items=%d ppid=1 pid=2 auid=1000 uid=0 gid=0 euid=0 suid=0 fsuid=0 egid=0 sgid=0 fsgid=0 tty=pts0 ses=1 comm=\"mv\" exe=\"/bin/mv\" key=(null)", h, sc, np)}
			for i := 0; i < np; i++ {
				lines = append(lines, fmt.Sprintf("type=PATH msg=%s item=%d name=\"/srv/q%d_%d\" inode=%d dev=08:01 mode=0100644 ouid=0 ogid=0 rdev=00:00 nametype=%s", h, i, seq, i, 1000+i, []string{"NORMAL", "CREATE", "DELETE", "NORMAL"}[i%4]))
			}
			evs = append(evs, lines)
		}
	}
	// single-record user-space events of a few types (different normalisations of one table)
	for _, t := range []string{"USER_LOGIN", "USER_AUTH", "CRED_ACQ", "USER_CMD", "LOGIN", "SERVICE_START", "CONFIG_CHANGE"} {
		evs = append(evs, []string{fmt.Sprintf("type=%s msg=%s pid=1 uid=0 auid=1000 ses=3 msg='op=x acct=\"root\" exe=\"/bin/x\" hostname=h addr=192.0.2.1 terminal=ssh res=success'", t, hdr())})
	}
	return evs
}

func c15ProbeOrder(n int, order string) []int {
	idx := make([]int, n)
	for i := range idx {
		idx[i] = i
	}
	switch {
	case order == "reverse":
		for i, j := 0, n-1; i < j; i, j = i+1, j-1 {
			idx[i], idx[j] = idx[j], idx[i]
		}
	case strings.HasPrefix(order, "rot"):
		k, _ := strconv.Atoi(order[3:])
		k %= n
		idx = append(idx[k:], idx[:k]...)
	}
	return idx
}

func c15ProbeRun(order string) map[int]string {
	hardcode()
	evs := c15ProbeEvents()
	out := map[int]string{}
	for _, i := range c15ProbeOrder(len(evs), order) {
		var ms []*auparse.AuditMessage
		for _, l := range evs[i] {
			if m, err := auparse.ParseLogLine(l); err == nil {
				ms = append(ms, m)
			}
		}
		func() {
			defer func() {
				if p := recover(); p != nil {
					out[i] = fmt.Sprintf("panic: %v", p)
				}
			}()
			e, err := aucoalesce.CoalesceMessages(ms)
			out[i] = eventSig(e, err)
		}()
	}
	return out
}

// Probe is the entry point of `vcheck probe <name> <args...>` (a fresh process, no Ctx, result on stdout).
func Probe(args []string) int {
	if len(args) == 2 && args[0] == "c15-order" {
		res := c15ProbeRun(args[1])
		for i := 0; i < len(res); i++ {
			fmt.Printf("%d\t%q\n", i, res[i])
		}
		return 0
	}
	fmt.Fprintln(os.Stderr, "unknown probe")
	return 64
}

func c15CrossProcess(c *mon.Ctx) {
	mine := c15ProbeRun("forward")
	evs := c15ProbeEvents()
	for _, order := range []string{"reverse", "rot1", fmt.Sprintf("rot%d", len(evs)/2), "forward"} {
		cmd := exec.Command(os.Args[0], "probe", "c15-order", order)
		var stderr bytes.Buffer
		cmd.Stderr = &stderr
		b, err := cmd.Output()
		if err != nil {
			c.Inconclusive(fmt.Sprintf("the fresh process for order %s failed: %v %s", order, err, stderr.String()))
			return
		}
		theirs := map[int]string{}
		sc := bufio.NewScanner(bytes.NewReader(b))
		sc.Buffer(make([]byte, 1<<20), 1<<26)
		for sc.Scan() {
			if i := strings.IndexByte(sc.Text(), '\t'); i > 0 {
				n, _ := strconv.Atoi(sc.Text()[:i])
				s, _ := strconv.Unquote(sc.Text()[i+1:])
				theirs[n] = s
			}
		}
		if len(theirs) != len(mine) {
			c.Inconclusive(fmt.Sprintf("the fresh process for order %s reported %d events, want %d", order, len(theirs), len(mine)))
			return
		}
		c.Add("cross_process_orders", 1)
		for i := 0; i < len(mine); i++ {
			c.Add("evaluations", 1)
			c.Add("cross_process_event_comparisons", 1)
			if mine[i] != theirs[i] {
				c.Violation("outcome-depends-on-earlier-events", fmt.Sprintf("event #%d (%s...) coalesces differently in a fresh process that takes the same %d events in order %q than in one that takes them in forward order: %s", i, evs[i][0][:min(len(evs[i][0]), 90)], len(evs), order, diffSig(mine[i], theirs[i])),
					&c15Case{Ops: []string{"cross-process order probe: forward vs " + order, "event: " + strings.Join(evs[i], " || ")}})
				return
			}
		}
	}
	c.Add("cross_process_events", int64(len(evs)))
}
