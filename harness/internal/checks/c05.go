package checks

import (
	"encoding/json"
	"fmt"
	"reflect"
	"strings"
	"sync"
	"time"

	"github.com/elastic/go-libaudit/v2/auparse"

	"verifharness/internal/logenc"
	"verifharness/internal/mon"
)

// C05: the log parser is total (no panic, no hang, idempotent accessors).

type c05Case struct {
	Line  bool   `json:"as_log_line"` // true: ParseLogLine(text); false: Parse(type, text)
	Type  uint16 `json:"type"`
	Text  string `json:"text"`
	TextB []byte `json:"text_bytes"` // exact bytes (Text may be altered by JSON for non-UTF-8)
}

// enrichment paths named in the property + neighbours
var c05Types = []uint16{1300, 1326, 1306, 1309, 1400, 1006, 1302, 1327, 1123, 1319, 1124, 1104, 1105, 1106, 1112, 1307, 1320, 1100, 1305, 1107, 1407, 2404}

func c05Eval(c *mon.Ctx, hw *mon.HangWatch, inf *mon.Inflight, w int, k *c05Case) (returned bool) {
	text := string(k.TextB)
	tag := byte(0)
	if k.Line {
		tag = 1
	}
	inf.Set(w, tag, []byte{byte(k.Type), byte(k.Type >> 8)}, k.TextB)
	hw.Begin(w, k)
	defer hw.End(w)
	var m *auparse.AuditMessage
	var err error
	p, st := mon.Try(func() {
		if k.Line {
			m, err = auparse.ParseLogLine(text)
		} else {
			m, err = auparse.Parse(auparse.AuditMessageType(k.Type), text)
		}
	})
	if p != nil {
		c.Violation("panic:"+mon.PanicSite(st), fmt.Sprintf("parser panicked: %v\n  input (as_log_line=%v type=%d): %q\n%s", p, k.Line, k.Type, clipStr(text, 400), st), k)
		return
	}
	if (m == nil) == (err == nil) {
		c.Violation("nil-xor-error", fmt.Sprintf("parser returned message=%v error=%v (exactly one must be set); input %q", m != nil, err, clipStr(text, 300)), k)
		return
	}
	if m == nil {
		c.Add("inputs_rejected", 1)
		return
	}
	returned = true
	c.Add("messages_returned", 1)
	var d1, d2 map[string]string
	var e1, e2, te1, te2 error
	var t1, t2 []string
	var ms1, ms2 map[string]interface{}
	p, st = mon.Try(func() {
		d1, e1 = m.Data()
		t1, te1 = m.Tags()
		ms1 = deepCopyMapStr(m.ToMapStr())
		d1 = copyMap(d1)
		t1 = append([]string(nil), t1...)
		d2, e2 = m.Data()
		t2, te2 = m.Tags()
		ms2 = m.ToMapStr()
	})
	if p != nil {
		c.Violation("panic:"+mon.PanicSite(st), fmt.Sprintf("Data/Tags/ToMapStr panicked: %v\n  input (as_log_line=%v type=%d): %q\n%s", p, k.Line, k.Type, clipStr(text, 400), st), k)
		return
	}
	errText := func(e error) string {
		if e == nil {
			return ""
		}
		return e.Error()
	}
	if !reflect.DeepEqual(d1, d2) || errText(e1) != errText(e2) {
		c.Violation("data-not-idempotent", fmt.Sprintf("two Data() calls differ: %v (%v) vs %v (%v); input %q", d1, e1, d2, e2, clipStr(text, 300)), k)
	}
	if !equalStrings(t1, t2) || errText(te1) != errText(te2) {
		c.Violation("tags-not-idempotent", fmt.Sprintf("two Tags() calls differ: %v (%v) vs %v (%v); input %q", t1, te1, t2, te2, clipStr(text, 300)), k)
	}
	if !reflect.DeepEqual(ms1, ms2) {
		c.Violation("mapstr-not-idempotent", fmt.Sprintf("two ToMapStr() calls differ: %v vs %v; input %q", ms1, ms2, clipStr(text, 300)), k)
	}
	// "repeated calls ... on the same message return the same result" also when OTHER messages were parsed and
	// decoded in between: the previous message of this worker (kept with a deep copy of its first Data() whose
	// strings do not share memory with the library's) is asked again now
	if prev := c05Prev[w%len(c05Prev)]; prev != nil {
		var again map[string]string
		if p, _ := mon.Try(func() { again, _ = prev.m.Data() }); p == nil {
			c.Add("earlier_messages_asked_again_after_other_messages", 1)
			if !reflect.DeepEqual(again, prev.data) {
				c.Violation("data-changed-by-later-message", fmt.Sprintf("Data() of an earlier message changed after another message was parsed and decoded: was %v, now %v; earlier input %q; later input %q", prev.data, again, clipStr(prev.text, 300), clipStr(text, 300)), &c05PairCase{Kind: "pair", First: prev.text, FirstType: prev.typ, FirstLine: prev.line, Second: text, SecondType: k.Type, SecondLine: k.Line})
			}
		}
	}
	c05Prev[w%len(c05Prev)] = nil
	if e1 == nil {
		c05Prev[w%len(c05Prev)] = &c05Retained{m: m, data: cloneMap(d1), text: strings.Clone(text), typ: k.Type, line: k.Line}
	}
	if e1 != nil {
		c.Add("data_errors_observed", 1)
		if got, _ := ms1["error"].(string); got != e1.Error() {
			c.Violation("mapstr-error-key", fmt.Sprintf("Data() failed with %q but ToMapStr()[\"error\"] = %v; input %q", e1, ms1["error"], clipStr(text, 300)), k)
		}
		if errText(te1) != errText(e1) {
			c.Violation("tags-error-differs", fmt.Sprintf("Data() error %q but Tags() error %q", e1, errText(te1)), k)
		}
	} else {
		if _, has := ms1["error"]; has {
			c.Violation("mapstr-spurious-error", fmt.Sprintf("Data() succeeded but ToMapStr has error=%v; input %q", ms1["error"], clipStr(text, 300)), k)
		}
		if len(t1) > 0 {
			c.Add("messages_with_tags", 1)
		}
	}
	return returned
}

type c05Retained struct {
	m    *auparse.AuditMessage
	data map[string]string
	text string
	typ  uint16
	line bool
}

var c05Prev [512]*c05Retained

type c05PairCase struct {
	Kind       string `json:"kind"`
	First      string `json:"first"`
	FirstType  uint16 `json:"first_type,omitempty"`
	FirstLine  bool   `json:"first_as_log_line,omitempty"`
	Second     string `json:"second"`
	SecondType uint16 `json:"second_type,omitempty"`
	SecondLine bool   `json:"second_as_log_line,omitempty"`
}

// cloneMap copies keys and values into fresh memory.
func cloneMap(m map[string]string) map[string]string {
	if m == nil {
		return nil
	}
	o := make(map[string]string, len(m))
	for k, v := range m {
		o[strings.Clone(k)] = strings.Clone(v)
	}
	return o
}

var c05HexLines = []string{
	`type=EXECVE msg=audit(1500000000.100:1): argc=2 a0=68656C6C6F20776F726C64 a1=7365636F6E6420617267`,
	`type=EXECVE msg=audit(1500000000.100:2): argc=3 a0="ls" a1=2D6C2061 a2=2F746D702F612062`,
	`type=PROCTITLE msg=audit(1500000000.100:3): proctitle=2F62696E2F7368002D63006563686F206869`,
	`type=PATH msg=audit(1500000000.100:4): item=0 name=2F746D702F776974682073706163652F66 inode=5 dev=08:01 mode=0100644 ouid=0 ogid=0 rdev=00:00 nametype=NORMAL`,
	`type=CWD msg=audit(1500000000.100:5): cwd=2F686F6D652F6D792064697220`,
	`type=SYSCALL msg=audit(1500000000.100:6): arch=c000003e syscall=59 success=yes exit=0 a0=1 a1=2 a2=3 a3=4 items=2 ppid=1 pid=2 auid=1000 uid=0 gid=0 euid=0 suid=0 fsuid=0 egid=0 sgid=0 fsgid=0 tty=pts0 ses=1 comm=6D7920636F6D6D exe=2F6F70742F6D79206170702F62696E key=(null)`,
	`type=SOCKADDR msg=audit(1500000000.100:7): saddr=01002F72756E2F6D7920736F636B657400`,
	`type=SOCKADDR msg=audit(1500000000.100:8): saddr=020000357F0000010000000000000000`,
	`type=USER_CMD msg=audit(1500000000.100:9): pid=1 uid=0 auid=1000 ses=1 msg='cwd=2F726F6F742F6D7920646972 cmd=6C73202D6C61202F746D70 terminal=pts/0 res=success'`,
	`type=TTY msg=audit(1500000000.100:10): tty pid=1 uid=0 auid=1000 ses=1 major=136 minor=0 comm="bash" data=6C73202D6C0D`,
	`type=SECCOMP msg=audit(1500000000.100:11): auid=1000 uid=0 gid=0 ses=1 pid=2 comm=6D7920636F6D6D exe=2F6F70742F6D79206170702F78 sig=31 arch=c000003e syscall=2 compat=0 ip=0x7f code=0x0`,
	`type=EXECVE msg=audit(1500000000.100:12): argc=1 a0=5A5A5A5A5A5A5A5A5A5A5A5A5A5A5A5A5A5A5A5A5A5A5A5A5A5A5A5A5A5A5A5A`,
	`type=AVC msg=audit(1500000000.100:13): avc:  denied  { read } for  pid=1 comm=6D7920636F6D6D name=6D792066696C65 dev="sda1" ino=2 scontext=u:r:t:s0 tcontext=u:object_r:o:s0 tclass=file`,
}

// c05Pairs: every ordered pair (and every triple A, B, A') of records whose values the parser hex-decodes: A is
// parsed and decoded (deep copy kept), then B, then A's Data / Tags / ToMapStr are asked again.
func c05Pairs(c *mon.Ctx) {
	type snap struct {
		m    *auparse.AuditMessage
		data map[string]string
		ms   map[string]interface{}
	}
	take := func(line string) *snap {
		m, err := auparse.ParseLogLine(line)
		if err != nil {
			return nil
		}
		d, err := m.Data()
		if err != nil {
			return nil
		}
		return &snap{m: m, data: cloneMap(d), ms: deepCopyMapStr(m.ToMapStr())}
	}
	for i, a := range c05HexLines {
		for j, b := range c05HexLines {
			for _, third := range []int{-1, (i + j) % len(c05HexLines)} {
				var sa *snap
				p, st := mon.Try(func() {
					sa = take(a)
					take(b)
					if third >= 0 {
						take(c05HexLines[third])
					}
				})
				k := &c05PairCase{Kind: "pair", First: a, FirstLine: true, Second: b, SecondLine: true}
				if p != nil {
					c.Violation("panic:"+mon.PanicSite(st), fmt.Sprintf("parser panicked on the pair: %v\n%s", p, st), k)
					continue
				}
				if sa == nil {
					c.Inconclusive("a hand-written hex record is rejected: " + a)
					return
				}
				c.Add("evaluations", 1)
				c.Add("hex_record_pairs", 1)
				again, _ := sa.m.Data()
				if !reflect.DeepEqual(again, sa.data) {
					c.Violation("data-changed-by-later-message", fmt.Sprintf("Data() of %q changed after %q was parsed and decoded: was %v, now %v", clipStr(a, 120), clipStr(b, 120), sa.data, again), k)
					continue
				}
				if ms := deepCopyMapStr(sa.m.ToMapStr()); !reflect.DeepEqual(ms, sa.ms) {
					c.Violation("mapstr-changed-by-later-message", fmt.Sprintf("ToMapStr() of %q changed after %q was parsed and decoded: was %v, now %v", clipStr(a, 120), clipStr(b, 120), sa.ms, ms), k)
				}
			}
		}
	}
}

// c05ConcurrentIndependent: sixteen goroutines parse and decode INDEPENDENT messages at the same time (a log
// shipper with one parser per file). Every record carries values its goroutine alone uses - architecture and
// syscall numbers, exit codes, socket addresses, hex strings no table knows - so that anything the decoder keeps
// between calls is written from several goroutines at once. A fatal runtime error (concurrent map writes) ends
// the child and is reported with the phase name; results are compared with a sequential pass afterwards.
func c05ConcurrentIndependent(c *mon.Ctx) {
	const G = 16
	per := c.Pick(3000, 200000)
	line := func(g, i int) string {
		n := g*per + i
		switch i % 4 {
		case 0:
			return fmt.Sprintf("type=SYSCALL msg=audit(1500000000.100:%d): arch=%x syscall=%d success=no exit=-%d a0=%x a1=2 a2=3 a3=4 items=0 ppid=1 pid=2 auid=%d uid=%d gid=0 euid=0 suid=0 fsuid=0 egid=0 sgid=0 fsgid=0 tty=pts0 ses=%d comm=\"c\" exe=\"/bin/x%d\" key=(null)", n, 0x40000000+n, n%5000, 1+n%4000, n, n, n, n, n)
		case 1:
			return fmt.Sprintf("type=SECCOMP msg=audit(1500000000.100:%d): auid=%d uid=0 gid=0 ses=1 pid=2 comm=\"c\" exe=\"/bin/y\" sig=%d arch=%x syscall=%d compat=0 ip=0x7f code=0x0", n, n, n%200, 0xc0000000+n, n%3000)
		case 2:
			return fmt.Sprintf("type=SOCKADDR msg=audit(1500000000.100:%d): saddr=%04X%04X%08X0000000000000000", n, 2+256*(n%7), n%65536, n)
		}
		return fmt.Sprintf("type=EXECVE msg=audit(1500000000.100:%d): argc=2 a0=%X a1=\"%d\"", n, []byte(fmt.Sprintf("arg %d", n)), n)
	}
	decode := func(l string) string {
		m, err := auparse.ParseLogLine(l)
		if err != nil {
			return "E:" + err.Error()
		}
		d, err := m.Data()
		t, _ := m.Tags()
		return fmt.Sprintf("%v|%v|%v", d, err, t)
	}
	got := make([][]string, G)
	var wg sync.WaitGroup
	start := make(chan struct{})
	for g := 0; g < G; g++ {
		got[g] = make([]string, per)
		wg.Add(1)
		go func(g int) {
			defer wg.Done()
			<-start
			for i := 0; i < per; i++ {
				got[g][i] = decode(line(g, i))
			}
		}(g)
	}
	close(start)
	wg.Wait()
	c.Add("evaluations", int64(G*per))
	c.Add("independent_messages_decoded_concurrently", int64(G*per))
	for g := 0; g < G; g++ {
		for i := 0; i < per; i += 7 {
			if want := decode(line(g, i)); want != got[g][i] {
				c.Violation("concurrent-decode-differs", fmt.Sprintf("a message decoded while 15 other goroutines decoded other messages gives %s, decoded alone %s; input %q", clipStr(got[g][i], 300), clipStr(want, 300), line(g, i)), &c05Case{Line: true, Text: line(g, i)})
				return
			}
		}
	}
}

func copyMap(m map[string]string) map[string]string {
	if m == nil {
		return nil
	}
	o := make(map[string]string, len(m))
	for k, v := range m {
		o[k] = v
	}
	return o
}

func equalStrings(a, b []string) bool {
	if len(a) != len(b) {
		return false
	}
	for i := range a {
		if a[i] != b[i] {
			return false
		}
	}
	return true
}

func init() {
	register(&mon.CheckSpec{
		ID: "C05", Level: "exploration",
		Rule: "cases = (a) the 222 real records under /repo/**/testdata mutated by 1-4 seeded operators (byte flip, truncation, token delete/duplicate/swap, splice of ~120 hostile fragments, saddr fields of every length 0-60 x 8 families, hostile values, random bytes, 64 KiB fields), (b) pure random byte strings, (c) every mutated body also evaluated through Parse under each record type that selects its own enrichment path plus random types; thorough adds a sweep of ALL 65536 record types over a body subset. Each returned message has Data/Tags/ToMapStr called twice. Before the fuzz loop: all 338 ordered pairs / triples of 13 records with hex-decoded values (A decoded and copied with cloned strings, B decoded, A asked again), and sixteen goroutines decoding 48 000 / 3.2 M independent records with goroutine-private architecture / syscall / errno / address values (compared with a sequential pass); inside the loop every worker asks its previous message again after the next one was decoded. Also enumerated: every prefix of 40 real records (as a log line and as a body) and headers whose numbers have 0-40 digits. distinct_nontrivial = distinct (type, input text) pairs for which the parser returned a message (so the enrichment code ran).",
		Assumptions: []string{
			"hang monitor: a call still running after 30 s (inputs <= 64 KiB; normal cost microseconds to milliseconds) is a hang; the monitor ends the phase when it fires",
			"a panic is recovered per call and attributed to its input; fatal runtime errors are attributed through the in-flight slots",
		},
		Phases: func(string) []mon.PhaseSpec {
			// 16 GiB of address space: a parser that allocates from input numbers dies here (fatal, with the in-flight input) instead of exhausting the machine
			return []mon.PhaseSpec{{Name: "fuzz", Flavour: "plain", UlimitVKB: 16 << 20}}
		},
		Run: func(c *mon.Ctx) {
			corpus := logenc.Corpus()
			if len(corpus) < 100 {
				c.Inconclusive(fmt.Sprintf("corpus has only %d records", len(corpus)))
				return
			}
			saddrs := logenc.Saddrs()
			hw := c.NewHangWatch(30*time.Second, true)
			defer hw.Stop()
			inf := c.NewInflight()
			ev := c.Counter("evaluations")
			nt := c.DistinctSet("nontrivial")
			n := c.Pick(120_000, 20_000_000)
			eval := func(w int, k *c05Case) {
				k.TextB = []byte(k.Text)
				if c05Eval(c, hw, inf, w, k) {
					if k.Line {
						nt.AddString("L" + k.Text)
					} else {
						nt.AddString(fmt.Sprint(k.Type) + k.Text)
					}
				}
				ev.Add(1)
				if c.WantSample() {
					c.Sample(map[string]any{"as_log_line": k.Line, "type": k.Type, "text": clipStr(k.Text, 160)})
				}
			}
			c05Pairs(c)
			c05ConcurrentIndependent(c)
			// enumerated: every prefix of 40 real records (a line cut anywhere: in the header, right after the closing
			// parenthesis, in the middle of a value), and headers whose numbers have 0-40 digits
			for i := 0; i < 40 && i < len(corpus); i++ {
				l := corpus[(i*7)%len(corpus)]
				for cut := 0; cut <= len(l) && cut < 400; cut++ {
					eval(0, &c05Case{Line: true, Text: l[:cut]})
					if j := strings.Index(l[:cut], "msg="); j >= 0 {
						eval(0, &c05Case{Type: c05Types[cut%len(c05Types)], Text: l[j+4 : cut]})
					}
					c.Add("truncated_real_records", 1)
				}
			}
			for nd := 0; nd <= 40; nd++ {
				d := strings.Repeat("0", nd/2) + strings.Repeat("7", nd-nd/2)
				for _, hdr := range []string{"audit(1490137971." + d + ":50406): a=1", "audit(" + d + ".011:50406): a=1", "audit(1490137971.011:" + d + "): a=1", "audit(1490137971." + strings.Repeat("0", nd) + "7:5): a=1", "audit(1490137971." + d + ":50406)"} {
					eval(0, &c05Case{Line: true, Text: "type=SYSCALL msg=" + hdr})
					eval(0, &c05Case{Type: 1300, Text: hdr})
					c.Add("headers_with_long_numbers", 1)
				}
			}
			c.ForEach(n, func(w, i int) {
				r := c.Rand(1, uint64(i))
				var line string
				switch {
				case i < len(corpus):
					line = corpus[i] // unmutated
				case r.Chance(1, 12):
					line = string(r.Bytes(r.Range(0, 120)))
					if r.Bool() {
						line = "type=SYSCALL msg=audit(1.000:1): " + line
					}
				default:
					line = logenc.Mutate(r, mon.Pick(r, corpus), saddrs)
				}
				eval(w, &c05Case{Line: true, Text: line})
				// the same body through Parse under specific types
				body := line
				if j := strings.Index(line, "msg="); j >= 0 {
					body = line[j+4:]
				}
				for j := 0; j < 3; j++ {
					typ := mon.Pick(r, c05Types)
					if r.Chance(1, 6) {
						typ = uint16(r.Intn(65536))
					}
					eval(w, &c05Case{Type: typ, Text: body})
				}
			})
			if c.Thorough {
				// all 65536 types over a body subset
				bodies := make([]string, 0, 48)
				for i := 0; len(bodies) < 48; i++ {
					r := c.Rand(2, uint64(i))
					l := logenc.Mutate(r, mon.Pick(r, corpus), saddrs)
					if j := strings.Index(l, "msg="); j >= 0 {
						bodies = append(bodies, l[j+4:])
					}
				}
				c.ForEach(65536*len(bodies), func(w, i int) {
					eval(w, &c05Case{Type: uint16(i % 65536), Text: bodies[i/65536]})
				})
				c.Add("all_types_sweep_bodies", int64(len(bodies)))
			}
			c.Require("messages_returned", 1000)
			c.Require("inputs_rejected", 100)
			c.Require("data_errors_observed", 100)
		},
		Replay: func(c *mon.Ctx, kase json.RawMessage) {
			var pk c05PairCase
			if json.Unmarshal(kase, &pk) == nil && pk.Kind == "pair" {
				fmt.Printf("replay: pair\n  first  %q\n  second %q\n", pk.First, pk.Second)
				parse := func(text string, typ uint16, line bool) *auparse.AuditMessage {
					var m *auparse.AuditMessage
					if line {
						m, _ = auparse.ParseLogLine(text)
					} else {
						m, _ = auparse.Parse(auparse.AuditMessageType(typ), text)
					}
					return m
				}
				a := parse(pk.First, pk.FirstType, pk.FirstLine)
				if a == nil {
					return
				}
				d, _ := a.Data()
				was := cloneMap(d)
				if b := parse(pk.Second, pk.SecondType, pk.SecondLine); b != nil {
					b.Data()
				}
				if again, _ := a.Data(); !reflect.DeepEqual(again, was) {
					c.Violation("data-changed-by-later-message", fmt.Sprintf("was %v, now %v", was, again), &pk)
				}
				return
			}
			var k c05Case
			if json.Unmarshal(kase, &k) != nil {
				return
			}
			if k.TextB == nil {
				k.TextB = []byte(k.Text)
			}
			hw := c.NewHangWatch(30*time.Second, true)
			defer hw.Stop()
			fmt.Printf("replay: as_log_line=%v type=%d text=%q\n", k.Line, k.Type, string(k.TextB))
			c05Eval(c, hw, &mon.Inflight{}, 0, &k)
		},
		ReplayInflight: func(c *mon.Ctx, rec mon.InflightRecord) {
			if len(rec.Parts) < 2 || len(rec.Parts[0]) < 2 {
				return
			}
			k := &c05Case{Line: rec.Tag == 1, Type: uint16(rec.Parts[0][0]) | uint16(rec.Parts[0][1])<<8, TextB: rec.Parts[1]}
			hw := c.NewHangWatch(30*time.Second, true)
			defer hw.Stop()
			fmt.Printf("replay: as_log_line=%v type=%d text=%q\n", k.Line, k.Type, string(k.TextB))
			c05Eval(c, hw, &mon.Inflight{}, 0, k)
		},
	})
}

// deepCopyMapStr copies the map and the slices / maps in it, so that a later call that rewrites storage the
// first result still points into cannot make the two results look equal.
func deepCopyMapStr(m map[string]interface{}) map[string]interface{} {
	out := make(map[string]interface{}, len(m))
	for k, v := range m {
		switch x := v.(type) {
		case string:
			out[k] = strings.Clone(x)
		case []string:
			cp := make([]string, len(x))
			for i := range x {
				cp[i] = strings.Clone(x[i])
			}
			out[k] = cp
		case map[string]string:
			out[k] = cloneMap(x)
		case map[string]interface{}:
			out[k] = deepCopyMapStr(x)
		default:
			out[k] = v
		}
	}
	return out
}
