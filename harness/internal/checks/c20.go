package checks

import (
	"encoding/json"
	"fmt"
	"os"
	"path/filepath"
	"reflect"
	"sort"
	"strconv"
	"strings"
	"sync"
	"sync/atomic"

	"github.com/elastic/go-libaudit/v2/aucoalesce"
	"github.com/elastic/go-libaudit/v2/auparse"
	"github.com/elastic/go-libaudit/v2/rule"
	"github.com/elastic/go-libaudit/v2/rule/flags"
	"gopkg.in/yaml.v3"

	"verifharness/internal/logenc"
	"verifharness/internal/mon"
	"verifharness/internal/rulegen"
	"verifharness/internal/uapi"
)

// C20: name/number tables are mutually inverse and internally consistent (exhaustive).

func c20Pass(c *mon.Ctx) {
	ev := c.Counter("evaluations")
	nt := c.DistinctSet("nontrivial")
	bad := func(sig, f string, a ...any) { c.Violation(sig, fmt.Sprintf(f, a...), fmt.Sprintf(f, a...)) }
	reps := c.Pick(32, 400)

	// ---- (0) categorisation must not depend on what was categorised before: the very first sweep of this
	// fresh process runs in DESCENDING order, then ascending, then shuffled orders; all must agree ----
	desc := make([]aucoalesce.AuditEventType, 65536)
	for i := 65535; i >= 0; i-- {
		desc[i] = aucoalesce.GetAuditEventType(auparse.AuditMessageType(i))
	}
	orderRand := c.Rand(77)
	order := make([]int, 65536)
	for i := range order {
		order[i] = i
	}
	for pass := 0; pass < c.Pick(4, 40); pass++ {
		if pass > 0 {
			mon.Shuffle(orderRand, order)
		}
		for _, i := range order {
			ev.Add(1)
			if got := aucoalesce.GetAuditEventType(auparse.AuditMessageType(i)); got != desc[i] {
				bad("category-depends-on-history", "record type %d was categorised %q in the first (descending) sweep of this process and %q in a later sweep", i, desc[i], got)
				pass = 1 << 30
				break
			}
		}
	}
	c.Add("categorisation_order_sweeps", 1)

	// ---- (1) all 65536 record type codes ----
	names := map[string]uint16{}
	c.ForEach(65536, func(w, i int) {
		t := auparse.AuditMessageType(i)
		name := t.String()
		ev.Add(1)
		for _, variant := range []string{name, strings.ToLower(name), strings.ToUpper(name)} {
			back, err := auparse.GetAuditMessageType(variant)
			if err != nil || back != t {
				bad("type-roundtrip", "record type %d prints as %q, which converts back to (%d, %v)", i, variant, back, err)
				return
			}
		}
		txt, err := t.MarshalText()
		var u auparse.AuditMessageType
		if err != nil || u.UnmarshalText(txt) != nil || u != t {
			bad("type-text-marshalling", "record type %d marshals to %q, which unmarshals to %d", i, txt, u)
		}
		// the returned bytes belong to the caller: writing into them must not change what the type marshals to next
		want := string(txt)
		for j := range txt {
			txt[j] = '?'
		}
		if again, err := t.MarshalText(); err != nil || string(again) != want {
			bad("type-text-marshalling-aliased", "record type %d marshalled to %q; after the caller overwrote those bytes it marshals to %q", i, want, again)
		}
		first := aucoalesce.GetAuditEventType(t)
		for k := 0; k < 64*reps; k++ {
			if aucoalesce.GetAuditEventType(t) != first {
				bad("type-nondeterministic", "record type %d is categorised differently on call %d than on the first call", i, k)
				break
			}
		}
		for k := 0; k < reps; k++ {
			if t.String() != name {
				bad("type-nondeterministic", "record type %d is not named the same on repeated calls", i)
			}
		}
		if !strings.HasPrefix(name, "UNKNOWN[") {
			nt.AddString("type:" + name)
		}
	})
	for i := 0; i < 65536; i++ {
		n := auparse.AuditMessageType(i).String()
		if prev, dup := names[n]; dup {
			bad("type-name-shared", "record types %d and %d print the same name %q", prev, i, n)
		}
		names[n] = uint16(i)
	}
	c.Add("record_type_codes", 65536)
	c.Add("named_record_types", int64(nt.Len()))
	// categorisation is the same under concurrency
	cat := make([]aucoalesce.AuditEventType, 65536)
	for i := range cat {
		cat[i] = aucoalesce.GetAuditEventType(auparse.AuditMessageType(i))
	}
	var wg sync.WaitGroup
	for g := 0; g < 8; g++ {
		wg.Add(1)
		go func() {
			defer wg.Done()
			for i := 0; i < 65536; i++ {
				if aucoalesce.GetAuditEventType(auparse.AuditMessageType(i)) != cat[i] {
					bad("category-nondeterministic", "record type %d categorised differently under concurrency", i)
					return
				}
			}
		}()
	}
	wg.Wait()
	// the independent spot table agrees
	for n, v := range uapi.MsgTypes {
		t, err := auparse.GetAuditMessageType(n)
		ev.Add(1)
		if err != nil || uint32(t) != v {
			bad("type-vs-uapi", "record type name %s = %d (%v), linux/audit.h says %d", n, t, err, v)
		}
	}

	// ---- (2) errno ----
	for num, name := range auparse.AuditErrnoToName {
		ev.Add(1)
		nt.AddString("errno:" + name)
		if back, ok := auparse.AuditErrnoToNum[name]; !ok || back != num {
			bad("errno-roundtrip", "errno %d is named %s, which maps back to (%d, %v)", num, name, back, ok)
		}
	}
	for name, num := range auparse.AuditErrnoToNum {
		ev.Add(1)
		canon, ok := auparse.AuditErrnoToName[num]
		if !ok {
			bad("errno-name-without-number", "errno name %s = %d has no number->name entry", name, num)
			continue
		}
		if auparse.AuditErrnoToNum[canon] != num {
			bad("errno-alias", "alias %s -> %d -> %s -> %d does not resolve to one number", name, num, canon, auparse.AuditErrnoToNum[canon])
		}
		if sys, known := rulegen.ErrnoByName[name]; known && sys != num {
			bad("errno-vs-x-sys", "errno %s = %d, x/sys/unix says %d", name, num, sys)
		}
	}
	c.Add("errno_entries", int64(len(auparse.AuditErrnoToName)+len(auparse.AuditErrnoToNum)))
	// every conversion path of the library that maps errno numbers and names uses the whole table:
	// the parser's exit= enrichment, the rule encoder's "-F exit=-NAME" and the rule printer
	for num, name := range auparse.AuditErrnoToName {
		ev.Add(1)
		line := fmt.Sprintf("type=SYSCALL msg=audit(1700000000.001:%d): arch=c000003e syscall=2 success=no exit=-%d a0=0 items=0 pid=1", 100+num, num)
		if m, err := auparse.ParseLogLine(line); err != nil {
			bad("errno-parser", "parsing %q failed: %v", line, err)
		} else if d, err := m.Data(); err != nil || d["exit"] != name {
			bad("errno-parser", "exit=-%d is reported as %q (err=%v) by the parser, the errno table names it %s", num, d["exit"], err, name)
		}
		// a positive return value is not an errno
		line = fmt.Sprintf("type=SYSCALL msg=audit(1700000000.001:%d): arch=c000003e syscall=2 success=yes exit=%d a0=0 items=0 pid=1", 100+num, num)
		if m, err := auparse.ParseLogLine(line); err == nil {
			if d, err := m.Data(); err != nil || d["exit"] != strconv.Itoa(num) {
				bad("errno-parser-positive", "exit=%d is reported as %q (err=%v) by the parser", num, d["exit"], err)
			}
		}
	}
	c.Add("errno_numbers_through_parser", int64(len(auparse.AuditErrnoToName)))
	for name, num := range auparse.AuditErrnoToNum {
		for _, neg := range []bool{true, false} {
			ev.Add(1)
			rhs, want := name, int32(num)
			if neg {
				rhs, want = "-"+name, int32(-num)
			}
			line := "-a always,exit -S open -F exit=" + rhs
			r, err := flags.Parse(line)
			if err != nil {
				bad("errno-rule", "%q does not parse: %v", line, err)
				continue
			}
			wire, err := rule.Build(r)
			if err != nil {
				bad("errno-rule", "%q does not build: %v", line, err)
				continue
			}
			dec, derr := rulegen.Decode(wire)
			if derr != nil || dec.FieldCount != 1 || dec.Fields[0] != uapi.Fields["exit"] || int32(dec.Values[0]) != want {
				bad("errno-rule", "%q encodes as %+v (%v), want exit value %d", line, dec, derr, want)
				continue
			}
			back, err := rule.ToCommandLine(wire, false)
			wantText := "exit=" + strconv.Itoa(int(want))
			if neg {
				wantText = "exit=-" + auparse.AuditErrnoToName[num]
			}
			if err != nil || !strings.Contains(back+" ", "-F "+wantText+" ") {
				bad("errno-rule-print", "%q prints back as %q (%v), want it to contain -F %s", line, back, err, wantText)
			}
		}
	}
	c.Add("errno_names_through_rule_encoder", int64(2*len(auparse.AuditErrnoToNum)))
	// an exit value is an errno name only when it IS minus that errno: numbers that merely share low bits with one
	// (-n + k*2^16, -n - k*2^16, ...) print as numbers and come back as the same value
	for num := range auparse.AuditErrnoToName {
		for _, v := range []int64{int64(65536 - num), int64(1048576 - num), int64(-65536 - num), int64(131072 - num), int64(-num) - 1<<24, int64(256 - num), int64(-num) + 1<<30} {
			if v < -(1<<31) || v >= 1<<31 {
				continue
			}
			ev.Add(1)
			line := "-a always,exit -S open -F exit=" + strconv.FormatInt(v, 10)
			r, err := flags.Parse(line)
			if err != nil {
				continue
			}
			wire, err := rule.Build(r)
			if err != nil {
				continue
			}
			c.Add("exit_values_congruent_to_an_errno", 1)
			back, err := rule.ToCommandLine(wire, false)
			if err != nil {
				bad("errno-congruent-print", "%q: ToCommandLine: %v", line, err)
				continue
			}
			r2, err := flags.Parse(back)
			var wire2 rule.WireFormat
			if err == nil {
				wire2, err = rule.Build(r2)
			}
			if err != nil || string(wire2) != string(wire) {
				bad("errno-congruent-roundtrip", "%q prints back as %q, which re-encodes differently (%v): the value is not minus errno %d, it only shares low bits with it", line, back, err, num)
			}
		}
	}

	// ---- (3) architectures ----
	tables := rule.VerifExportTables()
	archByName := map[string]auparse.AuditArch{}
	for code, name := range auparse.AuditArchNames {
		ev.Add(1)
		nt.AddString("arch:" + name)
		if prev, dup := archByName[name]; dup {
			bad("arch-name-shared", "architecture name %s is used for codes %#x and %#x", name, uint32(prev), uint32(code))
		}
		archByName[name] = code
		if code.String() != name {
			bad("arch-string", "AuditArch(%#x).String() = %q, table says %q", uint32(code), code.String(), name)
		}
		if back, ok := tables.ReverseArch[name]; !ok || back != uint32(code) {
			bad("arch-reverse-table", "rule package resolves arch %s to (%#x, %v), want %#x", name, back, ok, uint32(code))
		}
		if want, ok := uapi.Arches[name]; ok && want != uint32(code) {
			bad("arch-vs-uapi", "arch %s = %#x, linux/audit.h says %#x", name, uint32(code), want)
		}
		// through Build / ToCommandLine
		for _, op := range []string{"=", "!="} {
			line := fmt.Sprintf("-a always,exit -F arch%s%s", op, name)
			r, err := flags.Parse(line)
			if err != nil {
				bad("arch-rule-parse", "%s: %v", line, err)
				continue
			}
			w, err := rule.Build(r)
			if err != nil {
				bad("arch-rule-build", "%s: %v", line, err)
				continue
			}
			d, _ := rulegen.Decode(w)
			if d.FieldCount != 1 || d.Fields[0] != uapi.Fields["arch"] || d.Values[0] != uint32(code) {
				bad("arch-rule-value", "%s encodes arch value %#x, want %#x", line, d.Values[0], uint32(code))
			}
			txt, err := rule.ToCommandLine(w, false)
			if err != nil {
				bad("arch-rule-decode", "%s: ToCommandLine: %v", line, err)
				continue
			}
			r2, err := flags.Parse(txt)
			if err == nil {
				var w2 rule.WireFormat
				if w2, err = rule.Build(r2); err == nil && string(w2) != string(w) {
					err = fmt.Errorf("re-encoding %q gives different bytes", txt)
				}
			}
			if err != nil {
				bad("arch-rule-roundtrip", "%s -> %q: %v", line, txt, err)
			}
		}
	}
	c.Add("arch_entries", int64(len(auparse.AuditArchNames)))

	// ---- (4) per-arch syscall tables: a name maps to one number ----
	archNames := make([]string, 0, len(auparse.AuditSyscalls))
	for a := range auparse.AuditSyscalls {
		archNames = append(archNames, a)
	}
	sort.Strings(archNames)
	allSyscallNames := map[string]bool{}
	var pairs int64
	for _, arch := range archNames {
		table := auparse.AuditSyscalls[arch]
		byName := map[string]int{}
		nums := make([]int, 0, len(table))
		for n := range table {
			nums = append(nums, n)
		}
		sort.Ints(nums)
		_, archKnown := archByName[arch]
		for _, n := range nums {
			name := table[n]
			ev.Add(1)
			pairs++
			allSyscallNames[name] = true
			nt.AddString("sys:" + arch + ":" + name)
			if prev, dup := byName[name]; dup {
				bad("syscall-name-two-numbers", "arch %s: syscall name %s is listed for numbers %d and %d", arch, name, prev, n)
				continue
			}
			byName[name] = n
			if rev, ok := tables.ReverseSyscall[arch][name]; !ok || rev != n {
				bad("syscall-reverse-table", "arch %s: rule package resolves %s to (%d, %v), table says %d", arch, name, rev, ok, n)
			}
			if n < 0 || n >= 2048 || !archKnown {
				continue
			}
			// through a rule: -F arch=<arch> -S <name> sets exactly bit n and prints the name back
			line := fmt.Sprintf("-a always,exit -F arch=%s -S %s", arch, name)
			r, err := flags.Parse(line)
			if err != nil {
				bad("syscall-rule-parse", "%s: %v", line, err)
				continue
			}
			w, err := rule.Build(r)
			if err != nil {
				bad("syscall-rule-build", "%s: %v", line, err)
				continue
			}
			d, _ := rulegen.Decode(w)
			var want [64]uint32
			want[n/32] = 1 << (uint(n) % 32)
			if d.Mask != want {
				bad("syscall-rule-mask", "%s does not set exactly bit %d", line, n)
				continue
			}
			txt, err := rule.ToCommandLine(w, false)
			if err != nil {
				bad("syscall-rule-decode", "%s: ToCommandLine: %v", line, err)
				continue
			}
			if r2, err := flags.Parse(txt); err != nil {
				bad("syscall-rule-roundtrip", "%s -> %q: %v", line, txt, err)
			} else if w2, err := rule.Build(r2); err != nil || string(w2) != string(w) {
				bad("syscall-rule-roundtrip", "%s -> %q re-encodes differently (%v)", line, txt, err)
			}
		}
	}
	c.Add("arch_syscall_pairs", pairs)
	// spot table
	for name, n := range rulegen.SpotX8664 {
		ev.Add(1)
		if auparse.AuditSyscalls["x86_64"][n] != name {
			bad("syscall-vs-x-sys", "x86_64 syscall %d is %q in the table, x/sys/unix calls it %s", n, auparse.AuditSyscalls["x86_64"][n], name)
		}
	}
	for name, n := range rulegen.SpotI386 {
		ev.Add(1)
		if auparse.AuditSyscalls["i386"][n] != name {
			bad("syscall-vs-spot-i386", "i386 syscall %d is %q in the table, syscall_32.tbl calls it %s", n, auparse.AuditSyscalls["i386"][n], name)
		}
	}

	// ---- (5) rule field / operator / comparison tables (hook) vs UAPI and through Build/ToCommandLine ----
	for name, code := range tables.Fields {
		ev.Add(1)
		nt.AddString("field:" + name)
		if want, ok := uapi.Fields[name]; !ok || want != code {
			bad("field-vs-uapi", "rule field %s = %d, linux/audit.h says (%d, known=%v)", name, code, want, ok)
		}
		if tables.ReverseFields[code] != name {
			bad("field-reverse", "field code %d prints as %q, want %q (two names share a code?)", code, tables.ReverseFields[code], name)
		}
	}
	for name := range uapi.Fields {
		if _, ok := tables.Fields[name]; !ok {
			bad("field-missing", "UAPI field %s is not in the rule field table", name)
		}
	}
	for name, code := range tables.Operators {
		ev.Add(1)
		nt.AddString("op:" + name)
		if want, ok := uapi.Operators[name]; !ok || want != code {
			bad("operator-vs-uapi", "operator %q = %#x, linux/audit.h says (%#x, known=%v)", name, code, want, ok)
		}
		if tables.ReverseOperators[code] != name {
			bad("operator-reverse", "operator code %#x prints as %q, want %q", code, tables.ReverseOperators[code], name)
		}
	}
	if len(tables.Operators) != len(uapi.Operators) {
		bad("operator-count", "%d operators in the rule table, %d in linux/audit.h", len(tables.Operators), len(uapi.Operators))
	}
	// every operator table entry through the text form: '-F a0<op>3' / '-F pid<op>3' must reach Build as that
	// operator (the flag parser has its own list of operator spellings), encode its code and print back.
	for name, code := range tables.Operators {
		for _, fld := range []string{"a0", "pid", "exit"} {
			ev.Add(1)
			line := fmt.Sprintf("-a always,exit -S 1 -F %s%s3", fld, name)
			r, err := flags.Parse(line)
			if err != nil {
				bad("operator-rule-parse", "%s: %v", line, err)
				continue
			}
			w, err := rule.Build(r)
			if err != nil {
				bad("operator-rule-build", "%s: operator %q of the table does not survive the flag parser: %v", line, name, err)
				continue
			}
			d, _ := rulegen.Decode(w)
			if d.FieldCount != 1 || d.Fields[0] != uapi.Fields[fld] || d.FieldFlags[0] != code || d.Values[0] != 3 {
				bad("operator-rule-code", "%s encodes field %d operator %#x value %d, want %d %#x 3", line, d.Fields[0], d.FieldFlags[0], d.Values[0], uapi.Fields[fld], code)
			}
			txt, err := rule.ToCommandLine(w, false)
			if err != nil || !strings.Contains(txt, fld+name+"3") {
				bad("operator-rule-decode", "%s -> %q (%v): the filter is not printed with its operator", line, txt, err)
				continue
			}
			if r2, err := flags.Parse(txt); err != nil {
				bad("operator-rule-roundtrip", "%s -> %q: %v", line, txt, err)
			} else if w2, err := rule.Build(r2); err != nil || string(w2) != string(w) {
				bad("operator-rule-roundtrip", "%s -> %q: re-encoding differs (%v)", line, txt, err)
			}
		}
	}
	seenCmp := map[uint32]bool{}
	for _, cmp := range tables.Comparisons {
		ev.Add(1)
		nt.AddString("cmp:" + cmp.LHS + ":" + cmp.RHS)
		want, ok := uapi.Comparison(cmp.LHS, cmp.RHS)
		if !ok || want != cmp.Code {
			bad("comparison-vs-uapi", "comparison %s/%s = %d, linux/audit.h says (%d, known=%v)", cmp.LHS, cmp.RHS, cmp.Code, want, ok)
		}
		seenCmp[cmp.Code] = true
		rp, ok := tables.ReverseComparisons[cmp.Code]
		if !ok || !((rp[0] == cmp.LHS && rp[1] == cmp.RHS) || (rp[0] == cmp.RHS && rp[1] == cmp.LHS)) {
			bad("comparison-reverse", "comparison code %d decodes to %v, want the pair %s/%s", cmp.Code, rp, cmp.LHS, cmp.RHS)
		}
	}
	for p, code := range uapi.Comparisons {
		if !seenCmp[code] {
			bad("comparison-missing", "AUDIT_COMPARE %s/%s (%d) is not in the rule comparison table", p.A, p.B, code)
		}
	}
	c.Add("rule_table_entries", int64(len(tables.Fields)+len(tables.Operators)+len(tables.Comparisons)))

	// ---- (6) the embedded normalisation table ----
	yamlPath := filepath.Join(logenc.RepoDir(), "aucoalesce", "normalizations.yaml")
	raw, err := os.ReadFile(yamlPath)
	if err != nil {
		c.Inconclusive("cannot read " + yamlPath + ": " + err.Error())
		return
	}
	syscallNorms, recordNorms, err := aucoalesce.LoadNormalizationConfig(raw)
	if err != nil {
		bad("yaml-load", "LoadNormalizationConfig fails on the built-in file: %v", err)
		return
	}
	// independent raw walk of the YAML node tree (aliases resolved) to count names
	var doc struct {
		Normalizations []struct {
			RecordTypes yaml.Node `yaml:"record_types"`
			Syscalls    yaml.Node `yaml:"syscalls"`
		} `yaml:"normalizations"`
	}
	rawSys, rawRec := map[string]int{}, map[string]int{}
	if err := yaml.Unmarshal(raw, &doc); err == nil {
		var collect func(n *yaml.Node, into map[string]int)
		collect = func(n *yaml.Node, into map[string]int) {
			switch n.Kind {
			case yaml.ScalarNode:
				into[n.Value]++
			case yaml.SequenceNode:
				for _, ch := range n.Content {
					collect(ch, into)
				}
			case yaml.AliasNode:
				collect(n.Alias, into)
			}
		}
		for i := range doc.Normalizations {
			collect(&doc.Normalizations[i].Syscalls, rawSys)
			collect(&doc.Normalizations[i].RecordTypes, rawRec)
		}
	} else {
		c.Note("independent YAML walk failed: %v", err)
	}
	for name, n := range rawSys {
		if n > 1 {
			bad("yaml-syscall-listed-twice:"+name, "syscall %s is listed %d times in normalizations.yaml", name, n)
		}
		if _, ok := syscallNorms[name]; !ok {
			bad("yaml-loader-dropped-syscall", "syscall %s is in the file but not in the loaded table", name)
		}
	}
	for name := range syscallNorms {
		ev.Add(1)
		nt.AddString("ysys:" + name)
		if name == "*" {
			continue
		}
		if !allSyscallNames[name] {
			bad("yaml-syscall-not-in-any-table:"+name, "normalizations.yaml names syscall %q, which is in no architecture's syscall table (the parser can never produce it)", name)
		}
	}
	recNames := make([]string, 0, len(recordNorms))
	for name := range recordNorms {
		recNames = append(recNames, name)
	}
	sort.Strings(recNames)
	for _, name := range recNames {
		ev.Add(1)
		nt.AddString("yrec:" + name)
		t, err := auparse.GetAuditMessageType(name)
		if err != nil {
			bad("yaml-record-type-unknown", "normalizations.yaml names record type %q, which is not a record type (%v)", name, err)
			continue
		}
		if t.String() != name {
			bad("yaml-record-type-not-canonical", "normalizations.yaml names record type %q, but the parser prints that type as %q (the normalisation can never be selected)", name, t.String())
			continue
		}
		// deterministic selection for every subset of the has_fields of this record type
		norms := recordNorms[name]
		fieldSet := map[string]bool{}
		for _, n := range norms {
			for _, f := range n.HasFields.Values {
				fieldSet[f] = true
			}
		}
		fields := make([]string, 0, len(fieldSet))
		for f := range fieldSet {
			fields = append(fields, f)
		}
		sort.Strings(fields)
		if len(fields) > 10 {
			fields = fields[:10]
		}
		for mask := 0; mask < 1<<len(fields); mask++ {
			body := "pid=1 uid=0 auid=1000 ses=1 res=success"
			for i, f := range fields {
				if mask&(1<<i) != 0 {
					body += " " + f + "=v" + fmt.Sprint(i)
				}
			}
			first := ""
			for k := 0; k < reps; k++ {
				m, err := auparse.Parse(t, "audit(1.000:1): "+body)
				if err != nil {
					bad("yaml-synthetic-parse", "%v", err)
					break
				}
				e, err := aucoalesce.CoalesceMessages([]*auparse.AuditMessage{m})
				if err != nil {
					bad("yaml-synthetic-coalesce", "%s: %v", name, err)
					break
				}
				sig := e.Summary.Action + "|" + e.Summary.Object.Type + "|" + e.ECS.Event.Kind + "|" + strings.Join(e.ECS.Event.Category, ",") + "|" + strings.Join(e.ECS.Event.Type, ",")
				if k == 0 {
					first = sig
				} else if sig != first {
					bad("normalisation-nondeterministic", "record type %s with fields %q selects different normalisations on repeated calls: %q vs %q", name, body, first, sig)
					break
				}
				ev.Add(1)
			}
		}
		if len(norms) > 1 {
			c.Add("multi_normalisation_record_types", 1)
			// "apply the normalization if all fields are present": a record carrying exactly the has_fields of
			// entry i (and of no other entry) selects entry i; a record carrying none of them selects none
			actionOf := func(body string) (string, bool) {
				m, err := auparse.Parse(t, "audit(1.000:1): "+body)
				if err != nil {
					return "", false
				}
				e, err := aucoalesce.CoalesceMessages([]*auparse.AuditMessage{m})
				if err != nil {
					return "", false
				}
				return e.Summary.Action, true
			}
			allConditional := true
			actions := map[string]int{}
			for _, n := range norms {
				actions[n.Action]++
				if len(n.HasFields.Values) == 0 {
					allConditional = false
				}
			}
			for i, n := range norms {
				if len(n.HasFields.Values) == 0 || n.Action == "" || actions[n.Action] > 1 {
					continue
				}
				body := "pid=1 uid=0 auid=1000 ses=1 res=success"
				for j, f := range n.HasFields.Values {
					body += " " + f + "=w" + fmt.Sprint(j)
				}
				if got, ok := actionOf(body); ok && got != n.Action {
					bad("normalisation-selection", "record type %s carrying exactly the has_fields %q of its normalisation #%d is given action %q, that normalisation's action is %q", name, n.HasFields.Values, i, got, n.Action)
				}
				ev.Add(1)
				c.Add("conditional_normalisations_selected_by_their_fields", 1)
			}
			if allConditional {
				if got, ok := actionOf("pid=1 uid=0 auid=1000 ses=1 res=success"); ok && got != "" && actions[got] > 0 {
					bad("normalisation-selection", "record type %s carrying none of the has_fields of its normalisations is given action %q", name, got)
				}
			}
		}
	}
	// the normalisation a compound event selected stays what it was when other events of the same first record
	// type - with other syscalls, hence other additions to category/type - are coalesced afterwards (the table
	// entries are shared by all events: nothing may be appended into them)
	{
		r := c.Rand(77)
		type kept struct {
			g    logenc.Group
			e    *aucoalesce.Event
			snap string
		}
		for _, typ := range c15Types {
			var ks []kept
			for i := 0; i < 4; i++ {
				g := logenc.GenTypedCompound(r, typ)
				e, err := aucoalesce.CoalesceMessages(parseLoose(&g))
				if err != nil || e == nil {
					continue
				}
				b, _ := json.Marshal(e)
				ks = append(ks, kept{g, e, string(b)})
				ev.Add(1)
			}
			for i, k := range ks {
				if b, _ := json.Marshal(k.e); string(b) != k.snap {
					bad("normalisation-shared-state", "compound event #%d with first record type %s changed after other events of that type (other syscalls) were coalesced: %s", i, typ, diffSig(k.snap, string(b)))
					break
				}
				if e2, err := aucoalesce.CoalesceMessages(parseLoose(&k.g)); err == nil && e2 != nil {
					if b, _ := json.Marshal(e2); string(b) != k.snap {
						bad("normalisation-depends-on-history", "the messages of compound event #%d (first record type %s) coalesce to a different event after other events of that type: %s", i, typ, diffSig(k.snap, string(b)))
						break
					}
				}
			}
			c.Add("typed_compound_events_rechecked", int64(len(ks)))
		}
	}
	for name, n := range rawRec {
		if _, ok := recordNorms[name]; !ok {
			bad("yaml-loader-dropped-record-type", "record type %s (listed %d times) is in the file but not in the loaded table", name, n)
		} else if got := len(recordNorms[name]); got != n {
			bad("yaml-loader-dropped-normalisation", "record type %s is listed by %d normalisations in the file, the loaded table has %d for it", name, n, got)
		}
	}
	c.Add("yaml_syscall_names", int64(len(syscallNorms)))
	c.Add("yaml_record_type_names", int64(len(recordNorms)))
	c.Sample(map[string]any{"tables": "record types", "codes": 65536, "named": nt.Len()})
	c.Sample(map[string]any{"yaml_record_types": recNames[:min(8, len(recNames))], "arch_tables": archNames})
	c.Require("arch_syscall_pairs", 1000)
	c.Require("yaml_syscall_names", 50)
	c.Require("yaml_record_type_names", 50)
	c.Require("rule_table_entries", 50)
}

func min(a, b int) int {
	if a < b {
		return a
	}
	return b
}

// c20Snapshot deep-copies the exported tables (and the rule package's, through the export hook).
func c20Snapshot() map[string]any {
	arch := map[auparse.AuditArch]string{}
	for k, v := range auparse.AuditArchNames {
		arch[k] = v
	}
	sys := map[string]map[int]string{}
	for a, t := range auparse.AuditSyscalls {
		sys[a] = map[int]string{}
		for n, name := range t {
			sys[a][n] = name
		}
	}
	e1 := map[int]string{}
	for k, v := range auparse.AuditErrnoToName {
		e1[k] = v
	}
	e2 := map[string]int{}
	for k, v := range auparse.AuditErrnoToNum {
		e2[k] = v
	}
	t := rule.VerifExportTables()
	sort.Slice(t.Comparisons, func(i, j int) bool {
		a, b := t.Comparisons[i], t.Comparisons[j]
		return a.LHS+"/"+a.RHS < b.LHS+"/"+b.RHS
	})
	return map[string]any{"auparse.AuditArchNames": arch, "auparse.AuditSyscalls": sys, "auparse.AuditErrnoToName": e1, "auparse.AuditErrnoToNum": e2, "rule tables": t}
}

// c20Use makes the library look up what is NOT in its tables (unknown architectures, syscall numbers, record
// types, errno values, names), the way a parser of hostile or future logs does all day.
func c20Use(c *mon.Ctx) {
	r := c.Rand(88)
	arches := []uint32{0xdeadbeef, 0, 1, 0xffffffff, 0xc000003f, 0x4000003d, 0x80000000}
	for i := 0; i < 200; i++ {
		arches = append(arches, r.Uint32())
	}
	for _, a := range arches {
		_ = auparse.AuditArch(a).String()
		for _, sc := range []int{-1, 0, 59, 9999, 1 << 20} {
			line := fmt.Sprintf("type=SYSCALL msg=audit(1500000000.100:%d): arch=%x syscall=%d success=no exit=-%d a0=0 a1=0 a2=0 a3=0 items=0 ppid=1 pid=2 auid=0 uid=0 gid=0 euid=0 suid=0 fsuid=0 egid=0 sgid=0 fsgid=0 tty=(none) ses=1 comm=\"x\" exe=\"/x\" key=(null)", a&0xffff, a, sc, 1000+int(a%5000))
			if m, err := auparse.ParseLogLine(line); err == nil {
				m.Data()
				m.ToMapStr()
				aucoalesce.CoalesceMessages([]*auparse.AuditMessage{m})
			}
			c.Add("lookups_of_unknown_values", 1)
		}
		// a rule that names the architecture by a number the tables do not know, decoded
		if w, err := rule.Build(&rule.SyscallRule{Type: rule.AppendSyscallRuleType, List: "exit", Action: "always", Syscalls: []string{"1"}, Filters: []rule.FilterSpec{{Type: rule.ValueFilterType, LHS: "arch", Comparator: "=", RHS: strconv.FormatUint(uint64(a), 10)}}}); err == nil {
			rule.ToCommandLine(w, true)
			rule.ToCommandLine(w, false)
		}
	}
	for _, n := range []string{"UNKNOWN[1234]", "unknown[77]", "NOPE", "", "UNKNOWN[70000]", "[5]"} {
		auparse.GetAuditMessageType(n)
		var t auparse.AuditMessageType
		t.UnmarshalText([]byte(n))
	}
	for i := 0; i < 65536; i += 7 {
		_ = auparse.AuditMessageType(i).String()
		aucoalesce.GetAuditEventType(auparse.AuditMessageType(i))
	}
	for _, line := range []string{"-a always,exit -F arch=nosucharch -S open", "-a always,exit -S nosuchsyscall", "-a always,exit -F nosuchfield=1", "-a always,exit -F arch=b64 -S 99999", "-a always,exit -F uid=nosuchuser", "-a always,exit -C nosuch=uid", "-a always,exit -F filetype=nosuch"} {
		if rr, err := flags.Parse(line); err == nil {
			rule.Build(rr)
		}
	}
}

// c20ConcurrentNaming: records of different architectures are parsed at the same time, one goroutine per
// architecture; every (arch, syscall number) must come out under the name of ITS architecture's table, exactly as
// in the sequential enumeration.
func c20ConcurrentNaming(c *mon.Ctx) {
	type archT struct {
		code  uint32
		name  string
		table map[int]string
	}
	var arches []archT
	for code, name := range auparse.AuditArchNames {
		if t := auparse.AuditSyscalls[name]; len(t) > 0 {
			arches = append(arches, archT{uint32(code), name, t})
		}
	}
	sort.Slice(arches, func(i, j int) bool { return arches[i].code < arches[j].code })
	var wg sync.WaitGroup
	var bad, total atomic.Int64
	start := make(chan struct{})
	reps := c.Pick(6, 60)
	for _, a := range arches {
		wg.Add(1)
		go func(a archT) {
			defer wg.Done()
			nums := make([]int, 0, len(a.table))
			for n := range a.table {
				nums = append(nums, n)
			}
			sort.Ints(nums)
			<-start
			for rep := 0; rep < reps; rep++ {
				for _, n := range nums {
					typ := auparse.AUDIT_SYSCALL
					if (n+rep)%5 == 0 {
						typ = auparse.AUDIT_SECCOMP
					}
					msg := fmt.Sprintf("audit(1500000000.100:%d): arch=%x syscall=%d success=yes exit=0 sig=31 pid=1", n, a.code, n)
					m, err := auparse.Parse(typ, msg)
					if err != nil {
						continue
					}
					d, err := m.Data()
					total.Add(1)
					if err != nil || d["arch"] != a.name || d["syscall"] != a.table[n] {
						if bad.Add(1) <= 3 {
							c.Violation("syscall-name-concurrent", fmt.Sprintf("while %d goroutines parse records of different architectures: arch=%x syscall=%d came out as arch=%q syscall=%q (err %v); %s's table says %s", len(arches), a.code, n, d["arch"], d["syscall"], err, a.name, a.table[n]), msg)
						}
						return
					}
				}
			}
		}(a)
	}
	close(start)
	wg.Wait()
	c.Add("evaluations", total.Load())
	c.Add("arch_syscall_pairs_parsed_concurrently", total.Load())
}

// c20Run: the exhaustive table checks on the cold process, then a workload of lookups that miss the tables,
// then the same exhaustive checks again: the tables must be the same tables (no entry added, changed or
// removed by use) and still mutually inverse.
func c20Run(c *mon.Ctx) {
	before := c20Snapshot()
	c20Pass(c)
	c20Use(c)
	after := c20Snapshot()
	names := make([]string, 0, len(before))
	for k := range before {
		names = append(names, k)
	}
	sort.Strings(names)
	for _, k := range names {
		if !reflect.DeepEqual(before[k], after[k]) {
			what := ""
			if k == "auparse.AuditArchNames" {
				b, a := before[k].(map[auparse.AuditArch]string), after[k].(map[auparse.AuditArch]string)
				for code, name := range a {
					if b[code] != name {
						what = fmt.Sprintf(" (e.g. %#x -> %q, before: %q)", uint32(code), name, b[code])
						break
					}
				}
			}
			c.Violation("tables-changed-by-use", fmt.Sprintf("%s is not the same table after parsing / printing values that are not in it%s", k, what), k)
		}
	}
	c.Add("table_snapshots_compared", int64(len(names)))
	c20Pass(c)
	c.Add("exhaustive_passes", 2)
	c20ConcurrentNaming(c)
}

func init() {
	register(&mon.CheckSpec{
		ID: "C20", Level: "exploration", Exhaustive: true,
		Rule: "EXHAUSTIVE enumeration at run time of: all 65536 record type codes (name -> number -> name in three letter cases, text marshalling, unique names, repeated and concurrent categorisation); both errno maps in both directions (aliases resolve to one number; cross-checked with x/sys/unix); every architecture name <-> code (unique, String(), the rule package's reverse table, linux/audit.h spot table, and through Build/ToCommandLine with = and !=); every (arch, syscall) entry (a name maps to one number, the rule package's reverse table, and a rule '-F arch=A -S name' sets exactly that bit and round-trips); every rule field / operator / comparison table entry (verif export hook) against linux/audit.h in both directions; every entry of normalizations.yaml (read from /repo, loaded with the exported loader and walked independently as a YAML node tree): record types resolve and print back identically, syscalls occur in at least one arch table, nothing listed twice, every record type selects the same normalisation on repeated evaluation for every subset of its has_fields, and a record type with several conditional normalisations selects the one whose has_fields the record carries (none when it carries none). Compound events of every named first record type with different syscalls are coalesced one after the other and re-checked afterwards (the shared table entries must not be written). The whole enumeration runs twice: on the cold process, and again after a workload of lookups that MISS the tables (unknown architectures, syscall numbers, record types, errno values and names through the parser, the coalescer and the rule encoder/decoder); deep copies of the exported tables taken before and after must be equal. Finally one goroutine per architecture parses SYSCALL/SECCOMP records of every syscall number of its table at the same time: every pair must come out under its own architecture's name. For every errno n seven exit values that only share low bits with -n go through Build -> ToCommandLine -> Build unchanged. distinct_nontrivial = distinct named table entries visited.",
		Assumptions: []string{
			"the tables are read through the exported maps/functions and the verif export hook at run time, so the check sees what the build contains",
			"normalizations.yaml is read from the repository tree that the harness is built against (it is embedded from the same file)",
		},
		Phases: plainPhase("tables"),
		Run:    c20Run,
		Replay: func(c *mon.Ctx, kase json.RawMessage) {
			fmt.Println("replay: table checks are exhaustive and deterministic: re-running all of them")
			c20Run(c)
		},
	})
}
