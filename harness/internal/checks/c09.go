package checks

import (
	"encoding/json"
	"fmt"
	"sort"
	"strconv"
	"strings"

	"github.com/elastic/go-libaudit/v2/aucoalesce"
	"github.com/elastic/go-libaudit/v2/auparse"

	"verifharness/internal/logenc"
	"verifharness/internal/mon"
)

// C09: coalescing keeps every record's fields, the event identity and file facts.

func parseGroup(g *logenc.Group) ([]*auparse.AuditMessage, error) {
	var msgs []*auparse.AuditMessage
	for _, l := range g.Lines {
		m, err := auparse.ParseLogLine(l)
		if err != nil {
			return nil, fmt.Errorf("%v: %q", err, clipStr(l, 120))
		}
		msgs = append(msgs, m)
	}
	return msgs, nil
}

// leaves collects every string leaf of a JSON value.
func leaves(v any, into map[string]bool) {
	switch x := v.(type) {
	case string:
		into[x] = true
	case []any:
		for _, e := range x {
			leaves(e, into)
		}
	case map[string]any:
		for _, e := range x {
			leaves(e, into)
		}
	case float64:
		into[strconv.FormatFloat(x, 'f', -1, 64)] = true
	}
}

var sIFMT = map[int]string{0o100000: "file", 0o040000: "directory", 0o020000: "character-device", 0o060000: "block-device", 0o010000: "named-pipe", 0o120000: "symlink", 0o140000: "socket"}
var sIFName = map[int]string{0o100000: "S_IFREG", 0o040000: "S_IFDIR", 0o020000: "S_IFCHR", 0o060000: "S_IFBLK", 0o010000: "S_IFIFO", 0o120000: "S_IFLNK", 0o140000: "S_IFSOCK"}

func c09Check(c *mon.Ctx, g *logenc.Group) {
	msgs, err := parseGroup(g)
	if err != nil {
		c.Violation("harness-group-unparsable", err.Error(), g)
		return
	}
	var ev *aucoalesce.Event
	p, st := mon.Try(func() { ev, err = aucoalesce.CoalesceMessages(msgs) })
	if p != nil {
		c.Violation("panic", fmt.Sprintf("CoalesceMessages panicked: %v\n%s", p, st), g)
		return
	}
	// records that count (a trailing EOE carries no data)
	real := msgs
	if n := len(real); n > 0 && real[n-1].RecordType == auparse.AUDIT_EOE {
		real = real[:n-1]
	}
	hasSyscall := false
	for _, m := range real {
		if m.RecordType == auparse.AUDIT_SYSCALL {
			hasSyscall = true
		}
	}
	if len(real) == 0 || (len(real) > 1 && !hasSyscall) {
		c.Add("must_error_groups", 1)
		if err == nil || ev != nil {
			c.Violation("partial-event-instead-of-error", fmt.Sprintf("CoalesceMessages returned (event=%v, err=%v) for %d records without SYSCALL / no records; want (nil, error)", ev != nil, err, len(real)), g)
		}
		return
	}
	if err != nil || ev == nil {
		c.Violation("well-formed-event-rejected", fmt.Sprintf("CoalesceMessages returned (%v, %v) for a well-formed event", ev != nil, err), g)
		return
	}
	first := real[0]
	if !ev.Timestamp.Equal(first.Timestamp) || ev.Sequence != first.Sequence || ev.Type != first.RecordType {
		c.Violation("identity", fmt.Sprintf("event identity %v/%d/%s differs from the first record's %v/%d/%s", ev.Timestamp, ev.Sequence, ev.Type, first.Timestamp, first.Sequence, first.RecordType), g)
	}
	// flatten
	b, jerr := json.Marshal(ev)
	if jerr != nil {
		c.Violation("event-not-marshalable", jerr.Error(), g)
		return
	}
	var generic any
	json.Unmarshal(b, &generic)
	have := map[string]bool{}
	// the places the statement names: Data, Paths, Process, User ids / SELinux labels, Result, Session,
	// Tags, Source / Destination (a copy in the summary or the ECS fields does not count as retention)
	if top, ok := generic.(map[string]any); ok {
		for _, sect := range []string{"data", "paths", "process", "result", "session", "tags", "source", "destination"} {
			if v, ok := top[sect]; ok {
				leaves(v, have)
			}
		}
		if u, ok := top["user"].(map[string]any); ok {
			for _, sect := range []string{"ids", "selinux"} {
				if v, ok := u[sect]; ok {
					leaves(v, have)
				}
			}
		}
	}
	var warn []string
	for _, w := range ev.Warnings {
		warn = append(warn, w.Error())
	}
	warnText := strings.Join(warn, " | ")
	// retention, from a FRESH parse of every line
	for _, l := range g.Lines {
		m, _ := auparse.ParseLogLine(l)
		if m.RecordType == auparse.AUDIT_EOE {
			continue
		}
		d, derr := m.Data()
		if derr != nil {
			if !strings.Contains(warnText, m.RecordType.String()) && !strings.Contains(warnText, derr.Error()) {
				c.Violation("parse-failure-not-warned", fmt.Sprintf("record %s does not parse (%v) and no warning names it; warnings: %q", m.RecordType, derr, warnText), g)
			}
			continue
		}
		tags, _ := m.Tags()
		if len(real) > 1 && m.RecordType != auparse.AUDIT_SYSCALL {
			// the rule key of a record other than the primary one (SYSCALL, or the only record) is not part of what
			// Data() returns and is not asserted (observed: such keys are not kept anywhere in the event)
			tags = nil
		}
		for _, t := range tags {
			if !have[t] {
				c.Violation("tag-dropped", fmt.Sprintf("rule key %q of the %s record is nowhere in the event", t, m.RecordType), g)
			}
		}
		keys := make([]string, 0, len(d))
		for k := range d {
			keys = append(keys, k)
		}
		sort.Strings(keys)
		for _, k := range keys {
			v := d[k]
			c.Add("fields_checked", 1)
			if m.RecordType == auparse.AUDIT_SYSCALL && k == "items" {
				continue
			}
			if have[v] {
				continue
			}
			// excused only by a warning that names the problem: this key, or this record's type
			excused := false
			for _, w := range warn {
				if strings.Contains(w, "duplicate key (") {
					// a duplicate-key warning names exactly one key: it excuses that key only
					if strings.Contains(w, "duplicate key ("+k+")") {
						excused = true
					}
					continue
				}
				if strings.Contains(w, "("+k+")") || strings.Contains(w, " "+k+" ") || strings.Contains(w, "'"+k+"'") || strings.Contains(w, m.RecordType.String()) {
					excused = true
				}
			}
			if excused {
				c.Add("fields_excused_by_warning", 1)
				continue
			}
			c.Violation("field-dropped:"+m.RecordType.String()+":"+k, fmt.Sprintf("%s record field %s=%q is nowhere in the event and no warning names it; warnings: %q", m.RecordType, k, v, warnText), g)
			return
		}
	}
	// file summary mirrors the selected PATH (identified by its inode; when several PATH records
	// share the inode - a rename - it is enough that one of them is mirrored completely)
	if ev.File != nil && ev.File.Inode == "" {
		// a file object was selected although the summary names no inode: every generated PATH record has one
		for _, l := range g.Lines {
			if m, _ := auparse.ParseLogLine(l); m != nil && m.RecordType == auparse.AUDIT_PATH {
				if d, err := m.Data(); err == nil && d["inode"] != "" {
					c.Violation("file-summary-empty", fmt.Sprintf("the event has a file summary without an inode (%+v) although its PATH records carry inode numbers (e.g. %s)", *ev.File, d["inode"]), g)
					return
				}
			}
		}
	}
	if ev.File != nil && ev.File.Inode != "" {
		var cands []map[string]string
		for _, l := range g.Lines {
			m, _ := auparse.ParseLogLine(l)
			if m.RecordType == auparse.AUDIT_PATH {
				if d, err := m.Data(); err == nil && d["inode"] == ev.File.Inode {
					cands = append(cands, d)
				}
			}
		}
		if len(cands) == 0 {
			c.Violation("file-inode-from-nowhere", fmt.Sprintf("File.Inode=%s matches no PATH record", ev.File.Inode), g)
			return
		}
		c.Add("file_summaries_checked", 1)
		// which record: the normalisations of these syscalls select PATH record 0 (no object_path_index); records
		// of name type PARENT / UNKNOWN are passed over in favour of a later one, but when there is no other kind
		// the normalisation's own choice stands (what the kernel logs for a failed open/unlink of a missing name)
		if sc := ev.Data["syscall"]; (sc == "open" || sc == "openat" || sc == "unlink" || sc == "chmod" || sc == "chown") && len(ev.Paths) >= 2 {
			allPassedOver := true
			for _, p := range ev.Paths {
				if nt := p["nametype"]; nt != "PARENT" && nt != "UNKNOWN" {
					allPassedOver = false
				}
			}
			if allPassedOver {
				c.Add("file_summaries_with_only_parent_or_unknown_paths", 1)
				if ev.File.Inode != ev.Paths[0]["inode"] {
					c.Violation("file-wrong-record", fmt.Sprintf("every PATH record of the %s event has name type PARENT or UNKNOWN; the normalisation selects record 0 (inode %s), the file summary describes inode %s", sc, ev.Paths[0]["inode"], ev.File.Inode), g)
					return
				}
			}
		}
		var firstSig, firstMsg string
		okAny := false
		for _, sel := range cands {
			sig, msg := c09Mirror(c, ev, sel)
			if sig == "" {
				okAny = true
				break
			}
			if firstSig == "" {
				firstSig, firstMsg = sig, msg
			}
		}
		if !okAny {
			c.Violation(firstSig, firstMsg, g)
		}
	}
}

// c09Mirror compares the file summary with one PATH record; it returns the first mismatch.
func c09Mirror(c *mon.Ctx, ev *aucoalesce.Event, sel map[string]string) (string, string) {
	if ev.File.Path != sel["name"] {
		return "file-path", fmt.Sprintf("File.Path=%q, the selected PATH has name=%q", ev.File.Path, sel["name"])
	}
	if ev.File.UID != sel["ouid"] || ev.File.GID != sel["ogid"] {
		return "file-owner", fmt.Sprintf("File.UID/GID=%s/%s, the selected PATH has ouid/ogid=%s/%s", ev.File.UID, ev.File.GID, sel["ouid"], sel["ogid"])
	}
	if ev.File.Device != sel["dev"] && ev.File.Device != sel["rdev"] {
		return "file-device", fmt.Sprintf("File.Device=%q is neither dev=%q nor rdev=%q of the selected PATH", ev.File.Device, sel["dev"], sel["rdev"])
	}
	if modeText, ok := sel["mode"]; ok {
		mode, perr := strconv.ParseUint(modeText, 8, 32)
		if perr == nil {
			if want := fmt.Sprintf("%04o", mode&0o7777); ev.File.Mode != want {
				return "file-mode", fmt.Sprintf("File.Mode=%q, want %s (mode %s & 07777)", ev.File.Mode, want, modeText)
			}
			if name, valid := sIFMT[int(mode)&0o170000]; valid {
				c.Add("object_types_checked", 1)
				if ev.Summary.Object.Type != name {
					return "objtype:" + ev.Summary.Object.Type + "-for-" + sIFName[int(mode)&0o170000], fmt.Sprintf("Summary.Object.Type=%q for mode %s, whose file-type bits say %s", ev.Summary.Object.Type, modeText, name)
				}
			}
		}
	}
	return "", ""
}

func init() {
	register(&mon.CheckSpec{
		ID: "C09", Level: "exploration",
		Rule: "cases = generated well-formed events in which every field value is unique (so 'present somewhere in the event' is decided by equality): single records of 36 user-space and kernel types; SYSCALL groups with a random subset and order of CWD, PATH x 0-4 (all name types, both nametype/objtype spellings), EXECVE, SOCKADDR (IPv4/IPv6/unix), PROCTITLE, SELinux and AppArmor AVC, MMAP, FD_PAIR, OBJ_PID, BPRM_FCAPS, NETFILTER_PKT, a record colliding with the SYSCALL's keys, a non-SYSCALL record first, trailing EOE; the repo's recorded events; groups that must be refused (no records, only EOE, several records without SYSCALL); and ALL 65536 st_mode values on the selected PATH record of a file syscall (exhaustive). The event is JSON-flattened; each (key, value) of each record's Data() from a fresh parse must equal a leaf, or a warning must name that key or that record type. distinct_nontrivial = distinct events (by text) with at least two records or a file summary.",
		Assumptions: []string{
			"only the SYSCALL 'items' count may be dropped silently (statement)",
			"File.Device may be either dev or rdev of the selected PATH; the selected PATH is identified by its unique inode",
			"object types are asserted only for the seven valid S_IFMT values",
		},
		Phases: plainPhase("coalesce"),
		Run: func(c *mon.Ctx) {
			ev := c.Counter("evaluations")
			nt := c.DistinctSet("nontrivial")
			run := func(g *logenc.Group) {
				c09Check(c, g)
				ev.Add(1)
				if len(g.Lines) > 1 {
					nt.AddString(strings.Join(g.Lines, "\n"))
				}
				if c.WantSample() {
					c.Sample(map[string]any{"records": len(g.Lines), "first": clipStr(g.Lines[0], 160)})
				}
			}
			n := c.Pick(40_000, 8_000_000)
			c.ForEach(n, func(w, i int) {
				r := c.Rand(1, uint64(i))
				var g logenc.Group
				switch {
				case i%5 == 0:
					g = logenc.GenSingleRecord(r)
				case i%97 == 0: // must-error: several records, no SYSCALL
					g = logenc.GenSyscallGroup(r, logenc.EventOpts{Mode: -1})
					var keep []string
					for _, l := range g.Lines {
						if !strings.HasPrefix(l, "type=SYSCALL") {
							keep = append(keep, l)
						}
					}
					if len(keep) == 0 {
						keep = []string{"type=EOE msg=audit(1.000:1): "}
					}
					g.Lines = keep
				default:
					g = logenc.GenSyscallGroup(r, logenc.EventOpts{Mode: -1})
				}
				run(&g)
			})
			// all 65536 st_mode values
			c.ForEach(65536, func(w, i int) {
				r := c.Rand(2, uint64(i))
				g := logenc.GenSyscallGroup(r, logenc.EventOpts{Mode: i})
				run(&g)
				c.Add("st_mode_values", 1)
			})
			for _, g := range logenc.CorpusGroups() {
				g := g
				run(&g)
				c.Add("recorded_events", 1)
			}
			// a group that consists of the end-of-event marker alone holds no records (the data records were lost)
			for i := 0; i < 200; i++ {
				r := c.Rand(3, uint64(i))
				body := mon.Pick(r, []string{"", " ", "x=y", "items=0"})
				g := logenc.Group{Name: "eoe-only", Lines: []string{fmt.Sprintf("type=EOE msg=audit(%d.%03d:%d): %s", 1490000000+r.Intn(1e8), r.Intn(1000), r.Uint32(), body)}}
				run(&g)
				c.Add("eoe_only_groups", 1)
			}
			// nil / empty input
			for _, in := range [][]*auparse.AuditMessage{nil, {}} {
				e, err := aucoalesce.CoalesceMessages(in)
				ev.Add(1)
				if e != nil || err == nil {
					c.Violation("partial-event-instead-of-error", "CoalesceMessages(no records) did not return (nil, error)", nil)
				}
			}
			c.Require("file_summaries_checked", 1000)
			c.Require("object_types_checked", 1000)
			c.Require("must_error_groups", 10)
			c.Require("fields_excused_by_warning", 1)
			c.Require("recorded_events", 20)
		},
		Replay: func(c *mon.Ctx, kase json.RawMessage) {
			var g logenc.Group
			if json.Unmarshal(kase, &g) != nil {
				return
			}
			for _, l := range g.Lines {
				fmt.Println("replay:", l)
			}
			c09Check(c, &g)
		},
	})
}
