package checks

import (
	"encoding/json"
	"fmt"
	"sync"

	"verifharness/internal/mon"
	"verifharness/internal/reasm"
)

// The single-goroutine Reassembler properties C01, C02, C03 and C10 share one
// engine (internal/reasm): seeded random call histories plus an exhaustive
// small scope, executed against the real Reassembler with a recording Stream,
// then decided by the trace oracle selected for the property.

var smallBases = []uint32{0xFFFFFFFF, 1} // {2^32-1, 0, 2} straddles the roll-over and contains sequence 0; {1,2,4} is the plain case

func reasmSpec(id string, which reasm.Which, snapshot bool, rule string, assumptions []string) *mon.CheckSpec {
	run := func(c *mon.Ctx) {
		nRandom := c.Pick(40_000, 20_000_000)
		smallLen := c.Pick(4, 7)
		ev := c.Counter("evaluations")
		cnt := func(n string) func() { p := c.Counter(n); return func() { p.Add(1) } }
		cOverflow, cDup, cLate, cStraddle, cOrphan, cGap, cHOL, cZero, cMulti :=
			cnt("histories_with_overflow_eviction"), cnt("histories_with_duplicate_sequence"), cnt("histories_with_late_arrival"),
			cnt("histories_straddling_rollover"), cnt("histories_with_orphan_eoe"), cnt("histories_with_gap"),
			cnt("histories_with_head_of_line_blocking"), cnt("histories_delivering_seq0"), cnt("histories_with_multirecord_event")
		cFar := cnt("histories_with_two_far_apart_sequence_clusters")
		deliveries, lostReports, snaps := c.Counter("deliveries_observed"), c.Counter("eventslost_callbacks_observed"), c.Counter("snapshots_cross_checked")
		nt := c.DistinctSet("nontrivial")
		one := func(h *reasm.History) {
			tr := reasm.Execute(h, reasm.ExecOpts{Snapshot: snapshot})
			fs, cl := reasm.Check(tr, which)
			ev.Add(1)
			deliveries.Add(int64(cl.Deliveries))
			lostReports.Add(int64(cl.LostReports))
			snaps.Add(int64(cl.SnapshotsSeen))
			if cl.Overflow {
				cOverflow()
			}
			if cl.Duplicate {
				cDup()
			}
			if cl.Late {
				cLate()
			}
			if cl.Straddle {
				cStraddle()
			}
			if cl.EOEOrphan {
				cOrphan()
			}
			if cl.Gap {
				cGap()
			}
			if cl.HeadBlocked {
				cHOL()
			}
			if cl.Zero {
				cZero()
			}
			if cl.MultiRecord {
				cMulti()
			}
			if h.Far {
				cFar()
			}
			if cl.Nontrivial() {
				nt.AddString(h.String())
			}
			for _, f := range fs {
				if f.Prop == id || f.Prop == "ANY" {
					c.Violation(f.Sig, f.What+"\n  history: "+h.String(), h)
				}
			}
			if c.WantSample() && cl.Nontrivial() {
				c.Sample(map[string]any{"history": h.String(), "deliveries": cl.Deliveries, "eventslost_callbacks": cl.LostReports})
			}
		}
		// random histories
		c.ForEach(nRandom, func(w, i int) {
			r := c.Rand(1, uint64(i))
			h := reasm.Random(r, reasm.GenOpts{MaxOps: 60, Reentrant: which.C01, AfterClose: true})
			if len(h.Ops) > 0 && h.Ops[len(h.Ops)-1].Kind != reasm.OpClose || countKind(h, reasm.OpClose) > 1 {
				c.Add("histories_continuing_after_close", 1)
			}
			if len(h.Reenter) > 0 {
				c.Add("histories_with_reentrant_callbacks", 1)
			}
			one(h)
		})
		c.Add("random_histories", int64(nRandom))
		// timed histories (the C19 generator: timeouts of milliseconds with real sleeps, Maintain): the same
		// boundary oracle applies whatever made an event leave the buffer, expiry included
		{
			nTimed := c.Pick(24000, 600_000)
			whichTimed, clock := which, false
			if which.C10 {
				// C10's third cause, "its timeout had elapsed", is decided on the recorded call intervals: the
				// untimed rule (nothing can expire) is replaced by the interval rule of the C19 oracle
				whichTimed.C19, clock = true, true
			}
			sem := make(chan struct{}, 256)
			var wg sync.WaitGroup
			for i := 0; i < nTimed; i++ {
				sem <- struct{}{}
				wg.Add(1)
				go func(i int) {
					defer wg.Done()
					defer func() { <-sem }()
					h := genC19(c.Rand(7, uint64(i)))
					tr := reasm.Execute(h, reasm.ExecOpts{Clock: clock, Snapshot: snapshot && clock})
					fs, cl := reasm.Check(tr, whichTimed)
					ev.Add(1)
					deliveries.Add(int64(cl.Deliveries))
					lostReports.Add(int64(cl.LostReports))
					snaps.Add(int64(cl.SnapshotsSeen))
					for _, f := range fs {
						if which.C10 && f.Prop == "C19" && f.Sig == "delivered-before-timeout" {
							f.Prop, f.Sig = "C10", "evicted-before-timeout"
						}
						if f.Prop == id || f.Prop == "ANY" {
							c.Violation(f.Sig, f.What+"\n  timed history: "+h.String(), h)
						}
					}
				}(i)
			}
			wg.Wait()
			c.Add("timed_histories", int64(nTimed))
		}
		// exhaustive small scope
		var small int64
		for _, base := range smallBases {
			for _, max := range []int{0, 1, 2} {
				for l := 0; l <= smallLen; l++ {
					n := 1
					for i := 0; i < l; i++ {
						n *= 10
					}
					base, max, l := base, max, l
					c.ForEach(n, func(w, i int) { one(reasm.SmallHistory(base, max, l, i)) })
					small += int64(n)
				}
			}
		}
		c.Add("small_scope_histories", small)
		c.Add("small_scope_max_len", int64(smallLen))
		// jump histories (enumerated): an event T is delivered at once (complete on arrival) and is gone; then two
		// events hi > lo arrive in that order whose numbers lie on either side of T + (2^24-1) (or of T - (2^24-1)).
		// hi and lo are near each other, T is no longer buffered: lo is delivered before hi, whatever the
		// Reassembler remembers about T.
		if which.C01 || which.C02 || which.C10 {
			var jumps int64
			for _, T := range []uint32{1000, 5, 0xFFFFFF00, 1 << 31, 0x01000000} {
				for k1 := uint32(1); k1 <= 3; k1++ {
					for k2 := uint32(0); k2 <= 3; k2++ {
						for _, back := range []bool{false, true} {
							for _, max := range []int{2, 5, 64} {
								for flush := 0; flush < 3; flush++ {
									hi, lo := T+reasm.Window+k1, T+reasm.Window-k2
									if back {
										hi, lo = T-reasm.Window+k1, T-reasm.Window-k2
									}
									h := &reasm.History{MaxInFlight: max, TimeoutNs: 3600e9, Base: T}
									h.Ops = append(h.Ops, reasm.Op{Kind: reasm.OpPushMsg, Seq: T, Type: 1327},
										reasm.Op{Kind: reasm.OpPushMsg, Seq: hi, Type: 1300}, reasm.Op{Kind: reasm.OpPushMsg, Seq: lo, Type: 1300})
									switch flush {
									case 1: // both completed by their EOE, the higher one first
										h.Ops = append(h.Ops, reasm.Op{Kind: reasm.OpPushMsg, Seq: hi, Type: reasm.TypeEOE}, reasm.Op{Kind: reasm.OpPushMsg, Seq: lo, Type: reasm.TypeEOE})
									case 2:
										h.Ops = append(h.Ops, reasm.Op{Kind: reasm.OpPushMsg, Seq: lo, Type: 1302}, reasm.Op{Kind: reasm.OpMaintain})
									}
									h.Ops = append(h.Ops, reasm.Op{Kind: reasm.OpClose})
									one(h)
									jumps++
								}
							}
						}
					}
				}
			}
			c.Add("jump_histories", jumps)
		}
		// big histories (enumerated): one event with hundreds of records, and an unfinished head with 15-60
		// complete events queued behind it that all become deliverable by one push (the head's EOE / last record)
		{
			var big int64
			for _, base := range []uint32{500, 0xFFFFFFE0} {
				for _, n := range []int{200, 256, 257, 300, 700} {
					for _, max := range []int{1, 5, 64} {
						h := &reasm.History{MaxInFlight: max, TimeoutNs: 3600e9, Base: base}
						h.Ops = append(h.Ops, reasm.Op{Kind: reasm.OpPushMsg, Seq: base, Type: 1300})
						for i := 0; i < n; i++ {
							h.Ops = append(h.Ops, reasm.Op{Kind: reasm.OpPushMsg, Seq: base + 1, Type: []uint16{1309, 1302, 1307}[i%3]})
						}
						h.Ops = append(h.Ops, reasm.Op{Kind: reasm.OpPushMsg, Seq: base + 1, Type: reasm.TypeEOE}, reasm.Op{Kind: reasm.OpPushMsg, Seq: base, Type: 1327}, reasm.Op{Kind: reasm.OpClose})
						one(h)
						big++
					}
				}
				for _, n := range []int{15, 16, 17, 18, 31, 32, 33, 40, 60} {
					for _, max := range []int{64, 100} {
						for _, by := range []uint16{reasm.TypeEOE, 1327} {
							h := &reasm.History{MaxInFlight: max, TimeoutNs: 3600e9, Base: base}
							h.Ops = append(h.Ops, reasm.Op{Kind: reasm.OpPushMsg, Seq: base, Type: 1300})
							for i := 1; i <= n; i++ {
								h.Ops = append(h.Ops, reasm.Op{Kind: reasm.OpPushMsg, Seq: base + uint32(i), Type: 1327})
							}
							h.Ops = append(h.Ops, reasm.Op{Kind: reasm.OpPushMsg, Seq: base, Type: by}, reasm.Op{Kind: reasm.OpMaintain}, reasm.Op{Kind: reasm.OpPushMsg, Seq: base + uint32(n) + 1, Type: 1300}, reasm.Op{Kind: reasm.OpClose})
							one(h)
							big++
						}
					}
				}
			}
			c.Add("big_histories", big)
		}
		if id == "C02" {
			c02PanicHistories(c)
		}
		for _, k := range []string{"histories_with_overflow_eviction", "histories_with_duplicate_sequence", "histories_with_late_arrival",
			"histories_straddling_rollover", "histories_with_orphan_eoe", "histories_with_gap", "deliveries_observed"} {
			c.Require(k, 1)
		}
		if which.C03 {
			c.Require("eventslost_callbacks_observed", 1)
		}
		if snapshot {
			c.Require("snapshots_cross_checked", 1)
		}
	}
	return &mon.CheckSpec{
		ID: id, Level: "exploration", Rule: rule, Assumptions: assumptions,
		Phases: plainPhase("histories"),
		Run:    run,
		Replay: func(c *mon.Ctx, kase json.RawMessage) {
			var pk c02pCase
			if json.Unmarshal(kase, &pk) == nil && pk.Kind == "panicking-stream" {
				fmt.Println("replay: panicking-stream history:", pk.String())
				c02PanicOne(c, &pk)
				return
			}
			var h reasm.History
			if err := json.Unmarshal(kase, &h); err != nil {
				fmt.Println("replay: bad case:", err)
				return
			}
			tr := reasm.Execute(&h, reasm.ExecOpts{Snapshot: snapshot})
			fs, _ := reasm.Check(tr, which)
			fmt.Println("replay: history:", h.String())
			for k, st := range tr.Steps {
				fmt.Printf("replay:   op %d %+v -> err=%v callbacks=%+v\n", k, h.Ops[k], st.Err, st.CBs)
			}
			for _, f := range fs {
				if f.Prop == id || f.Prop == "ANY" {
					c.Violation(f.Sig, f.What, &h)
				}
			}
		},
	}
}

const reasmRule = "cases = seeded random single-goroutine call histories (1-60 ops of PushMessage/Push(raw)/Push(bad)/PushMessage(nil)/Maintain over 2-8 live sequence numbers in one 2^24 window anchored at 1, 0, 2^32-6 (straddling the roll-over) or random; completing, non-completing and EOE record types; duplicates; maxInFlight in {0,1,2,3,5,8,64}; timeout 1h) each ending in Close (a fifth continue with pushes / Maintain / Close after it), plus EVERY history of length <= L over 3 sequences x {non-completing, completing, EOE} + Maintain for maxInFlight in {0,1,2} and two anchors (L=4 quick, 7 thorough), plus 66 enumerated big histories (one event of 200-700 records; an unfinished head with 15-60 complete events behind it released by one push, maxInFlight 64/100). distinct_nontrivial = distinct histories (by full text) in which at least one of {overflow eviction, duplicate sequence, late arrival, roll-over straddle, orphan EOE, loss gap, head-of-line blocking} occurred."

var reasmAssumptions = []string{
	"histories are executed by the real Reassembler from /repo's working tree (-tags verif); callbacks are recorded at the Stream boundary and tagged with the call that made them",
	"record types that terminate an event (PROCTITLE, <=1299, >=2100) and the 2^24-1 ordering window are taken from the property anchors",
	"timeout is one hour, so time never causes an eviction in these runs (time is C19's subject)",
}

func init() {
	register(reasmSpec("C01", reasm.Which{C01: true}, false, reasmRule, reasmAssumptions))
	register(reasmSpec("C02", reasm.Which{C02: true}, false, reasmRule+" C02 also runs histories with a FAILING Stream (its ReassemblyComplete panics at chosen callbacks, the caller recovers and carries on): 480 enumerated ones (1-5 complete events evicted in one batch with the head they waited for, the panic at each position of the batch, four kinds of follow-up) and 6 000 / 600 000 random ones; the order of everything that is handed to the Stream before, at and after the panic is judged by the statement's rule (what happens to the rest of the interrupted batch is not asserted).", reasmAssumptions))
	register(reasmSpec("C03", reasm.Which{C03: true}, false, reasmRule+" The loss oracle is evaluated after every call, not only at Close.", reasmAssumptions))
	register(reasmSpec("C10", reasm.Which{C10: true}, true, reasmRule+" After every call the VerifSnapshot hook (taken under the list's own mutex) is cross-checked against the buffer reconstructed at the boundary.", reasmAssumptions))
}

func countKind(h *reasm.History, kind string) int {
	n := 0
	for _, o := range h.Ops {
		if o.Kind == kind {
			n++
		}
	}
	return n
}
