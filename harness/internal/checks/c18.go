package checks

import (
	"bytes"
	"encoding/binary"
	"encoding/json"
	"fmt"
	"os"
	"reflect"
	"runtime/debug"
	"sort"
	"strings"
	"sync"
	"sync/atomic"
	"syscall"
	"time"

	"github.com/anishathalye/porcupine"
	libaudit "github.com/elastic/go-libaudit/v2"

	"verifharness/internal/mon"
	"verifharness/internal/simkernel"
	"verifharness/internal/uapi"
)

// C18: the netlink transport frames requests correctly and trusts only the kernel.
// Real AF_NETLINK sockets: NETLINK_ROUTE echoes rejected requests verbatim.

type c18Case struct {
	Kind      string `json:"kind"` // frame | spoof | parse
	Type      uint16 `json:"type,omitempty"`
	Flags     uint16 `json:"flags,omitempty"`
	Payload   []byte `json:"payload,omitempty"`
	Dgram     []byte `json:"datagram,omitempty"`
	Mcast     bool   `json:"multicast,omitempty"`
	ReadBuf   int    `json:"read_buffer_bytes,omitempty"` // size of the caller-supplied read buffer (frame)
	Second    bool   `json:"second_socket,omitempty"`     // sent through a client opened while another one is open
	NoRequest bool   `json:"flags_without_nlm_f_request,omitempty"`
	PresetLen uint32 `json:"caller_header_len,omitempty"`
	PresetSeq uint32 `json:"caller_header_seq,omitempty"`
}

func rawParser(b []byte) ([]syscall.NetlinkMessage, error) {
	if len(b) < 16 {
		return nil, syscall.EINVAL
	}
	m := syscall.NetlinkMessage{Data: append([]byte(nil), b[16:]...)}
	m.Header.Len = binary.LittleEndian.Uint32(b[0:])
	m.Header.Type = binary.LittleEndian.Uint16(b[4:])
	m.Header.Flags = binary.LittleEndian.Uint16(b[6:])
	m.Header.Seq = binary.LittleEndian.Uint32(b[8:])
	m.Header.Pid = binary.LittleEndian.Uint32(b[12:])
	return []syscall.NetlinkMessage{m}, nil
}

func recvRetry(cl *libaudit.NetlinkClient) ([]syscall.NetlinkMessage, error) {
	var msgs []syscall.NetlinkMessage
	var err error
	for i := 0; i < 2000; i++ {
		msgs, err = cl.Receive(true, rawParser)
		if err == syscall.EAGAIN || err == syscall.EINTR {
			time.Sleep(200 * time.Microsecond)
			continue
		}
		return msgs, err
	}
	return msgs, err
}

// c18Frame sends one request on a NETLINK_ROUTE client and checks the kernel's verbatim echo.
func c18Frame(c *mon.Ctx, cl *libaudit.NetlinkClient, k *c18Case, lastSeq *uint32) bool {
	msg := syscall.NetlinkMessage{Header: syscall.NlMsghdr{Type: k.Type, Flags: k.Flags}, Data: k.Payload}
	if k.PresetLen != 0 || k.PresetSeq != 0 {
		// a message struct that was used before (forwarded, or re-used with another payload): whatever its
		// length and sequence fields hold, Send computes the length and assigns the sequence number
		msg.Header.Len, msg.Header.Seq = k.PresetLen, k.PresetSeq
	}
	seq, err := cl.Send(msg)
	desc := fmt.Sprintf("type=%d flags=%#x payload=%d bytes", k.Type, k.Flags, len(k.Payload))
	if err != nil {
		c.Violation("send-error", fmt.Sprintf("Send(%s) failed: %v", desc, err), k)
		return false
	}
	if *lastSeq != 0 && seq != *lastSeq+1 && !(seq > *lastSeq) {
		c.Violation("sequence-not-increasing", fmt.Sprintf("Send returned sequence %d after %d", seq, *lastSeq), k)
	}
	*lastSeq = seq
	msgs, err := recvRetry(cl)
	if err != nil || len(msgs) != 1 {
		c.Violation("kernel-reply-not-received", fmt.Sprintf("Receive after Send(%s) returned (%d messages, %v); the kernel echoes every such request", desc, len(msgs), err), k)
		return false
	}
	m := msgs[0]
	if m.Header.Type != uapi.NlmsgError {
		c.Violation("reply-type", fmt.Sprintf("reply type %d, the kernel sent NLMSG_ERROR; %s", m.Header.Type, desc), k)
		return false
	}
	if len(m.Data) < 20 {
		c.Violation("reply-short", fmt.Sprintf("reply payload %d bytes; %s", len(m.Data), desc), k)
		return false
	}
	errno := -int32(binary.LittleEndian.Uint32(m.Data[0:]))
	in := m.Data[4:20]
	inLen, inType, inFlags := binary.LittleEndian.Uint32(in[0:]), binary.LittleEndian.Uint16(in[4:]), binary.LittleEndian.Uint16(in[6:])
	inSeq, inPid := binary.LittleEndian.Uint32(in[8:]), binary.LittleEndian.Uint32(in[12:])
	bad := func(sig, f string, a ...any) {
		c.Violation(sig, fmt.Sprintf(f, a...)+"; request "+desc+fmt.Sprintf(" (kernel errno %d)", errno), k)
	}
	ok := true
	if inLen != uint32(16+len(k.Payload)) {
		bad("wire-length", "the kernel saw nlmsg_len = %d, want 16 + %d", inLen, len(k.Payload))
		ok = false
	}
	if inType != k.Type {
		bad("wire-type", "the kernel saw type %d, want %d", inType, k.Type)
		ok = false
	}
	if inFlags != k.Flags {
		bad("wire-flags", "the kernel saw flags %#x, want %#x", inFlags, k.Flags)
		ok = false
	}
	if inSeq != seq {
		bad("wire-sequence", "the kernel saw sequence %d, Send returned %d", inSeq, seq)
		ok = false
	}
	if inPid == 0 || inPid != m.Header.Pid {
		bad("wire-portid", "the kernel saw port id %d, the socket's port id (destination of the reply) is %d", inPid, m.Header.Pid)
		ok = false
	}
	if m.Header.Seq != seq {
		bad("reply-sequence", "Receive returned a reply with sequence %d for request %d", m.Header.Seq, seq)
		ok = false
	}
	if errno != 0 {
		// the kernel echoes the whole rejected request (the echo is padded to NLMSG_ALIGNTO = 4 bytes)
		echo := m.Data[20:]
		if len(echo) != (len(k.Payload)+3)&^3 || !bytes.Equal(echo[:len(k.Payload)], k.Payload) {
			bad("wire-payload", "the kernel saw a %d-byte payload that differs from the caller's %d bytes (or Receive altered the reply)", len(echo), len(k.Payload))
			ok = false
		} else {
			c.Add("payload_echoes_compared", 1)
		}
	} else {
		c.Add("header_only_echoes", 1)
	}
	return ok
}

func socketInodes() map[string]bool {
	out := map[string]bool{}
	ents, _ := os.ReadDir("/proc/self/fd")
	for _, e := range ents {
		if l, err := os.Readlink("/proc/self/fd/" + e.Name()); err == nil && strings.HasPrefix(l, "socket:[") {
			out[strings.TrimSuffix(strings.TrimPrefix(l, "socket:["), "]")] = true
		}
	}
	return out
}

func portIDOfInode(inode string) (uint32, bool) {
	b, err := os.ReadFile("/proc/net/netlink")
	if err != nil {
		return 0, false
	}
	for _, l := range strings.Split(string(b), "\n")[1:] {
		f := strings.Fields(l)
		if len(f) >= 10 && f[9] == inode {
			var pid uint32
			fmt.Sscan(f[2], &pid)
			return pid, true
		}
	}
	return 0, false
}

// fdOfSocketInode finds this process's descriptor of a socket inode.
func fdOfSocketInode(ino string) int {
	ents, err := os.ReadDir("/proc/self/fd")
	if err != nil {
		return -1
	}
	want := "socket:[" + ino + "]"
	for _, e := range ents {
		if l, err := os.Readlink("/proc/self/fd/" + e.Name()); err == nil && l == want {
			n := -1
			fmt.Sscanf(e.Name(), "%d", &n)
			return n
		}
	}
	return -1
}

func c18Spoof(c *mon.Ctx) {
	for _, pg := range []struct {
		proto  int
		groups uint32
	}{{syscall.NETLINK_ROUTE, 1}, {syscall.NETLINK_USERSOCK, 1}, {syscall.NETLINK_ROUTE, 0}, {syscall.NETLINK_USERSOCK, 0}} {
		proto := pg.proto
		before := socketInodes()
		// (clients subscribed to a multicast group and plain unicast clients, as NewAuditClient opens them)
		// the client copies what it receives to a writer of the caller's (the `resp` argument): data of a datagram
		// that Receive refuses must not get there either ("returns an error - never data")
		var respBuf bytes.Buffer
		cl, err := libaudit.NewNetlinkClient(proto, pg.groups, make([]byte, 32768), &respBuf)
		if err != nil {
			c.Note("spoof: cannot open protocol %d client: %v", proto, err)
			continue
		}
		var port uint32
		found := false
		ownFd := -1
		for ino := range socketInodes() {
			if !before[ino] {
				port, found = portIDOfInode(ino)
				ownFd = fdOfSocketInode(ino)
			}
		}
		fd, err := syscall.Socket(syscall.AF_NETLINK, syscall.SOCK_RAW|syscall.SOCK_CLOEXEC, proto)
		if err != nil {
			cl.Close()
			continue
		}
		syscall.Bind(fd, &syscall.SockaddrNetlink{Family: syscall.AF_NETLINK})
		r := c.Rand(7, uint64(proto)+100*uint64(pg.groups))
		delivered := 0
		if pg.groups == 0 {
			c.Add("spoof_rounds_against_unicast_clients", 1)
		}
		lens := []int{}
		for n := 0; n <= 64; n++ {
			lens = append(lens, n)
		}
		for i := 0; i < c.Pick(40, 400); i++ {
			lens = append(lens, r.Range(65, 9000))
		}
		for _, n := range lens {
			// senders: a second socket (unicast, multicast) and the client's OWN socket addressing its own port id
			// (found through /proc/self/fd): a datagram whose sender port equals the client's is not from the kernel
			for variant := 0; variant < 3; variant++ {
				mcast := variant == 1
				own := variant == 2
				if !mcast && !found || own && ownFd < 0 || mcast && pg.groups == 0 {
					continue // (a client outside the group is not reached by a multicast datagram: nothing to receive)
				}
				d := r.Bytes(n)
				switch r.Intn(3) {
				case 0: // a perfectly formed ACK with pid 0 inside
					if n >= 36 {
						copy(d, simkernel.Ack(simkernel.SentMsg{Type: 1001, Flags: 5, Seq: 1, Pid: port}, 0))
					}
				case 1:
					if n >= 16 {
						binary.LittleEndian.PutUint32(d[0:], uint32(n))
						binary.LittleEndian.PutUint32(d[12:], 0) // header pid 0 "kernel"
					}
				}
				to := &syscall.SockaddrNetlink{Family: syscall.AF_NETLINK, Pid: port}
				if mcast {
					to = &syscall.SockaddrNetlink{Family: syscall.AF_NETLINK, Groups: 1}
				}
				sfd := fd
				if own {
					sfd = ownFd
				}
				if err := syscall.Sendto(sfd, d, syscall.MSG_DONTWAIT, to); err != nil {
					c.Add("spoof_send_errno_"+fmt.Sprint(int(err.(syscall.Errno))), 1)
					c.Add("spoof_sends_refused_by_kernel", 1)
					continue
				}
				k := &c18Case{Kind: "spoof", Dgram: d, Mcast: mcast}
				if own {
					c.Add("datagrams_sent_from_the_clients_own_socket_to_itself", 1)
				}
				msgs, err := recvRetry(cl)
				if err == syscall.EAGAIN {
					c.Add("spoof_datagrams_not_delivered", 1)
					continue
				}
				delivered++
				c.Add("evaluations", 1)
				c.Add("spoofed_datagrams_received", 1)
				if n < 16 {
					c.Add("spoofed_shorter_than_header", 1)
				}
				c.DistinctSet("nontrivial").AddBytes(append([]byte{byte(proto)}, d...))
				if respBuf.Len() > 0 {
					c.Violation("spoofed-data-copied-to-caller", fmt.Sprintf("Receive refused a %d-byte datagram from a user-space sender (err=%v) but copied %d bytes of it to the caller's response writer (protocol %d, multicast=%v, own socket=%v)", n, err, respBuf.Len(), proto, mcast, own), k)
					respBuf.Reset()
				}
				c.Add("refused_datagrams_checked_against_the_response_writer", 1)
				if err == nil || len(msgs) > 0 {
					c.Violation("spoofed-datagram-accepted", fmt.Sprintf("Receive returned %d messages, err=%v for a %d-byte datagram sent by a user-space netlink socket (protocol %d, multicast=%v, from the client's own socket=%v)", len(msgs), err, n, proto, mcast, own), k)
				}
			}
		}
		// the kernel is still heard afterwards (NETLINK_ROUTE only: the kernel answers there)
		if proto == syscall.NETLINK_ROUTE && delivered > 0 {
			var last uint32
			k := &c18Case{Kind: "frame", Type: 300, Flags: uapi.NlmFRequest, Payload: []byte("after-spoof")}
			if c18Frame(c, cl, k, &last) {
				c.Add("kernel_datagram_after_spoofing_received", 1)
			}
		}
		c.Add(fmt.Sprintf("spoof_delivered_proto_%d", proto), int64(delivered))
		syscall.Close(fd)
		cl.Close()
	}
}

type seqOp struct {
	g         int
	val       uint32
	call, ret int64
}

func c18Sequences(c *mon.Ctx) {
	for _, N := range []int{2, 4, 16} {
		M := c.Pick(400, 3000)
		cl, err := libaudit.NewNetlinkClient(syscall.NETLINK_ROUTE, 0, nil, nil)
		if err != nil {
			c.Inconclusive("cannot open NETLINK_ROUTE socket: " + err.Error())
			return
		}
		ops := make([][]seqOp, N)
		var wg sync.WaitGroup
		t0 := time.Now()
		for g := 0; g < N; g++ {
			wg.Add(1)
			go func(g int) {
				defer wg.Done()
				mine := make([]seqOp, 0, M)
				for i := 0; i < M; i++ {
					// NLMSG_NOOP without NLM_F_ACK: the kernel ignores it silently, so nothing queues up
					call := int64(time.Since(t0))
					v, err := cl.Send(syscall.NetlinkMessage{Header: syscall.NlMsghdr{Type: 1, Flags: uapi.NlmFRequest}})
					ret := int64(time.Since(t0))
					if err != nil {
						c.Violation("send-error", fmt.Sprintf("concurrent Send failed: %v", err), nil)
						return
					}
					mine = append(mine, seqOp{g, v, call, ret})
				}
				ops[g] = mine
			}(g)
		}
		// meanwhile one more goroutine keeps issuing sends that the kernel refuses (a payload larger than
		// the socket's send buffer: EMSGSIZE): a failed Send must not disturb the numbers of the others
		stopFail := make(chan struct{})
		failDone := make(chan struct{})
		var refused int64
		go func() {
			defer close(failDone)
			big := make([]byte, 300<<10) // > the default send buffer (208 KiB)
			for {
				select {
				case <-stopFail:
					return
				default:
				}
				if _, err := cl.Send(syscall.NetlinkMessage{Header: syscall.NlMsghdr{Type: 1, Flags: uapi.NlmFRequest}, Data: big}); err != nil {
					refused++
				}
			}
		}()
		wg.Wait()
		close(stopFail)
		<-failDone
		c.Add("sends_refused_by_the_kernel_during_concurrent_sends", refused)
		cl.Close()
		var all []seqOp
		for g := range ops {
			for i, o := range ops[g] {
				if i > 0 && !(o.val > ops[g][i-1].val) {
					c.Violation("sequence-not-increasing", fmt.Sprintf("goroutine %d: Send returned %d after %d", g, o.val, ops[g][i-1].val), nil)
				}
				all = append(all, o)
			}
		}
		seen := map[uint32]bool{}
		for _, o := range all {
			if seen[o.val] {
				c.Violation("sequence-duplicate", fmt.Sprintf("sequence number %d was returned by two Send calls (%d goroutines)", o.val, N), nil)
				break
			}
			seen[o.val] = true
		}
		c.Add("evaluations", int64(len(all)))
		c.Add("concurrent_sends", int64(len(all)))
		// porcupine: strictly increasing counter
		pops := make([]porcupine.Operation, len(all))
		for i, o := range all {
			pops[i] = porcupine.Operation{ClientId: o.g, Input: nil, Call: o.call, Output: o.val, Return: o.ret}
		}
		model := porcupine.Model{
			Init: func() interface{} { return uint32(0) },
			// "distinct and increasing across calls": a call returns a value above every value handed out
			// before it (numbers taken by sends that failed leave gaps, so consecutiveness is not demanded)
			Step: func(st, in, out interface{}) (bool, interface{}) {
				return out.(uint32) > st.(uint32), out
			},
			Equal: func(a, b interface{}) bool { return a.(uint32) == b.(uint32) },
		}
		// porcupine's search is quick for the 2- and 4-goroutine histories; the 16-goroutine one is decided by
		// the direct interval check below (exact for distinct values)
		res := porcupine.Unknown
		if N <= 4 {
			tp := time.Now()
			res = porcupine.CheckOperationsTimeout(model, pops, 60*time.Second)
			c.Max("porcupine_ms_max", time.Since(tp).Milliseconds())
		}
		switch res {
		case porcupine.Ok:
			c.Add("porcupine_histories_ok", 1)
		case porcupine.Illegal:
			c.Violation("sequence-not-linearizable", fmt.Sprintf("the history of %d concurrent Send calls (%d goroutines) is not linearizable against a strictly increasing counter", len(all), N), nil)
		default:
			c.Add("porcupine_unknown", 1)
			// direct interval check: linearization points in value order
			sort.Slice(all, func(i, j int) bool { return all[i].val < all[j].val })
			p := int64(-1)
			for i, o := range all {
				if o.call > p {
					p = o.call
				}
				if p > o.ret {
					c.Violation("sequence-not-linearizable", fmt.Sprintf("value %d returned at %d but %d was only requested at %d", o.val, o.ret, all[i-1].val, p), nil)
					break
				}
			}
		}
		c.Nontrivial(fmt.Sprintf("seq-history-%d-goroutines", N))
	}
}

// c18Parse: AuditClient.Receive over a simulated Netlink with guard-paged buffers.
func c18Parse(c *mon.Ctx) {
	g := mon.NewGuard(1 << 16)
	debug.SetPanicOnFault(true)
	r := c.Rand(9)
	var lens []int
	for n := 0; n <= 64; n++ {
		for k := 0; k < c.Pick(20, 500); k++ {
			lens = append(lens, n)
		}
	}
	for i := 0; i < c.Pick(2000, 100000); i++ {
		lens = append(lens, r.Range(65, 9100))
	}
	for _, n := range lens {
		d := r.Bytes(n)
		if n >= 4 && r.Bool() {
			binary.LittleEndian.PutUint32(d, mon.Pick(r, []uint32{0, 1, 15, 16, uint32(n), uint32(n) + 1, uint32(n) - 1, 0xFFFFFFFF, 1 << 31}))
		}
		k := &c18Case{Kind: "parse", Dgram: d}
		sim := simkernel.New(1)
		sim.Place = g.Place
		sim.Queue = []simkernel.Step{{Dgram: d}}
		cl := &libaudit.AuditClient{Netlink: sim}
		var raw *libaudit.RawAuditMessage
		var err error
		p, st := mon.Try(func() { raw, err = cl.Receive(true) })
		c.Add("evaluations", 1)
		c.Add("parse_cases", 1)
		c.DistinctSet("nontrivial").AddBytes(append([]byte("p"), d...))
		if p != nil {
			sig := "parse-panic"
			if strings.Contains(fmt.Sprint(p), "fault") {
				sig = "parse-read-outside-buffer"
			}
			c.Violation(sig, fmt.Sprintf("AuditClient.Receive panicked on a %d-byte datagram: %v\n%s", n, p, st), k)
			continue
		}
		if n < 16 {
			if err == nil || raw != nil {
				c.Violation("short-datagram-accepted", fmt.Sprintf("AuditClient.Receive accepted a %d-byte datagram (shorter than a netlink header)", n), k)
			}
			continue
		}
		if err != nil || raw == nil {
			c.Violation("datagram-rejected", fmt.Sprintf("AuditClient.Receive rejected a %d-byte datagram: %v", n, err), k)
			continue
		}
		if uint16(raw.Type) != binary.LittleEndian.Uint16(d[4:]) {
			c.Violation("parse-type", fmt.Sprintf("type %d, the header says %d", raw.Type, binary.LittleEndian.Uint16(d[4:])), k)
		}
		if !bytes.Equal(raw.Data, d[16:]) {
			c.Violation("parse-data", fmt.Sprintf("Data has %d bytes, want everything after the 16-byte header (%d bytes) regardless of the length field %d", len(raw.Data), n-16, binary.LittleEndian.Uint32(d)), k)
		}
	}
}

// c18ParseConcurrent: several AuditClients, each on its own goroutine with its own (simulated) transport, receive
// at the same time; every client must get the type and payload of ITS datagram (nothing is shared between
// clients). The payload names the client and the round, so a mix-up is visible in the data itself.
func c18ParseConcurrent(c *mon.Ctx) {
	const G = 8
	rounds := c.Pick(4000, 200000)
	var wg sync.WaitGroup
	var bad atomic.Int64
	start := make(chan struct{})
	for gi := 0; gi < G; gi++ {
		wg.Add(1)
		go func(gi int) {
			defer wg.Done()
			sim := simkernel.New(uint32(gi + 1))
			cl := &libaudit.AuditClient{Netlink: sim}
			<-start
			var kept *libaudit.RawAuditMessage
			var keptType uint16
			var keptLen int
			for i := 0; i < rounds; i++ {
				typ := uint16(1300 + (gi*131+i)%900)
				text := fmt.Sprintf("audit(1.000:%d): client=%d round=%d %s", i, gi, i, strings.Repeat("x", (gi*7+i)%90))
				d := simkernel.Event(typ, text)
				sim.Queue = append(sim.Queue[:0], simkernel.Step{Dgram: d})
				raw, err := cl.Receive(true)
				if err != nil || raw == nil || uint16(raw.Type) != typ || string(raw.Data) != text {
					if bad.Add(1) <= 3 {
						got := "<nil>"
						if raw != nil {
							got = fmt.Sprintf("type %d %q", raw.Type, clipStr(string(raw.Data), 80))
						}
						c.Violation("receive-mixed-between-clients", fmt.Sprintf("client %d round %d: Receive returned %s (err %v), its transport delivered type %d %q (%d clients receive concurrently, each on its own transport)", gi, i, got, err, typ, clipStr(text, 80), G), &c18Case{Kind: "parse-concurrent", Dgram: d})
					}
					return
				}
				// the message returned by the PREVIOUS call is the caller's: its type and the extent of its data do
				// not change when the client receives again (only the bytes of Data live in the reused buffer)
				if kept != nil && (uint16(kept.Type) != keptType || len(kept.Data) != keptLen) {
					if bad.Add(1) <= 3 {
						c.Violation("earlier-message-changed", fmt.Sprintf("client %d round %d: the message returned by the previous Receive had type %d and %d bytes of data; after this Receive it reads type %d and %d bytes (every Receive must return a message of its own)", gi, i, keptType, keptLen, kept.Type, len(kept.Data)), &c18Case{Kind: "parse-concurrent", Dgram: d})
					}
					return
				}
				kept, keptType, keptLen = raw, typ, len(text)
			}
		}(gi)
	}
	close(start)
	wg.Wait()
	c.Add("evaluations", int64(G*rounds))
	c.Add("concurrent_client_receives", int64(G*rounds))
}

// c18Bystander: a request is addressed to the kernel only. A client that is bound to a multicast group (as the
// audit multicast client is) must not hand its requests to the other members of the group: a second socket in the
// same group must receive nothing when the client sends. Groups nobody else uses (RTNLGRP_NOP2 on NETLINK_ROUTE,
// bit 20 on NETLINK_USERSOCK); message type NLMSG_NOOP without flags, which the kernel ignores.
func c18Bystander(c *mon.Ctx) {
	for _, pg := range [][2]int{{syscall.NETLINK_ROUTE, 1 << 13}, {syscall.NETLINK_USERSOCK, 1 << 20}} {
		proto, groups := pg[0], uint32(pg[1])
		fd, err := syscall.Socket(syscall.AF_NETLINK, syscall.SOCK_RAW|syscall.SOCK_CLOEXEC, proto)
		if err != nil {
			c.Note("bystander: cannot open a protocol %d socket: %v", proto, err)
			continue
		}
		if err := syscall.Bind(fd, &syscall.SockaddrNetlink{Family: syscall.AF_NETLINK, Groups: groups}); err != nil {
			c.Note("bystander: cannot join group %#x of protocol %d: %v", groups, proto, err)
			syscall.Close(fd)
			continue
		}
		cl, err := libaudit.NewNetlinkClient(proto, groups, make([]byte, 8192), nil)
		if err != nil {
			c.Note("bystander: cannot open a protocol %d client in group %#x: %v", proto, groups, err)
			syscall.Close(fd)
			continue
		}
		buf := make([]byte, 8192)
		for i := 0; i < 5; i++ {
			payload := []byte(fmt.Sprintf("verif-bystander-%d-%d", proto, i))
			cl.Send(syscall.NetlinkMessage{Header: syscall.NlMsghdr{Type: syscall.NLMSG_NOOP}, Data: payload}) // ECONNREFUSED on USERSOCK (nobody at port 0) is fine
			c.Add("requests_sent_from_a_group_member", 1)
			n, _, err := syscall.Recvfrom(fd, buf, syscall.MSG_DONTWAIT)
			if err == nil && n > 0 {
				c.Violation("request-multicast-to-group", fmt.Sprintf("a second socket in multicast group %#x of netlink protocol %d received %d bytes when the client sent a request (carries the request's payload: %v): requests go to the kernel only", groups, proto, n, bytes.Contains(buf[:n], payload)), &c18Case{Kind: "bystander", Dgram: append([]byte(nil), buf[:n]...)})
				break
			}
		}
		cl.Close()
		syscall.Close(fd)
	}
}

// c18SeqStorm: many senders and several goroutines whose sends the kernel refuses, on one client: the numbers
// returned by successful Send calls stay distinct and increasing per goroutine whatever happens to the numbers of
// failed sends. (No linearizability search here: only the two cheap, exact checks, over many more sends.)
func c18SeqStorm(c *mon.Ctx) {
	const N, F = 12, 6
	M := c.Pick(6000, 60000)
	for round := 0; round < c.Pick(3, 10); round++ {
		cl, err := libaudit.NewNetlinkClient(syscall.NETLINK_ROUTE, 0, nil, nil)
		if err != nil {
			return
		}
		vals := make([][]uint32, N)
		var wg, fwg sync.WaitGroup
		stop := make(chan struct{})
		var refused atomic.Int64
		for f := 0; f < F; f++ {
			fwg.Add(1)
			go func() {
				defer fwg.Done()
				big := make([]byte, 300<<10)
				for {
					select {
					case <-stop:
						return
					default:
					}
					if _, err := cl.Send(syscall.NetlinkMessage{Header: syscall.NlMsghdr{Type: 1, Flags: uapi.NlmFRequest}, Data: big}); err != nil {
						refused.Add(1)
					}
				}
			}()
		}
		for g := 0; g < N; g++ {
			wg.Add(1)
			go func(g int) {
				defer wg.Done()
				mine := make([]uint32, 0, M)
				for i := 0; i < M; i++ {
					v, err := cl.Send(syscall.NetlinkMessage{Header: syscall.NlMsghdr{Type: 1, Flags: uapi.NlmFRequest}})
					if err != nil {
						return
					}
					mine = append(mine, v)
				}
				vals[g] = mine
			}(g)
		}
		wg.Wait()
		close(stop)
		fwg.Wait()
		cl.Close()
		seen := make(map[uint32]int, N*M)
		total := 0
		for g := range vals {
			for i, v := range vals[g] {
				total++
				if i > 0 && v <= vals[g][i-1] && !(vals[g][i-1] > 0xF0000000 && v < 0x10000000) {
					c.Violation("sequence-not-increasing", fmt.Sprintf("goroutine %d: Send returned %d after %d (%d senders, %d goroutines with refused sends)", g, v, vals[g][i-1], N, F), nil)
					return
				}
				if og, dup := seen[v]; dup {
					c.Violation("sequence-duplicate", fmt.Sprintf("sequence number %d was returned by two successful Send calls (goroutines %d and %d; %d senders, %d goroutines with refused sends)", v, og, g, N, F), nil)
					return
				}
				seen[v] = g
			}
		}
		c.Add("evaluations", int64(total))
		c.Add("storm_sends", int64(total))
		c.Add("storm_sends_refused_by_the_kernel", refused.Load())
	}
}

func c18Run(c *mon.Ctx) {
	// (a)+(c) framing through the kernel's echo
	cl, err := libaudit.NewNetlinkClient(syscall.NETLINK_ROUTE, 0, make([]byte, 32768), nil)
	if err != nil {
		c.Inconclusive("AF_NETLINK/NETLINK_ROUTE sockets are not available: " + err.Error())
		return
	}
	var last uint32
	r := c.Rand(1)
	var cases []*c18Case
	stride := c.Pick(37, 1)
	for n := 0; n <= 8970; n += stride {
		cases = append(cases, &c18Case{Type: uint16(256 + r.Intn(65536-256)), Flags: uint16(r.Intn(65536)) | uapi.NlmFRequest, Payload: r.Bytes(n)})
	}
	for n := 0; n <= 64; n++ {
		cases = append(cases, &c18Case{Type: uint16(256 + r.Intn(60000)), Flags: uapi.NlmFRequest, Payload: r.Bytes(n)})
	}
	for _, n := range []int{8969, 8970, 4095, 4096, 4097} {
		cases = append(cases, &c18Case{Type: 65535, Flags: 0xFFFF, Payload: r.Bytes(n)})
	}
	for t := 0; t < 16; t++ { // control types: header-only echo, needs NLM_F_ACK
		for _, n := range []int{0, 1, 7, 100} {
			cases = append(cases, &c18Case{Type: uint16(t), Flags: uapi.NlmFRequest | uapi.NlmFAck | uint16(r.Intn(256))<<8, Payload: r.Bytes(n)})
		}
	}
	for i := 0; i < c.Pick(1500, 60000); i++ {
		cases = append(cases, &c18Case{Type: uint16(256 + r.Intn(65536-256)), Flags: uint16(r.Intn(65536)) | uapi.NlmFRequest, Payload: r.Bytes(r.Intn(300))})
	}
	// stale length / sequence fields in the caller's header
	for i := 0; i < c.Pick(200, 4000); i++ {
		n := r.Intn(120)
		k := &c18Case{Type: uint16(256 + r.Intn(60000)), Flags: uapi.NlmFRequest | uint16(r.Intn(256))<<8, Payload: r.Bytes(n)}
		k.PresetLen = mon.Pick(r, []uint32{1, 15, 16, 17, uint32(16 + n - 1), uint32(16 + n + 1), uint32(16 + n + 20), 4096, 1 << 31, 0xFFFFFFFF})
		if r.Bool() {
			k.PresetSeq = mon.Pick(r, []uint32{1, 7, 0xFFFFFFFF, r.Uint32() | 1})
		}
		cases = append(cases, k)
	}
	// flags WITHOUT NLM_F_REQUEST: the kernel does not process such a message but still acknowledges it when
	// NLM_F_ACK is set, echoing the header it received (types stay outside 16..255 all the same)
	for i := 0; i < c.Pick(300, 6000); i++ {
		fl := (uint16(r.Intn(65536)) | uapi.NlmFAck) &^ uapi.NlmFRequest
		typ := uint16(256 + r.Intn(65536-256))
		if i%4 == 0 {
			typ = uint16(r.Intn(16))
		}
		cases = append(cases, &c18Case{Type: typ, Flags: fl, Payload: r.Bytes(r.Intn(64)), NoRequest: true})
	}
	// The first netlink socket a process opens for a protocol gets the process id as its port id, later
	// ones get kernel-assigned ids: most frames go through a SECOND client opened while the first is
	// still open (the usual control-client + receive-client layout), so "the socket's port id" and
	// "the process id" differ.
	cl2, err := libaudit.NewNetlinkClient(syscall.NETLINK_ROUTE, 0, make([]byte, 32768), nil)
	if err != nil {
		c.Inconclusive("cannot open a second NETLINK_ROUTE socket: " + err.Error())
		return
	}
	defer cl2.Close()
	var last2 uint32
	for i, k := range cases {
		k.Kind = "frame"
		if i%8 == 0 {
			c18Frame(c, cl, k, &last)
		} else {
			k.Second = true
			if c18Frame(c, cl2, k, &last2) {
				c.Add("frames_through_a_second_socket", 1)
			}
		}
		if k.NoRequest {
			c.Add("frames_without_request_flag", 1)
		}
		if k.PresetLen != 0 {
			c.Add("frames_with_stale_caller_length", 1)
		}
		c.Add("evaluations", 1)
		c.Add("frames_echoed", 1)
		c.DistinctSet("nontrivial").AddString(fmt.Sprintf("%d/%d/%x", k.Type, k.Flags, k.Payload))
		if c.WantSample() {
			c.Sample(map[string]any{"kind": "frame", "type": k.Type, "flags": k.Flags, "payload_len": len(k.Payload)})
		}
	}
	cl.Close()
	// caller-supplied read buffers that the kernel's reply fills exactly (and nearly): the datagram is
	// complete, so Receive must return it unchanged
	for _, n := range []int{0, 1, 3, 4, 5, 16, 37, 100, 1000, 4060, 8970} {
		for _, slack := range []int{0, 1, 4, 64} {
			k := &c18Case{Kind: "frame", Type: uint16(256 + r.Intn(60000)), Flags: uapi.NlmFRequest, Payload: r.Bytes(n)}
			k.ReadBuf = 16 + 4 + 16 + (n+3)&^3 + slack // NLMSG_ERROR header + errno + echoed request (padded)
			cl, err := libaudit.NewNetlinkClient(syscall.NETLINK_ROUTE, 0, make([]byte, k.ReadBuf), nil)
			if err != nil {
				c.Inconclusive("cannot open NETLINK_ROUTE socket: " + err.Error())
				return
			}
			var last uint32
			for rep := 0; rep < 2; rep++ { // twice: the second reply meets whatever the first receive left behind
				if c18Frame(c, cl, k, &last) && slack == 0 {
					c.Add("replies_filling_the_read_buffer_exactly", 1)
				}
				c.Add("evaluations", 1)
			}
			cl.Close()
		}
	}
	// an empty read buffer - nil or not - means "use the default": the kernel's reply must arrive all the same
	for name, rb := range map[string][]byte{"nil": nil, "empty": {}, "zero-length-with-capacity": make([]byte, 0, 256), "reset-pooled": make([]byte, 512)[:0]} {
		cl, err := libaudit.NewNetlinkClient(syscall.NETLINK_ROUTE, 0, rb, nil)
		if err != nil {
			c.Inconclusive("cannot open NETLINK_ROUTE socket: " + err.Error())
			return
		}
		var last uint32
		k := &c18Case{Kind: "frame", Type: uint16(300 + r.Intn(1000)), Flags: uapi.NlmFRequest, Payload: r.Bytes(24)}
		if c18Frame(c, cl, k, &last) {
			c.Add("frames_through_default_read_buffer_"+name, 1)
		}
		c.Add("evaluations", 1)
		cl.Close()
	}
	// the client the library builds for the audit subsystem must be able to take the largest kernel datagram
	// (16-byte header + 8970 bytes of payload) in one receive: its read buffer is inspected (the socket is only
	// opened and closed, nothing is sent to the audit subsystem)
	if ac, err := libaudit.NewAuditClient(nil); err == nil {
		if nc, ok := ac.Netlink.(*libaudit.NetlinkClient); ok {
			if v := reflect.ValueOf(nc).Elem().FieldByName("readBuf"); v.IsValid() && v.Kind() == reflect.Slice {
				c.Add("audit_client_read_buffer_bytes", int64(v.Len()))
				if v.Len() < 16+8970 {
					c.Violation("audit-client-read-buffer", fmt.Sprintf("NewAuditClient gives its netlink client a %d-byte read buffer: a kernel datagram with the largest payload (16 + 8970 bytes) would be cut short by the receive", v.Len()), nil)
				}
			}
		}
		ac.Close()
	} else {
		c.Note("NewAuditClient unavailable here (" + err.Error() + "): the audit client's read buffer size was not inspected")
	}
	c18Sequences(c)
	c18SeqStorm(c)
	c18Spoof(c)
	c18Parse(c)
	c18ParseConcurrent(c)
	c18Bystander(c)
	c.Require("frames_echoed", 100)
	c.Require("payload_echoes_compared", 100)
	c.Require("header_only_echoes", 10)
	c.Require("replies_filling_the_read_buffer_exactly", 10)
	c.Require("frames_through_a_second_socket", 100)
	c.Require("concurrent_sends", 1000)
	c.Require("spoofed_datagrams_received", 50)
	c.Require("spoofed_shorter_than_header", 5)
	c.Require("kernel_datagram_after_spoofing_received", 1)
	c.Require("parse_cases", 1000)
	c.Require("concurrent_client_receives", 1000)
}

func init() {
	register(&mon.CheckSpec{
		ID: "C18", Level: "exploration",
		Rule: "cases = (a,c) requests sent with NetlinkClient.Send on a real NETLINK_ROUTE socket - types 0..15 with NLM_F_ACK (header-only echo) and random types in 256..65535 (never 16..255: live rtnetlink operations), flags = any 16 bits | NLM_F_REQUEST (and any 16 bits | NLM_F_ACK without NLM_F_REQUEST: acknowledged unprocessed, header echoed), payload lengths 0..8970 (every 37th quick, every length thorough) plus every length 0..64, random short payloads, and clients whose caller-supplied read buffer the reply fills exactly or with 1/4/64 bytes to spare - (most through a second client opened while a first one is open, so the socket's port id differs from the process id) whose NLMSG_ERROR reply, read back with Receive, carries the request as the kernel saw it (length, type, flags, port id, sequence = returned value, payload bytes); (b) N in {2,4,16} goroutines x M sends on one client: per-goroutine increasing, globally distinct, and the recorded {call, return, value} history checked with porcupine against a strictly increasing counter model (direct interval check when porcupine gives up), and a storm of 12 senders beside 6 goroutines whose sends the kernel refuses (distinct and per-goroutine increasing only); (d) datagrams of every length 0..64 and random longer ones, arbitrary and ACK-shaped contents, unicast and multicast from a second user-space netlink socket and unicast from the client's own socket to its own port id (NETLINK_ROUTE as root, NETLINK_USERSOCK; clients subscribed to group 1 and plain unicast clients): Receive must return an error and no message, and a later kernel reply must still be received; (e) AuditClient.Receive over the simulated Netlink with datagrams of every length 0..64 and random longer ones ending at a PROT_NONE page; (f) eight AuditClients, each with its own transport and goroutine, receiving at the same time: each gets the type and payload of its own datagram, and the message returned by the previous call keeps its type and length; (g) a client bound to an otherwise unused multicast group sends NLMSG_NOOP requests while a second socket in the same group listens: it must receive nothing (requests are addressed to the kernel only). Runs under the race detector; ASan in thorough. The spoof clients carry a response writer: no byte of a refused datagram may reach it. distinct_nontrivial = distinct frames, spoofed datagrams, parse inputs and sequence histories.",
		Assumptions: []string{
			"the running kernel echoes rejected NETLINK_ROUTE requests in NLMSG_ERROR replies (netlink_ack) and delivers user-to-user netlink datagrams for root; if sockets cannot be opened the check is inconclusive, not green",
			"message types 16..255 are never sent (they are live rtnetlink operations)",
		},
		Phases: func(tier string) []mon.PhaseSpec {
			ph := []mon.PhaseSpec{{Name: "netlink", Flavour: "race"}}
			if tier == "thorough" {
				ph = append(ph, mon.PhaseSpec{Name: "netlink-asan", Flavour: "asan", SecondPass: true})
			}
			return ph
		},
		Run: c18Run,
		Replay: func(c *mon.Ctx, kase json.RawMessage) {
			var k c18Case
			if json.Unmarshal(kase, &k) != nil || k.Kind == "" {
				fmt.Println("replay: sequence / spoof witnesses depend on the live kernel and scheduling: re-run the check")
				return
			}
			switch k.Kind {
			case "frame":
				if k.ReadBuf == 0 {
					k.ReadBuf = 32768
				}
				cl, err := libaudit.NewNetlinkClient(syscall.NETLINK_ROUTE, 0, make([]byte, k.ReadBuf), nil)
				if err != nil {
					fmt.Println("replay:", err)
					return
				}
				defer cl.Close()
				if k.Second {
					cl2, err := libaudit.NewNetlinkClient(syscall.NETLINK_ROUTE, 0, make([]byte, k.ReadBuf), nil)
					if err != nil {
						fmt.Println("replay:", err)
						return
					}
					defer cl2.Close()
					cl = cl2
				}
				var last uint32
				c18Frame(c, cl, &k, &last)
			default:
				fmt.Println("replay: re-running the spoof and parse parts")
				c18Spoof(c)
				c18Parse(c)
			}
		},
	})
}
