package checks

import (
	"bytes"
	"encoding/binary"
	"encoding/json"
	"errors"
	"fmt"
	"io"
	"os"
	"runtime/debug"
	"strconv"
	"strings"
	"syscall"

	libaudit "github.com/elastic/go-libaudit/v2"

	"verifharness/internal/mon"
	"verifharness/internal/simkernel"
	"verifharness/internal/uapi"
)

// C16: audit_status messages encode and decode per the kernel's layout.

type c16Case struct {
	Kind   string `json:"kind"` // setter | fromwire | getstatus | constants
	Setter string `json:"setter,omitempty"`
	Arg    int64  `json:"arg,omitempty"`
	NoWait bool   `json:"no_wait,omitempty"`
	Buf    []byte `json:"buf,omitempty"`
	// Prior: an earlier NoWait SetRateLimit on the same client whose ACK ("ok" errno 0 / "refused" EPERM) is
	// still unread when the setter under test runs: it must send its one request all the same
	Prior string `json:"prior_undrained_nowait_request,omitempty"`
	// PriorN: how many such earlier NoWait requests (0 means 1): "every Set* command" includes the 17th, 41st and
	// 101st in a row with nothing collected in between; every one of the earlier requests is checked for its
	// flags too
	PriorN int `json:"prior_requests,omitempty"`
	// NoAck: the kernel never answers (every receive says EAGAIN): a WaitForReply setter gives up with an
	// error after having sent its ONE request
	NoAck bool `json:"no_ack_ever,omitempty"`
	// Seq0: the transport numbers the client's first request 0
	Seq0 bool `json:"first_request_numbered_zero,omitempty"`
	// Before: setters called earlier on the same client in WaitForReply mode, each acknowledged with errno 0 and
	// collected (SetImmutable among them: what one command did must not keep a later one from sending its request)
	Before []string `json:"earlier_acknowledged_setters,omitempty"`
}

func c16Call(cl *libaudit.AuditClient, setter string, arg int64, wm libaudit.WaitMode) error {
	switch setter {
	case "SetPID":
		return cl.SetPID(wm)
	case "SetRateLimit":
		return cl.SetRateLimit(uint32(arg), wm)
	case "SetBacklogLimit":
		return cl.SetBacklogLimit(uint32(arg), wm)
	case "SetEnabled":
		return cl.SetEnabled(arg != 0, wm)
	case "SetImmutable":
		return cl.SetImmutable(wm)
	case "SetFailure":
		return cl.SetFailure(libaudit.FailureMode(uint32(arg)), wm)
	case "SetBacklogWaitTime":
		return cl.SetBacklogWaitTime(int32(arg), wm)
	}
	return fmt.Errorf("no such setter %s", setter)
}

var c16Setters = []string{"SetPID", "SetRateLimit", "SetBacklogLimit", "SetEnabled", "SetImmutable", "SetFailure", "SetBacklogWaitTime"}

var c16U32 = []int64{0, 1, 2, 63, 64, 8192, 65535, 65536, 1<<31 - 1, 1 << 31, 1<<32 - 2, 1<<32 - 1}

func c16Setter(c *mon.Ctx, k *c16Case) {
	sim := simkernel.New(uint32(k.Arg%1000) + 1)
	if k.Seq0 {
		sim = simkernel.New(0)
		sim.AllowSeqZero = true
	}
	sim.OnSend = func(s *simkernel.Sim, idx int, m simkernel.SentMsg) []simkernel.Step {
		if k.NoAck {
			return nil
		}
		if m.Type == uapi.MsgGet {
			n := uapi.StatusSize
			for _, b := range k.Before {
				if strings.HasPrefix(b, "GetStatus:") {
					n, _ = strconv.Atoi(b[len("GetStatus:"):])
				}
			}
			return []simkernel.Step{{Dgram: simkernel.Ack(m, 0)}, {Dgram: simkernel.Dgram(uapi.MsgGet, 0, m.Seq, 0, bytes.Repeat([]byte{0x11}, n))}}
		}
		if idx == 0 && k.Prior == "refused" {
			return []simkernel.Step{{Dgram: simkernel.Ack(m, syscall.EPERM)}}
		}
		return []simkernel.Step{{Dgram: simkernel.Ack(m, 0)}}
	}
	cl := &libaudit.AuditClient{Netlink: sim}
	first := 0
	if k.Prior != "" {
		first = max(1, k.PriorN)
		for i := 0; i < first; i++ {
			if err := cl.SetRateLimit(77, libaudit.NoWait); err != nil {
				c.Violation("setter-error", fmt.Sprintf("the prior NoWait SetRateLimit #%d returned %v", i+1, err), k)
				return
			}
		}
	}
	extraDeliveries := 0
	for i, b := range k.Before {
		var perr error
		if strings.HasPrefix(b, "GetStatus:") {
			// a status query answered with a legal short (older kernel) or long reply: what the client learnt from it
			// must not change what a later setter sends
			if p, st := mon.Try(func() { _, perr = cl.GetStatus() }); p != nil || perr != nil || len(sim.Sent) != i+1 {
				c.Violation("setter-after-setter", fmt.Sprintf("earlier %s returned %v (panic %v %s), %d requests on the wire", b, perr, p, st, len(sim.Sent)), k)
				return
			}
			first++
			extraDeliveries++
			continue
		}
		if p, st := mon.Try(func() { perr = c16Call(cl, b, 1, libaudit.WaitForReply) }); p != nil {
			c.Violation("panic", fmt.Sprintf("%s panicked: %v\n%s", b, p, st), k)
			return
		}
		if perr != nil || len(sim.Sent) != i+1 {
			c.Violation("setter-after-setter", fmt.Sprintf("earlier setter #%d %s(WaitForReply), acknowledged with errno 0, returned %v and %d requests are on the wire (want nil and %d); earlier setters %v", i+1, b, perr, len(sim.Sent), i+1, k.Before[:i]), k)
			return
		}
		first++
	}
	wm := libaudit.WaitForReply
	if k.NoWait {
		wm = libaudit.NoWait
	}
	var err error
	var wantMask uint32
	wantOff, wantVal := -1, uint32(0)
	p, st := mon.Try(func() {
		switch k.Setter {
		case "SetPID":
			err = cl.SetPID(wm)
			wantMask, wantOff, wantVal = uapi.StatusPID, uapi.StatusOffPID, uint32(os.Getpid())
		case "SetRateLimit":
			err = cl.SetRateLimit(uint32(k.Arg), wm)
			wantMask, wantOff, wantVal = uapi.StatusRateLimit, uapi.StatusOffRateLimit, uint32(k.Arg)
		case "SetBacklogLimit":
			err = cl.SetBacklogLimit(uint32(k.Arg), wm)
			wantMask, wantOff, wantVal = uapi.StatusBacklogLimit, uapi.StatusOffBacklogLimit, uint32(k.Arg)
		case "SetEnabled":
			err = cl.SetEnabled(k.Arg != 0, wm)
			wantMask, wantOff = uapi.StatusEnabled, uapi.StatusOffEnabled
			if k.Arg != 0 {
				wantVal = 1
			}
		case "SetImmutable":
			err = cl.SetImmutable(wm)
			wantMask, wantOff, wantVal = uapi.StatusEnabled, uapi.StatusOffEnabled, 2
		case "SetFailure":
			err = cl.SetFailure(libaudit.FailureMode(uint32(k.Arg)), wm)
			wantMask, wantOff, wantVal = uapi.StatusFailure, uapi.StatusOffFailure, uint32(k.Arg)
		case "SetBacklogWaitTime":
			err = cl.SetBacklogWaitTime(int32(k.Arg), wm)
			wantMask, wantOff, wantVal = uapi.StatusBacklogWaitTime, uapi.StatusOffBacklogWaitTime, uint32(int32(k.Arg))
		}
	})
	if p != nil {
		c.Violation("panic", fmt.Sprintf("%s(%d) panicked: %v\n%s", k.Setter, k.Arg, p, st), k)
		return
	}
	desc := fmt.Sprintf("%s(%d) nowait=%v prior=%q x%d", k.Setter, k.Arg, k.NoWait, k.Prior, first)
	if len(k.Before) > 0 {
		desc += fmt.Sprintf(" after acknowledged %v", k.Before)
	}
	// with an unread ACK of an earlier NoWait request a WaitForReply setter reads that ACK as its own (known
	// finding of C17): its return value is not judged here, its request is
	judgeReply := (k.Prior == "" || k.NoWait) && !(k.NoAck && !k.NoWait)
	if k.NoAck && !k.NoWait && err == nil {
		c.Violation("setter-no-ack-ok", fmt.Sprintf("%s returned nil although no acknowledgement ever arrived", desc), k)
		return
	}
	if err != nil && judgeReply {
		c.Violation("setter-error", fmt.Sprintf("%s returned %v although the kernel acknowledged with errno 0", desc, err), k)
		return
	}
	if len(sim.Sent) != first+1 {
		c.Violation("setter-send-count", fmt.Sprintf("%s sent %d requests, want exactly one", desc, len(sim.Sent)-first), k)
		return
	}
	for i := 0; i < first; i++ {
		if i < len(k.Before) && strings.HasPrefix(k.Before[i], "GetStatus:") {
			continue
		}
		if pm := sim.Sent[i]; pm.Type != uapi.MsgSet || pm.Flags != uapi.NlmFRequest|uapi.NlmFAck {
			c.Violation("setter-flags", fmt.Sprintf("%s: the earlier request #%d went out with type %d flags %#x, want AUDIT_SET with NLM_F_REQUEST|NLM_F_ACK (0x5)", desc, i+1, pm.Type, pm.Flags), k)
			return
		}
	}
	m := sim.Sent[first]
	if m.Type != uapi.MsgSet {
		c.Violation("setter-type", fmt.Sprintf("%s sent message type %d, want AUDIT_SET (1001)", desc, m.Type), k)
	}
	if m.Flags != uapi.NlmFRequest|uapi.NlmFAck {
		c.Violation("setter-flags", fmt.Sprintf("%s sent flags %#x, want NLM_F_REQUEST|NLM_F_ACK (0x5)", desc, m.Flags), k)
	}
	if len(m.Data) != uapi.StatusSize {
		c.Violation("setter-size", fmt.Sprintf("%s sent a %d-byte payload, want a full-size audit_status (%d)", desc, len(m.Data), uapi.StatusSize), k)
		return
	}
	le := binary.LittleEndian
	if got := le.Uint32(m.Data[uapi.StatusOffMask:]); got != wantMask {
		c.Violation("setter-mask:"+k.Setter, fmt.Sprintf("%s sent mask %#x, want exactly %#x", desc, got, wantMask), k)
	}
	for off := 4; off < uapi.StatusSize; off += 4 {
		got := le.Uint32(m.Data[off:])
		want := uint32(0)
		if off == wantOff {
			want = wantVal
		}
		if got != want {
			c.Violation("setter-field:"+k.Setter, fmt.Sprintf("%s: audit_status word at offset %d = %d, want %d (the setting goes to offset %d, everything else is zero)", desc, off, got, want, wantOff), k)
			break
		}
	}
	if !judgeReply {
		c.Add("setters_with_an_unread_earlier_ack", 1)
		return
	}
	if len(k.Before) > 0 {
		if !k.NoWait && sim.NDeliver != first+1+extraDeliveries {
			c.Violation("wait-receives", fmt.Sprintf("%s: %d datagrams consumed by %d WaitForReply setters, want one ACK each", desc, sim.NDeliver, first+1), k)
		}
		return
	}
	if k.NoWait && sim.NRecv != 0 {
		c.Violation("nowait-receives", fmt.Sprintf("%s performed %d receives in NoWait mode", desc, sim.NRecv), k)
	}
	if !k.NoWait && sim.NDeliver != 1 {
		c.Violation("wait-receives", fmt.Sprintf("%s consumed %d datagrams in WaitForReply mode, want the one ACK", desc, sim.NDeliver), k)
	}
}

func c16Constants(c *mon.Ctx) {
	chk := func(name string, got, want uint64) {
		c.Add("evaluations", 1)
		if got != want {
			c.Violation(fmt.Sprintf("const:%s=%d", name, got), fmt.Sprintf("exported %s = %d, the kernel's number is %d", name, got, want), c16Case{Kind: "constants"})
		}
	}
	chk("AuditGet", uint64(libaudit.AuditGet), uapi.MsgGet)
	chk("AuditSet", uint64(libaudit.AuditSet), uapi.MsgSet)
	chk("SilentOnFailure", uint64(libaudit.SilentOnFailure), uapi.FailSilent)
	chk("LogOnFailure", uint64(libaudit.LogOnFailure), uapi.FailPrintk)
	chk("PanicOnFailure", uint64(libaudit.PanicOnFailure), uapi.FailPanic)
	chk("AuditStatusEnabled", uint64(libaudit.AuditStatusEnabled), uapi.StatusEnabled)
	chk("AuditStatusFailure", uint64(libaudit.AuditStatusFailure), uapi.StatusFailure)
	chk("AuditStatusPID", uint64(libaudit.AuditStatusPID), uapi.StatusPID)
	chk("AuditStatusRateLimit", uint64(libaudit.AuditStatusRateLimit), uapi.StatusRateLimit)
	chk("AuditStatusBacklogLimit", uint64(libaudit.AuditStatusBacklogLimit), uapi.StatusBacklogLimit)
	chk("AuditStatusBacklogWaitTime", uint64(libaudit.AuditStatusBacklogWaitTime), uapi.StatusBacklogWaitTime)
	chk("AuditStatusLost", uint64(libaudit.AuditStatusLost), uapi.StatusLost)
	chk("AuditFeatureBitmapBacklogLimit", uint64(libaudit.AuditFeatureBitmapBacklogLimit), uapi.FeatureBacklogLimit)
	chk("AuditFeatureBitmapBacklogWaitTime", uint64(libaudit.AuditFeatureBitmapBacklogWaitTime), uapi.FeatureBacklogWaitTime)
	chk("AuditFeatureBitmapExecutablePath", uint64(libaudit.AuditFeatureBitmapExecutablePath), uapi.FeatureExecutablePath)
	chk("AuditFeatureBitmapExcludeExtend", uint64(libaudit.AuditFeatureBitmapExcludeExtend), uapi.FeatureExcludeExtend)
	chk("AuditFeatureBitmapSessionIDFilter", uint64(libaudit.AuditFeatureBitmapSessionIDFilter), uapi.FeatureSessionIDFilter)
	chk("AuditFeatureBitmapLostReset", uint64(libaudit.AuditFeatureBitmapLostReset), uapi.FeatureLostReset)
	chk("MinSizeofAuditStatus", uint64(libaudit.MinSizeofAuditStatus), uapi.StatusMinSize)
	chk("AuditMessageMaxLength", uint64(libaudit.AuditMessageMaxLength), 8970)
	chk("NetlinkGroupReadLog", uint64(libaudit.NetlinkGroupReadLog), 1)
}

func c16FromWire(c *mon.Ctx, g *mon.Guard, k *c16Case) {
	placed := g.Place(k.Buf)
	s := &libaudit.AuditStatus{Mask: 0xDEADBEEF, Enabled: 0xDEADBEEF, Failure: 0xDEADBEEF, PID: 0xDEADBEEF, RateLimit: 0xDEADBEEF, BacklogLimit: 0xDEADBEEF,
		Lost: 0xDEADBEEF, Backlog: 0xDEADBEEF, FeatureBitmap: 0xDEADBEEF, BacklogWaitTime: 0xDEADBEEF, BacklogWaitTimeActual: 0xDEADBEEF}
	var err error
	p, st := mon.Try(func() { err = s.FromWireFormat(placed) })
	n := len(k.Buf)
	if p != nil {
		sig := "fromwire-panic"
		if strings.Contains(fmt.Sprint(p), "fault") {
			sig = "fromwire-read-outside-buffer"
		}
		c.Violation(sig, fmt.Sprintf("FromWireFormat panicked on a %d-byte buffer: %v\n%s", n, p, st), k)
		return
	}
	if n < uapi.StatusMinSize {
		if !errors.Is(err, io.ErrUnexpectedEOF) {
			c.Violation("fromwire-short-accepted", fmt.Sprintf("FromWireFormat(%d bytes) returned %v, want io.ErrUnexpectedEOF", n, err), k)
		}
		return
	}
	if err != nil {
		c.Violation("fromwire-rejected", fmt.Sprintf("FromWireFormat(%d bytes) returned %v; any buffer of at least %d bytes must be accepted", n, err, uapi.StatusMinSize), k)
		return
	}
	got := []uint32{uint32(s.Mask), s.Enabled, s.Failure, s.PID, s.RateLimit, s.BacklogLimit, s.Lost, s.Backlog, s.FeatureBitmap, s.BacklogWaitTime, s.BacklogWaitTimeActual}
	names := []string{"Mask", "Enabled", "Failure", "PID", "RateLimit", "BacklogLimit", "Lost", "Backlog", "FeatureBitmap", "BacklogWaitTime", "BacklogWaitTimeActual"}
	for i, v := range got {
		off := 4 * i
		switch {
		case off+4 <= n: // reached
			if want := binary.LittleEndian.Uint32(k.Buf[off:]); v != want {
				c.Violation("fromwire-field:"+names[i], fmt.Sprintf("FromWireFormat(%d bytes): %s = %#x, the buffer holds %#x at offset %d", n, names[i], v, want, off), k)
				return
			}
		case off >= n: // not reached at all
			if v != 0 {
				c.Violation("fromwire-unreached-not-zero:"+names[i], fmt.Sprintf("FromWireFormat(%d bytes): %s = %#x although the buffer ends before offset %d (must be zero)", n, names[i], v, off), k)
				return
			}
		default: // partially reached: the reached low bytes or zero are both accepted
			var part [4]byte
			copy(part[:], k.Buf[off:])
			if v != 0 && v != binary.LittleEndian.Uint32(part[:]) {
				c.Violation("fromwire-partial-field:"+names[i], fmt.Sprintf("FromWireFormat(%d bytes): %s = %#x is neither zero nor the %d reached bytes", n, names[i], v, n-off), k)
				return
			}
		}
	}
}

// c16GetStatus: the request GetStatus sends, and its decoding of replies of every length.
func c16GetStatus(c *mon.Ctx) {
	r := c.Rand(5)
	for n := 0; n <= 96; n++ {
		for rep := 0; rep < c.Pick(4, 200); rep++ {
			payload := r.Bytes(n)
			sim := simkernel.New(uint32(n) + 1)
			// a transport may number a request 0 (a custom NetlinkSendReceiver, or the 2^32-th request of a
			// NetlinkClient): in a fifth of the cases the first or the second GetStatus goes out as number 0
			switch rep % 5 {
			case 3:
				sim = simkernel.New(0)
				sim.AllowSeqZero = true
			case 4:
				sim = simkernel.New(0xFFFFFFFF)
				sim.AllowSeqZero = true
			}
			other := r.Bytes(uapi.StatusSize)
			sim.OnSend = func(s *simkernel.Sim, idx int, m simkernel.SentMsg) []simkernel.Step {
				if idx > 0 {
					return []simkernel.Step{{Dgram: simkernel.Ack(m, 0)}, {Dgram: simkernel.Dgram(uapi.MsgGet, 0, m.Seq, 0, other)}}
				}
				d := simkernel.Dgram(uapi.MsgGet, 0, m.Seq, 0, payload)
				// the audit message parser takes everything after the 16-byte header whatever the length field says
				// (the kernel itself writes a payload-only length into audit records): vary the field on the reply
				switch rep % 4 {
				case 1:
					binary.LittleEndian.PutUint32(d[0:], uint32(len(payload)))
				case 2:
					binary.LittleEndian.PutUint32(d[0:], mon.Pick(r, []uint32{0, 16, 17, uint32(len(d) - 1), uint32(len(d) + 1), uint32(len(d) + 16), 0xFFFFFFFF}))
				}
				// audit events queued ahead of the ACK and between the ACK and the status (a busy system): 0..120 of them
				var steps []simkernel.Step
				nev := []int{0, 0, 3, 9, 10, 11, 25, 120}[(n+rep)%8]
				if rep%5 >= 3 {
					nev = 0 // the request may be numbered 0 there: an event (always numbered 0) could not be told from its reply
				}
				for e := 0; e < nev; e++ {
					steps = append(steps, simkernel.Step{Dgram: simkernel.Dgram(1300+uint16(e%30), 0, 0, 0, []byte("audit(1.000:1): unsolicited"))})
				}
				steps = append(steps, simkernel.Step{Dgram: simkernel.Ack(m, 0)})
				for e := 0; e < nev; e++ {
					steps = append(steps, simkernel.Step{Dgram: simkernel.Dgram(1300+uint16(e%30), 0, 0, 0, []byte("audit(1.000:2): unsolicited"))})
				}
				if nev >= 10 {
					c.Add("getstatus_cases_with_10_or_more_events_ahead_of_the_reply", 1)
				}
				return append(steps, simkernel.Step{Dgram: d})
			}
			cl := &libaudit.AuditClient{Netlink: sim}
			k := &c16Case{Kind: "getstatus", Buf: payload}
			var st *libaudit.AuditStatus
			var err error
			if p, stk := mon.Try(func() { st, err = cl.GetStatus() }); p != nil {
				c.Violation("getstatus-panic", fmt.Sprintf("GetStatus panicked on a %d-byte reply: %v\n%s", n, p, stk), k)
				continue
			}
			c.Add("evaluations", 1)
			c.Add("getstatus_cases", 1)
			if len(sim.Sent) < 1 || sim.Sent[0].Type != uapi.MsgGet || sim.Sent[0].Flags != uapi.NlmFRequest|uapi.NlmFAck || len(sim.Sent[0].Data) != 0 {
				c.Violation("getstatus-request", fmt.Sprintf("GetStatus sent %d requests; first: type=%d flags=%#x payload=%d bytes; want one AUDIT_GET (1000) with REQUEST|ACK and no payload", len(sim.Sent), sim.Sent[0].Type, sim.Sent[0].Flags, len(sim.Sent[0].Data)), k)
			}
			if n < uapi.StatusMinSize {
				if err == nil {
					c.Violation("getstatus-short-accepted", fmt.Sprintf("GetStatus accepted a %d-byte audit_status reply", n), k)
				}
				continue
			}
			if err != nil || st == nil {
				c.Violation("getstatus-rejected", fmt.Sprintf("GetStatus rejected a %d-byte reply: %v", n, err), k)
				continue
			}
			// later traffic on the same client reuses the one receive buffer: the status already returned must not change
			if _, err2 := cl.GetStatus(); err2 != nil {
				c.Violation("getstatus-second-call", fmt.Sprintf("a second GetStatus failed: %v", err2), k)
			}
			got := []uint32{uint32(st.Mask), st.Enabled, st.Failure, st.PID, st.RateLimit, st.BacklogLimit, st.Lost, st.Backlog, st.FeatureBitmap, st.BacklogWaitTime, st.BacklogWaitTimeActual}
			for i, v := range got {
				off := 4 * i
				if off+4 <= n {
					if want := binary.LittleEndian.Uint32(payload[off:]); v != want {
						c.Violation("getstatus-field", fmt.Sprintf("GetStatus(%d-byte reply): word %d = %#x (read after a later receive on the same client), the kernel laid out %#x", n, i, v, want), k)
						break
					}
				} else if off >= n && v != 0 {
					c.Violation("getstatus-unreached-not-zero", fmt.Sprintf("GetStatus(%d-byte reply): word %d = %#x although the reply ends before it", n, i, v), k)
					break
				}
			}
		}
	}
}

func c16Run(c *mon.Ctx) {
	ev := c.Counter("evaluations")
	nt := c.DistinctSet("nontrivial")
	if c.Phase == "layout" {
		c16Constants(c)
	}
	c16GetStatus(c)
	// setters x values x wait modes
	var cases []*c16Case
	for _, s := range c16Setters {
		var args []int64
		switch s {
		case "SetPID", "SetImmutable":
			args = []int64{0}
		case "SetEnabled":
			args = []int64{0, 1}
		case "SetFailure":
			args = []int64{int64(libaudit.SilentOnFailure), int64(libaudit.LogOnFailure), int64(libaudit.PanicOnFailure), 0, 1, 2, 3, 1<<32 - 1}
		case "SetBacklogWaitTime":
			args = []int64{0, 1, 60000, 600000, 1<<31 - 1, -1, -(1 << 31)}
		default:
			args = c16U32
		}
		for _, a := range args {
			for _, nw := range []bool{false, true} {
				cases = append(cases, &c16Case{Kind: "setter", Setter: s, Arg: a, NoWait: nw})
				if a == args[0] {
					cases = append(cases, &c16Case{Kind: "setter", Setter: s, Arg: a, NoWait: nw, NoAck: true})
				}
				for _, prior := range []string{"ok", "refused"} {
					cases = append(cases, &c16Case{Kind: "setter", Setter: s, Arg: a, NoWait: nw, Prior: prior})
				}
				if a == args[0] {
					cases = append(cases, &c16Case{Kind: "setter", Setter: s, Arg: a, NoWait: nw, Seq0: true})
					for _, n := range []int{2, 15, 16, 17, 40, 100, 300} {
						cases = append(cases, &c16Case{Kind: "setter", Setter: s, Arg: a, NoWait: nw, Prior: "ok", PriorN: n})
					}
				}
			}
		}
	}
	// histories on one client: every ordered pair and triple of setters (SetImmutable first, in the middle, last)
	for _, a := range c16Setters {
		for _, b := range c16Setters {
			for _, nw := range []bool{false, true} {
				cases = append(cases, &c16Case{Kind: "setter", Setter: b, Arg: 1, NoWait: nw, Before: []string{a}})
				for _, a0 := range c16Setters {
					cases = append(cases, &c16Case{Kind: "setter", Setter: b, Arg: 1, NoWait: nw, Before: []string{a0, a}})
				}
			}
		}
	}
	// a GetStatus answered with 32..60 bytes, then each setter (both modes); also with another setter in between
	for _, n := range []int{32, 36, 40, 43, 44, 48, 60} {
		for _, b := range c16Setters {
			for _, nw := range []bool{false, true} {
				cases = append(cases, &c16Case{Kind: "setter", Setter: b, Arg: 1, NoWait: nw, Before: []string{fmt.Sprintf("GetStatus:%d", n)}})
				cases = append(cases, &c16Case{Kind: "setter", Setter: b, Arg: 1, NoWait: nw, Before: []string{"SetEnabled", fmt.Sprintf("GetStatus:%d", n), "SetRateLimit"}})
			}
		}
	}
	for i := 0; i < c.Pick(3000, 300000); i++ {
		r := c.Rand(3, uint64(i))
		k := &c16Case{Kind: "setter", Setter: mon.Pick(r, c16Setters), Arg: int64(r.Uint32()), NoWait: r.Bool()}
		for j := 3 + r.Intn(10); j > 0; j-- {
			k.Before = append(k.Before, mon.Pick(r, c16Setters))
		}
		if k.Setter == "SetBacklogWaitTime" {
			k.Arg = int64(int32(k.Arg))
		}
		cases = append(cases, k)
	}
	nrand := c.Pick(20000, 6000000)
	for i := 0; i < nrand; i++ {
		r := c.Rand(1, uint64(i))
		s := mon.Pick(r, []string{"SetRateLimit", "SetBacklogLimit", "SetFailure", "SetBacklogWaitTime"})
		a := int64(r.Uint32())
		if s == "SetBacklogWaitTime" {
			a = int64(int32(r.Uint32()))
		}
		cases = append(cases, &c16Case{Kind: "setter", Setter: s, Arg: a, NoWait: r.Bool()})
	}
	c.ForEach(len(cases), func(w, i int) {
		c16Setter(c, cases[i])
		ev.Add(1)
		nt.AddString(fmt.Sprintf("%s/%d/%v/%s/%v/%v", cases[i].Setter, cases[i].Arg, cases[i].NoWait, cases[i].Prior, cases[i].NoAck, cases[i].Before))
		if len(cases[i].Before) > 0 {
			c.Add("setters_after_other_acknowledged_setters", 1)
		}
		if c.WantSample() {
			c.Sample(cases[i])
		}
	})
	c.Add("setter_cases", int64(len(cases)))
	// FromWireFormat: every length 0..96 x random contents, input ends at a guard page
	guards := make([]*mon.Guard, c.Workers)
	for i := range guards {
		guards[i] = mon.NewGuard(4096)
	}
	per := c.Pick(300, 60000)
	c.ForEach(97*per, func(w, i int) {
		debug.SetPanicOnFault(true)
		n := i % 97
		r := c.Rand(2, uint64(i))
		b := r.Bytes(n)
		switch r.Intn(4) {
		case 0:
			for j := range b {
				b[j] = 0xFF
			}
		case 1:
			for j := range b {
				b[j] = 0
			}
		}
		k := &c16Case{Kind: "fromwire", Buf: b}
		c16FromWire(c, guards[w], k)
		ev.Add(1)
		c.Add("fromwire_cases", 1)
		nt.AddBytes(append([]byte("fw"), b...))
	})
	c.Require("fromwire_cases", 1000)
	c.Require("setter_cases", 100)
}

func init() {
	register(&mon.CheckSpec{
		ID: "C16", Level: "exploration",
		Rule: "cases = every Set* command x {all uint32/int32 boundary values, both booleans, all failure modes incl. the exported names, random values} x both wait modes (also as the 2nd..301st request in a row of uncollected NoWait requests, as a request that the transport numbers 0, and after every ordered pair and triple - plus random runs of 3-12 - of other setters that were acknowledged and collected on the same client, SetImmutable included, and after a GetStatus that was answered with a 32..60-byte status), observed as the NetlinkMessage handed to a simulated kernel's Send and decoded word by word at the UAPI audit_status offsets (one request, type 1001, flags REQUEST|ACK, 44-byte payload, exactly one mask bit, the value in its field, every other word zero; NoWait does no receive); the 21 exported numbers against the kernel's; GetStatus's request (one AUDIT_GET, REQUEST|ACK, empty) and its decoding of replies of every length 0..96, with 0-120 unsolicited audit records queued ahead of the ACK and of the status reply; FromWireFormat on every buffer length 0..96 x random / all-ones / all-zero contents with a garbage-prefilled receiver and the input ending at a PROT_NONE page. The same cases run a second time under the race detector (checkptr) and, in the thorough tier, under ASan. distinct_nontrivial = distinct (setter, value, mode) triples and distinct buffers.",
		Assumptions: []string{
			"expected offsets, mask bits and numbers come from internal/uapi (hand-written from linux/audit.h, self-tested against the system header)",
			"a field the buffer reaches only partially may be zero or hold the reached low bytes (the statement does not define it)",
			"GetStatus's decoding of a full reply is exercised in C08 as well (statusEquals at UAPI offsets)",
		},
		Phases: func(tier string) []mon.PhaseSpec {
			ph := []mon.PhaseSpec{{Name: "layout", Flavour: "plain"}, {Name: "layout-race", Flavour: "race", SecondPass: true}}
			if tier == "thorough" {
				ph = append(ph, mon.PhaseSpec{Name: "layout-asan", Flavour: "asan", SecondPass: true})
			}
			return ph
		},
		Run: c16Run,
		Replay: func(c *mon.Ctx, kase json.RawMessage) {
			var k c16Case
			if json.Unmarshal(kase, &k) != nil {
				return
			}
			debug.SetPanicOnFault(true)
			switch k.Kind {
			case "setter":
				c16Setter(c, &k)
			case "fromwire":
				c16FromWire(c, mon.NewGuard(4096), &k)
			default:
				c16Constants(c)
			}
		},
	})
}
