#!/bin/bash
# Runs the repository's pinned suite with the verif guard OFF and compares the
# passing tests with /root/.vp/BASELINE.json (stable_pass). Exit 0 iff every
# baseline test passes.
export GOFLAGS=-mod=mod GOPROXY=off GOSUMDB=off GOTOOLCHAIN=local
OUT=$(mktemp)
(cd /repo && go test -mod=mod -json -vet=off -count=1 -timeout 25m ./... > "$OUT" 2>&1)
python3 - "$OUT" <<'PY'
import json,sys
passed=set(); failed=set()
for l in open(sys.argv[1]):
    try: e=json.loads(l)
    except Exception: continue
    if e.get("Test") and e.get("Action") in ("pass","fail"):
        (passed if e["Action"]=="pass" else failed).add(e["Package"]+"::"+e["Test"])
base=json.load(open("/root/.vp/BASELINE.json"))["stable_pass"]
missing=[t for t in base if t not in passed]
print(f"baseline tests: {len(base)}  passed now: {len(passed)}  failed now: {len(failed)}  baseline tests not passing: {len(missing)}")
for t in missing[:20]: print("  NOT PASSING:", t)
for t in sorted(failed)[:20]: print("  FAILED:", t)
sys.exit(1 if missing or failed else 0)
PY
rc=$?; rm -f "$OUT"; exit $rc
